"""The DIMSE-N SCP implementations (service_class.ServiceClass._n_*_scp) evaluated with sa/minipy.py.

Nothing of pynetdicom is executed. The request, the presentation context, the DIMSE provider, `evt`, the
`attempt` context manager, `encode` and `BytesIO` are recording stand-ins; the service class object is a
stand-in whose methods (validate_status, is_valid_status and any helper a refactoring introduces) are resolved
from the source of ServiceClass and interpreted. The status table is one of status.py's own, evaluated from
its source (the one with the most categories).

One run answers: for a handler that returned (status, data set) - what was sent (which object, on which
context id, with which Status), was the data set encoded (with which object and flags), and which attribute
of the response carries the encoded bytes. Used by C21 (n-reply) and borrowed by C28."""

from __future__ import annotations

import ast

from .consteval import Evaluator, Unknown, module_tables
from .loader import AnalysisError, Repo, norm
from .minipy import Interp, Obj, Raised, Unsupported

N_SCPS = {
    "_n_action_scp": ("N_ACTION", "EVT_N_ACTION", "ActionReply"),
    "_n_create_scp": ("N_CREATE", "EVT_N_CREATE", "AttributeList"),
    "_n_event_report_scp": ("N_EVENT_REPORT", "EVT_N_EVENT_REPORT", "EventReply"),
    "_n_get_scp": ("N_GET", "EVT_N_GET", "AttributeList"),
    "_n_set_scp": ("N_SET", "EVT_N_SET", "AttributeList"),
}
DATA_ATTRS = ("ActionReply", "AttributeList", "EventReply", "ActionInformation", "EventInformation", "ModificationList")


class _DS(Obj):
    """the data set a handler returned: only its truth value (empty or not) and identity matter"""

    def __init__(self, n_elems: int):
        super().__init__("Dataset", {})
        self.n = n_elems

    def __bool__(self):
        return self.n > 0

    def __len__(self):
        return self.n

    def __contains__(self, kw):
        return kw in self.attrs

    def __iter__(self):
        return iter(())


class _Attempt:
    """`with attempt(rsp, dimse, cx_id[, assoc]) as ctx`: the handler stand-in never raises here (what attempt does
    with an exception is C20's rule), so the block just runs and ctx.success stays True"""

    _minipy_cm = True

    def __init__(self, *a, **k):
        assoc = a[3] if len(a) > 3 else k.get("assoc")
        self.ctx = Obj("attempt", {"success": True, "error_msg": "", "error_status": None, "assoc": assoc, "_assoc": assoc})

    def __enter__(self):
        return self.ctx

    def __exit__(self, *a):
        return None


class NScpEval:
    def __init__(self, repo: Repo):
        self.repo = repo
        self.sc = repo.mod("service_class")
        self.ci = repo.cls("service_class", "ServiceClass")
        st = repo.mod("status")
        tabs = {k: v for k, v in module_tables(repo, st).items() if k.endswith("_STATUS") and isinstance(v, dict) and v}
        if not tabs:
            raise AnalysisError("status.py: no evaluable *_STATUS table")
        ev = Evaluator(repo, st)
        self.consts = {}
        for k in ("STATUS_FAILURE", "STATUS_SUCCESS", "STATUS_WARNING", "STATUS_PENDING", "STATUS_CANCEL", "STATUS_UNKNOWN"):
            try:
                self.consts[k] = ev.name(k)
            except (Unknown, Exception):
                pass
        # the table with the most categories (the UPS table: Success, Warning, Failure, Cancel, Pending)
        self.table_name, self.table = max(sorted(tabs.items()), key=lambda kv: len({str(v[0]) for v in kv[1].values()}))
        self.codes = {}
        for code, v in sorted(self.table.items()):
            self.codes.setdefault(str(v[0]), code)
        unknown = next(c for c in (0x1234, 0x4321, 0x7777, 0x0ABC) if c not in self.table)
        self.codes["unknown"] = unknown

    def _resolver(self, cls, name):
        if cls != "ServiceClass":
            return None
        _, fn = self.repo.lookup_method(self.ci, name, "method")
        if fn is None:
            return None
        return fn, any(norm(d) == "staticmethod" for d in fn.decorator_list)

    def run(self, fname: str, status, n_elems, encode_ok: bool = True, req_uid="1.2.840.req", ds_uid=None):
        """-> dict(sent=[(rsp, cx, Status at send time, {data attr: value})], encoded=[(obj, flags)], ds=<the stand-in>,
        raised=kind|None)"""
        prim, event, attr = N_SCPS[fname]
        _, fn = self.repo.lookup_method(self.ci, fname, "method")
        if fn is None:
            raise AnalysisError(f"service_class.ServiceClass.{fname} vanished")
        sent, encoded = [], []
        ds = None if n_elems is None else _DS(n_elems)
        if ds is not None and ds_uid is not None:
            ds.attrs["AffectedSOPInstanceUID"] = ds_uid
        ts = Obj("UID", {"is_implicit_VR": "ts.implicit", "is_little_endian": "ts.little", "is_deflated": "ts.deflated"})
        context = Obj("PresentationContext", {"context_id": 3, "transfer_syntax": [ts], "as_tuple": ("cx",), "abstract_syntax": "1.2.3"})
        assoc = Obj("Association", {"is_established": True, "@abort": lambda s_: None})

        def send_msg(s_, rsp, cx):
            sent.append((rsp, cx, rsp.attrs.get("Status"), {k: rsp.attrs.get(k) for k in DATA_ATTRS if rsp.attrs.get(k) is not None}))

        dimse = Obj("DIMSEServiceProvider", {"@send_msg": send_msg})
        me = Obj("ServiceClass", {"statuses": dict(self.table), "dimse": dimse, "assoc": assoc})
        req_attrs = {"MessageID": 7, "_context_id": 3}
        for k in ("AffectedSOPClassUID", "AffectedSOPInstanceUID", "RequestedSOPClassUID", "RequestedSOPInstanceUID"):
            req_attrs[k] = "1.2.840." + k
        for k in ("ActionTypeID", "EventTypeID", "AttributeIdentifierList", "ActionInformation", "EventInformation", "ModificationList", "AttributeList"):
            req_attrs[k] = None
        req_attrs["AffectedSOPInstanceUID"] = req_uid
        req = Obj(prim, req_attrs)

        def new_prim(*a, **k):
            o = Obj(prim, {"Status": None, "MessageIDBeingRespondedTo": None, "MessageID": None, "AffectedSOPClassUID": None, "AffectedSOPInstanceUID": None, "ActionTypeID": None, "EventTypeID": None})
            for d in DATA_ATTRS:
                o.attrs[d] = None
            return o

        def encode(obj, *flags, **kw):
            encoded.append((obj, tuple(flags) + tuple(kw.values())))
            return b"<encoded>" if encode_ok else None

        evt = Obj("evt", {"@trigger": lambda s_, *a, **k: (status, ds)})
        for e_ in N_SCPS.values():
            evt.attrs[e_[1]] = e_[1]
        g = {"evt": evt, "encode": encode, "BytesIO": lambda b=None: ("BytesIO", b), "UserReturnType": None, "Dataset": None}
        g.update(self.consts)
        it = Interp(g, classes={p[0]: new_prim for p in N_SCPS.values()}, method_resolver=self._resolver)
        it.classes["attempt"] = _Attempt
        raised = None
        try:
            it.call_function(fn, {"self": me, "req": req, "context": context})
        except Raised as r:
            raised = r.kind
        return {"sent": sent, "encoded": encoded, "ds": ds, "raised": raised, "attr": attr, "ts": ts}
