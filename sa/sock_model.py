"""Timeout class of the requestor socket along AssociationSocket.connect(), path-sensitively.

Shared by C03 (gap tolerance) and C08 (bounded waits): abstract state (timeout class, connected?)
propagated with path facts (cfg.typestate_with_facts) so that the guarded spelling
    t = self.assoc.connection_timeout
    if t is not None: sock.settimeout(t)
    sock.connect(..)
    if t is not None: sock.settimeout(None)
is not split into infeasible paths.
"""

from __future__ import annotations

import ast

from .cfg import CFG, calls_at, typestate_with_facts
from .loader import Repo, body_nodoc, norm, strip_cast, walk_no_nested


def _resolve(fn: ast.AST, arg: ast.AST) -> ast.AST:
    """a local name with exactly one binding -> the bound expression"""
    arg = strip_cast(arg)
    seen = set()
    while isinstance(arg, ast.Name) and arg.id not in seen:
        seen.add(arg.id)
        binds = [s for s in walk_no_nested(fn) if isinstance(s, (ast.Assign, ast.AnnAssign)) and getattr(s, "value", None) is not None and norm(s.targets[0] if isinstance(s, ast.Assign) else s.target) == arg.id]
        if len(binds) != 1:
            break
        arg = strip_cast(binds[0].value)
    return arg


def classify_timeout(arg: ast.AST, fn: ast.AST | None = None) -> str:
    if fn is not None:
        arg = _resolve(fn, arg)
    t = norm(strip_cast(arg))
    if t == "None":
        return "none"
    if t.endswith("network_timeout"):
        return "network"
    if t.endswith("connection_timeout"):
        return "connection"
    return f"other:{t}"


class ConnectModel:
    def __init__(self, repo: Repo):
        self.fn = co = repo.func("transport", "AssociationSocket.connect")
        self.cfg = cfg = CFG(co, body=body_nodoc(co), local_exc_only=True)
        cs = repo.func("transport", "AssociationSocket._create_socket")
        self.init_calls = [c for c in walk_no_nested(cs) if isinstance(c, ast.Call) and isinstance(c.func, ast.Attribute) and c.func.attr == "settimeout"]
        self.init = classify_timeout(self.init_calls[-1].args[0], cs) if self.init_calls else "none"

        def transfer(n, st):
            cls, connected = st
            if n.kind == "stmt":
                for c in calls_at(n):
                    if isinstance(c.func, ast.Attribute) and c.func.attr == "settimeout" and norm(c.func.value) in ("self.socket", "sock") and c.args:
                        other = {l for _, l in n.succ if l != "exc"}
                        return [((classify_timeout(c.args[0], co), connected), other), (st, {"exc"})]
                    if norm(c.func) == "self.socket.connect":
                        other = {l for _, l in n.succ if l != "exc"}
                        return [((cls, True), other), (st, {"exc"})]
            return [(st, {l for _, l in n.succ})]

        self.ins, self.pred = typestate_with_facts(cfg, (self.init, False), transfer)
        self.marks = [n for n in cfg.nodes if n.kind == "stmt" and norm(n.ast) == "self._is_connected = True"]
        self.connects = [n for n in cfg.nodes if n.kind == "stmt" and any(norm(c.func) == "self.socket.connect" for c in calls_at(n))]

    def states(self, node) -> list[tuple[tuple[str, bool], frozenset]]:
        return sorted(self.ins.get(node.id, ()), key=repr)

    def classes(self, node) -> list[str]:
        return sorted({s[0][0] for s in self.ins.get(node.id, ())})

    def unconfigured(self, facts) -> bool:
        """the path facts say the connection timeout is None (not configured)"""
        for text, pol in facts:
            try:
                t = ast.parse(text, mode="eval").body
            except SyntaxError:
                continue
            if isinstance(t, ast.Compare) and isinstance(t.ops[0], ast.Is) and norm(t.comparators[0]) == "None" and pol:
                if classify_timeout(t.left, self.fn) == "connection":
                    return True
        return False
