"""Static literal evaluator: values are read from the syntax tree, never imported."""

from __future__ import annotations

import ast
import operator

from .loader import AnalysisError, Module, Repo


class Unknown(Exception):
    pass


_BIN = {
    ast.Add: operator.add,
    ast.Sub: operator.sub,
    ast.Mult: operator.mul,
    ast.FloorDiv: operator.floordiv,
    ast.Mod: operator.mod,
    ast.BitOr: operator.or_,
    ast.BitAnd: operator.and_,
    ast.LShift: operator.lshift,
    ast.RShift: operator.rshift,
    ast.Pow: operator.pow,
}


class Sym:
    """Opaque symbol for a name we deliberately do not evaluate (functions, classes)."""

    def __init__(self, name: str):
        self.name = name

    def __repr__(self):
        return f"<{self.name}>"

    def __eq__(self, other):
        return isinstance(other, Sym) and other.name == self.name

    def __hash__(self):
        return hash(("Sym", self.name))


class Evaluator:
    def __init__(self, repo: Repo, mod: Module, symbolic_names: bool = False):
        self.repo = repo
        self.mod = mod
        self.symbolic = symbolic_names
        self._cache: dict[tuple[str, str], object] = {}
        self._busy: set[tuple[str, str]] = set()

    # -- names ------------------------------------------------------------
    def name(self, name: str, mod: Module | None = None):
        mod = mod or self.mod
        key = (mod.name, name)
        if key in self._cache:
            return self._cache[key]
        if key in self._busy:
            raise Unknown(f"cyclic definition of {name}")
        self._busy.add(key)
        try:
            val = self._name(name, mod)
        finally:
            self._busy.discard(key)
        self._cache[key] = val
        return val

    def _name(self, name: str, mod: Module):
        if name in ("True", "False", "None"):
            return {"True": True, "False": False, "None": None}[name]
        if name in mod.assigns:
            vals = mod.assigns[name]
            if len(vals) != 1:
                raise Unknown(f"{mod.name}.{name} bound {len(vals)} times")
            sub = Evaluator(self.repo, mod, self.symbolic)
            sub._cache, sub._busy = self._cache, self._busy
            val = sub.eval(vals[0])
            if isinstance(val, dict):
                val = dict(val)
                for tgt, arg in mod.updates:
                    if tgt == name:
                        upd = sub.eval(arg)
                        if not isinstance(upd, dict):
                            raise Unknown(f"{name}.update(non-dict)")
                        val.update(upd)
            return val
        if name in mod.imports:
            src, attr = mod.imports[name]
            sm = self.repo.modules.get(src)
            if sm is not None and attr is not None:
                self.repo.consulted.add(sm.name)
                if attr in sm.assigns or attr in sm.imports:
                    return self.name(attr, sm)
                if attr in sm.funcs or attr in sm.classes:
                    return Sym(f"{sm.name}.{attr}")
            if self.symbolic:
                return Sym(f"{src}.{attr}" if attr else src)
            raise Unknown(f"import {name} from {src} not evaluable")
        if name in mod.funcs or name in mod.classes:
            return Sym(f"{mod.name}.{name}")
        if self.symbolic:
            return Sym(name)
        raise Unknown(f"name {name} not bound at module level in {mod.name}")

    # -- expressions ------------------------------------------------------
    def eval(self, node: ast.AST, env: dict | None = None):
        env = env or {}
        ev = lambda n: self.eval(n, env)  # noqa: E731
        if isinstance(node, ast.Constant):
            return node.value
        if isinstance(node, ast.Name):
            if node.id in env:
                return env[node.id]
            return self.name(node.id)
        if isinstance(node, ast.Tuple):
            return tuple(ev(e) for e in node.elts)
        if isinstance(node, ast.List):
            return [ev(e) for e in node.elts]
        if isinstance(node, ast.Set):
            return {ev(e) for e in node.elts}
        if isinstance(node, ast.Dict):
            out = {}
            for k, v in zip(node.keys, node.values):
                if k is None:
                    sub = ev(v)
                    if not isinstance(sub, dict):
                        raise Unknown("** of non-dict")
                    out.update(sub)
                else:
                    out[ev(k)] = ev(v)
            return out
        if isinstance(node, ast.UnaryOp):
            v = ev(node.operand)
            if isinstance(node.op, ast.USub):
                return -v
            if isinstance(node.op, ast.Not):
                return not v
            if isinstance(node.op, ast.Invert):
                return ~v
            raise Unknown("unary op")
        if isinstance(node, ast.BinOp):
            op = _BIN.get(type(node.op))
            if op is None:
                raise Unknown("binop")
            try:
                return op(ev(node.left), ev(node.right))
            except TypeError as exc:
                raise Unknown(str(exc))
        if isinstance(node, ast.JoinedStr):
            parts = []
            for v in node.values:
                if isinstance(v, ast.Constant):
                    parts.append(str(v.value))
                else:
                    raise Unknown("f-string with expression")
            return "".join(parts)
        if isinstance(node, ast.Subscript):
            base = ev(node.value)
            if isinstance(node.slice, ast.Slice):
                lo = ev(node.slice.lower) if node.slice.lower else None
                hi = ev(node.slice.upper) if node.slice.upper else None
                return base[lo:hi]
            try:
                return base[ev(node.slice)]
            except (KeyError, IndexError, TypeError) as exc:
                raise Unknown(f"subscript: {exc}")
        if isinstance(node, ast.Attribute):
            # module.NAME through `import pynetdicom.x as y` / `from pynetdicom import x`
            if isinstance(node.value, ast.Name) and node.value.id in self.mod.imports:
                src, attr = self.mod.imports[node.value.id]
                full = f"{src}.{attr}" if attr else src
                sm = self.repo.modules.get(full) or self.repo.modules.get(src)
                if sm is not None:
                    self.repo.consulted.add(sm.name)
                    if node.attr in sm.assigns or node.attr in sm.imports:
                        return self.name(node.attr, sm)
                    if node.attr in sm.funcs or node.attr in sm.classes:
                        return Sym(f"{sm.name}.{node.attr}")
            if self.symbolic:
                return Sym(ast.unparse(node))
            raise Unknown(f"attribute {ast.unparse(node)}")
        if isinstance(node, ast.Call):
            return self._call(node, env)
        if isinstance(node, (ast.DictComp, ast.ListComp, ast.SetComp, ast.GeneratorExp)):
            return self._comp(node, env)
        if isinstance(node, ast.IfExp):
            return ev(node.body) if ev(node.test) else ev(node.orelse)
        if isinstance(node, ast.Compare) and len(node.ops) == 1:
            l, r = ev(node.left), ev(node.comparators[0])
            op = node.ops[0]
            table = {
                ast.Eq: operator.eq,
                ast.NotEq: operator.ne,
                ast.Lt: operator.lt,
                ast.LtE: operator.le,
                ast.Gt: operator.gt,
                ast.GtE: operator.ge,
                ast.In: lambda a, b: a in b,
                ast.NotIn: lambda a, b: a not in b,
                ast.Is: operator.is_,
                ast.IsNot: operator.is_not,
            }
            return table[type(op)](l, r)
        raise Unknown(f"expression kind {type(node).__name__}: {ast.unparse(node)[:60]}")

    def _call(self, node: ast.Call, env):
        fn = node.func
        ev = lambda n: self.eval(n, env)  # noqa: E731
        if isinstance(fn, ast.Name):
            if fn.id == "range":
                return range(*[ev(a) for a in node.args])
            if fn.id in ("list", "tuple", "set", "sorted", "frozenset", "dict", "len"):
                f = {
                    "list": list,
                    "tuple": tuple,
                    "set": set,
                    "sorted": sorted,
                    "frozenset": frozenset,
                    "dict": dict,
                    "len": len,
                }[fn.id]
                return f(*[ev(a) for a in node.args])
            if fn.id == "cast" and len(node.args) == 2:
                return ev(node.args[1])
            if fn.id == "Struct" and len(node.args) == 1:
                return ("Struct", ev(node.args[0]))
        if isinstance(fn, ast.Attribute):
            d = ast.unparse(fn)
            if d in ("struct.Struct",) and len(node.args) == 1:
                return ("Struct", ev(node.args[0]))
            if fn.attr in ("items", "keys", "values") and not node.args:
                base = ev(fn.value)
                if isinstance(base, dict):
                    return list(getattr(base, fn.attr)())
            if fn.attr in ("pack", "unpack") and not node.args:
                pass
        if self.symbolic:
            return Sym(ast.unparse(node)[:80])
        raise Unknown(f"call {ast.unparse(node)[:60]}")

    def _comp(self, node, env):
        results = []

        def rec(i, env2):
            if i == len(node.generators):
                if isinstance(node, ast.DictComp):
                    results.append((self.eval(node.key, env2), self.eval(node.value, env2)))
                else:
                    results.append(self.eval(node.elt, env2))
                return
            g = node.generators[i]
            for item in self.eval(g.iter, env2):
                e3 = dict(env2)
                self._bind(g.target, item, e3)
                if all(self.eval(c, e3) for c in g.ifs):
                    rec(i + 1, e3)

        rec(0, dict(env))
        if isinstance(node, ast.DictComp):
            return dict(results)
        if isinstance(node, ast.SetComp):
            return set(results)
        return results

    def _bind(self, target, value, env):
        if isinstance(target, ast.Name):
            env[target.id] = value
        elif isinstance(target, (ast.Tuple, ast.List)):
            vals = list(value)
            if len(vals) != len(target.elts):
                raise Unknown("unpack arity")
            for t, v in zip(target.elts, vals):
                self._bind(t, v, env)
        else:
            raise Unknown("bind target")


def const(repo: Repo, mod: str, name: str, symbolic: bool = False):
    m = repo.mod(mod)
    try:
        return Evaluator(repo, m, symbolic).name(name)
    except Unknown as exc:
        raise AnalysisError(f"cannot evaluate {m.name}.{name} statically: {exc}")


def try_eval(repo: Repo, mod: Module, node: ast.AST, env=None, symbolic=False):
    try:
        return True, Evaluator(repo, mod, symbolic).eval(node, env)
    except Unknown:
        return False, None


def module_tables(repo: Repo, mod: Module) -> dict[str, dict]:
    """Sequentially interpret the module-level statements that build dict tables:
    `NAME = {literal}` / `NAME = OTHER` (alias) / `for v in range(..): NAME[v] = expr` /
    `NAME.update(expr)`.  Anything else touching a table name is Unknown."""
    ev = Evaluator(repo, mod, symbolic_names=True)
    tables: dict[str, dict] = {}

    def value(node, env):
        if isinstance(node, ast.Name) and node.id in tables:
            return tables[node.id]
        if isinstance(node, ast.Call) and isinstance(node.func, ast.Name) and node.func.id in mod.funcs and not any(isinstance(a, ast.Starred) for a in node.args):
            # a module-level helper that builds (part of) a table: interpreted (sa/minipy.py) on the evaluated arguments
            from .minipy import Interp, Raised, Unsupported

            f_ = mod.funcs[node.func.id]
            params = [a.arg for a in f_.args.args]
            bound = dict(zip(params, [value(a, env) for a in node.args]))
            for k in node.keywords:
                if k.arg:
                    bound[k.arg] = value(k.value, env)
            g = {"dict": dict}
            for nm in {n.id for n in ast.walk(f_) if isinstance(n, ast.Name)} - set(params) - {"dict", "range", "len", "list", "tuple", "int", "str"}:
                if nm in tables:
                    g[nm] = tables[nm]
                else:
                    try:
                        g[nm] = ev.name(nm)
                    except (Unknown, Exception):
                        pass
            try:
                return Interp(g).call_function(f_, bound)
            except (Unsupported, Raised) as exc:
                raise Unknown(f"helper {node.func.id}() not evaluable: {exc}")
        return ev.eval(node, {**tables, **env})

    def bind(target, item, env):
        if isinstance(target, ast.Name):
            env[target.id] = item
        elif isinstance(target, (ast.Tuple, ast.List)):
            items = list(item)
            if len(items) != len(target.elts):
                raise Unknown("loop target arity")
            for t_, i_ in zip(target.elts, items):
                bind(t_, i_, env)
        else:
            raise Unknown("loop target shape")

    def exec_block(stmts, env):
        """module-level table-filling code: (nested) for loops over evaluable iterables, `T[k] = v`,
        `T.update(d)`, local name bindings and evaluable ifs; anything else that writes a table is Unknown"""
        for s_ in stmts:
            if isinstance(s_, ast.For):
                it = value(s_.iter, env)
                if isinstance(it, dict):
                    it = list(it)
                for item in list(it):
                    env2 = dict(env)
                    bind(s_.target, item, env2)
                    exec_block(s_.body, env2)
                if s_.orelse:
                    exec_block(s_.orelse, env)
            elif isinstance(s_, ast.If):
                exec_block(s_.body if value(s_.test, env) else s_.orelse, env)
            elif isinstance(s_, ast.Assign) and len(s_.targets) == 1 and isinstance(s_.targets[0], ast.Subscript) and isinstance(s_.targets[0].value, ast.Name) and s_.targets[0].value.id in tables:
                sub = s_.targets[0]
                tables[sub.value.id][value(sub.slice, env)] = value(s_.value, env)
            elif isinstance(s_, ast.Assign) and len(s_.targets) == 1 and isinstance(s_.targets[0], (ast.Name, ast.Tuple)):
                bind(s_.targets[0], value(s_.value, env), env)
            elif isinstance(s_, ast.Expr) and isinstance(s_.value, ast.Call) and isinstance(s_.value.func, ast.Attribute) and isinstance(s_.value.func.value, ast.Name) and s_.value.func.value.id in tables and s_.value.func.attr == "update" and len(s_.value.args) == 1:
                upd = value(s_.value.args[0], env)
                if not isinstance(upd, dict):
                    raise Unknown("update with non-dict")
                tables[s_.value.func.value.id].update(upd)
            elif isinstance(s_, (ast.Pass, ast.Continue)):
                if isinstance(s_, ast.Continue):
                    raise Unknown("continue in a table-filling loop")
            else:
                raise Unknown(f"unmodelled statement in table-filling code: {type(s_).__name__}")

    for st in mod.tree.body:
        tgt, val = None, None
        if isinstance(st, ast.Assign) and len(st.targets) == 1 and isinstance(st.targets[0], ast.Name):
            tgt, val = st.targets[0].id, st.value
        elif isinstance(st, ast.AnnAssign) and isinstance(st.target, ast.Name) and st.value is not None:
            tgt, val = st.target.id, st.value
        if tgt is not None:
            if isinstance(val, ast.Dict) or (isinstance(val, ast.Name) and val.id in tables):
                try:
                    tables[tgt] = value(val, {})
                except Unknown as exc:
                    raise AnalysisError(f"{mod.name}.{tgt}: {exc}")
            continue
        if isinstance(st, ast.For):
            touches = any(isinstance(n, ast.Name) and n.id in tables for n in ast.walk(st))
            writes = any(isinstance(n, (ast.Subscript, ast.Attribute)) and isinstance(getattr(n, "ctx", None), (ast.Store, ast.Del)) and isinstance(n.value, ast.Name) and n.value.id in tables for n in ast.walk(st)) or any(isinstance(n, ast.Call) and isinstance(n.func, ast.Attribute) and isinstance(n.func.value, ast.Name) and n.func.value.id in tables and n.func.attr in ("update", "pop", "clear", "setdefault", "popitem", "__setitem__") for n in ast.walk(st))
            if not (touches and writes):
                continue
            try:
                exec_block([st], {})
            except Unknown as exc:
                raise AnalysisError(f"{mod.name}:{st.lineno}: {exc}")
            continue
        if (
            isinstance(st, ast.Expr)
            and isinstance(st.value, ast.Call)
            and isinstance(st.value.func, ast.Attribute)
            and isinstance(st.value.func.value, ast.Name)
            and st.value.func.value.id in tables
        ):
            name, meth = st.value.func.value.id, st.value.func.attr
            if meth != "update" or len(st.value.args) != 1:
                raise AnalysisError(f"{mod.name}:{st.lineno}: unmodelled table operation .{meth}")
            try:
                upd = value(st.value.args[0], {})
            except Unknown as exc:
                raise AnalysisError(f"{mod.name}:{st.lineno}: {exc}")
            if not isinstance(upd, dict):
                raise AnalysisError(f"{mod.name}:{st.lineno}: update with non-dict")
            tables[name].update(upd)
            continue
        # any other statement that mentions a table name as a store target is not modelled
        for n in ast.walk(st):
            if isinstance(n, (ast.Subscript, ast.Attribute)) and isinstance(getattr(n, "ctx", None), (ast.Store, ast.Del)):
                b = n.value
                if isinstance(b, ast.Name) and b.id in tables and not isinstance(st, (ast.FunctionDef, ast.ClassDef)):
                    raise AnalysisError(f"{mod.name}:{st.lineno}: unmodelled write to table {b.id}")
    return tables
