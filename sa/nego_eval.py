"""The three negotiation functions of presentation.py evaluated point by point with sa/minipy.py.

Stand-ins: a PresentationContext whose public attributes are aliases of the private fields its trivial
property getters return (checked against the class on every run; a non-trivial getter / setter of a
field the negotiation reads makes the evaluation 'not analysed'), a plain
SCP_SCU_RoleSelectionNegotiation, one abstract-syntax symbol and transfer-syntax symbols. The role
table SCP_SCU_ROLES is the statically evaluated literal of the module."""

from __future__ import annotations

import ast

from .consteval import Evaluator, Unknown
from .loader import AnalysisError, Repo, norm, walk_no_nested
from .minipy import Interp, Obj, Raised, Unsupported

CX_FIELDS = ("context_id", "abstract_syntax", "transfer_syntax", "scu_role", "scp_role", "as_scu", "as_scp", "result")


class NegoEval:
    def __init__(self, repo: Repo):
        self.repo = repo
        self.mod = repo.mod("presentation")
        ev = Evaluator(repo, self.mod)
        try:
            self.table = ev.name("SCP_SCU_ROLES")
        except Unknown as exc:
            raise AnalysisError(f"presentation.SCP_SCU_ROLES not evaluable: {exc}")
        ci = self.mod.classes.get("PresentationContext")
        if ci is None:
            raise AnalysisError("presentation.PresentationContext vanished")
        # public name -> backing field, read off the getters (`return self._x`)
        self.alias = {}
        for f in CX_FIELDS:
            g = ci.getters.get(f)
            if g is None:
                continue  # a plain attribute
            rets = [r for r in walk_no_nested(g) if isinstance(r, ast.Return)]
            if len(rets) == 1 and isinstance(rets[0].value, ast.Attribute) and norm(rets[0].value.value) == "self":
                self.alias[f] = rets[0].value.attr
            else:
                raise Unsupported(f"PresentationContext.{f}: the getter is not `return self._field`")
        # defaults from __init__ (constants only; everything else None)
        self.defaults = {}
        init = ci.methods.get("__init__")
        for s in walk_no_nested(init) if init is not None else []:
            tg = s.targets[0] if isinstance(s, ast.Assign) else s.target if isinstance(s, ast.AnnAssign) and s.value is not None else None
            if tg is not None and isinstance(tg, ast.Attribute) and norm(tg.value) == "self":
                v = s.value
                self.defaults[tg.attr] = v.value if isinstance(v, ast.Constant) else [] if isinstance(v, ast.List) and not v.elts else None

    # -- stand-ins ---------------------------------------------------------------------------------
    def new_cx(self, **kw) -> Obj:
        o = Obj("PresentationContext", dict(self.defaults), self.alias)

        def add_ts(self_, syntax):
            lst = self_.get("transfer_syntax")
            if syntax not in lst:
                lst.append(syntax)

        o.attrs["@add_transfer_syntax"] = add_ts
        if "_transfer_syntax" in o.attrs and o.attrs["_transfer_syntax"] is None:
            o.attrs["_transfer_syntax"] = []
        for k, v in kw.items():
            o.set(k, v)
        return o

    @staticmethod
    def new_role(**kw) -> Obj:
        o = Obj("SCP_SCU_RoleSelectionNegotiation", {"sop_class_uid": None, "scu_role": None, "scp_role": None})
        for k, v in kw.items():
            o.set(k, v)
        return o

    def interp(self, extra_globals=None) -> Interp:
        g = {"SCP_SCU_ROLES": self.table, "DEFAULT_ROLE": None}
        g.update(extra_globals or {})
        it = Interp(g, classes={"PresentationContext": lambda: self.new_cx(), "SCP_SCU_RoleSelectionNegotiation": lambda: self.new_role()})
        # helper functions of presentation.py the negotiation functions may call
        for name, fn in self.mod.funcs.items():
            if name in it.globals or not name.startswith("_"):
                continue

            def call(*args, _fn=fn, **kw):
                params = [a.arg for a in _fn.args.args]
                bound = dict(zip(params, args))
                bound.update(kw)
                return it.call_function(_fn, bound)

            it.globals[name] = call
        return it

    # -- the three functions -------------------------------------------------------------------------
    def acceptor(self, proposal, setting, ts_match: bool = True, supported: bool = True, fname: str = "negotiate_as_acceptor"):
        """one proposed context (abstract syntax 'AB', transfer syntaxes ['T1', 'T2']) against one supported
        context. proposal: None or (scu, scp) as decoded from the wire; setting: (scu_role, scp_role).
        -> dict(result, as_scu, as_scp, reply, ts)"""
        fn = self.repo.func("presentation", fname)
        rq = self.new_cx(context_id=1, abstract_syntax="AB", transfer_syntax=["T1", "T2"])
        ac = self.new_cx(context_id=None, abstract_syntax="AB" if supported else "OTHER", transfer_syntax=["T2", "T1"] if ts_match else ["T9"], scu_role=setting[0], scp_role=setting[1])
        roles = {"AB": proposal} if proposal is not None else {}
        it = self.interp()
        params = [a.arg for a in fn.args.args]
        try:
            res = it.call_function(fn, dict(zip(params, [[rq], [ac], roles])))
        except Raised as r:
            return dict(raised=r.kind)
        cxs, rr = res
        if len(cxs) != 1:
            return dict(count=len(cxs))
        c = cxs[0]
        reply = None
        if rr:
            if len(rr) != 1:
                return dict(replies=len(rr))
            reply = (rr[0].get("scu_role"), rr[0].get("scp_role"), rr[0].get("sop_class_uid"))
        return dict(result=c.get("result"), as_scu=c.get("as_scu"), as_scp=c.get("as_scp"), reply=reply, ts=list(c.get("transfer_syntax")), cid=c.get("context_id"), ab=c.get("abstract_syntax"))

    def unrestricted(self, proposal):
        """a storage context proposed to negotiate_unrestricted (no supported contexts needed)"""
        fn = self.repo.func("presentation", "negotiate_unrestricted")
        uid = Obj("UID", {"is_private": False, "keyword": "CTImageStorage"})
        rq = self.new_cx(context_id=1, abstract_syntax=uid, transfer_syntax=["T1", "T2"])
        roles = {uid: proposal} if proposal is not None else {}
        sopmod = Obj("module", {"CTImageStorage": uid})
        it = self.interp({"_STORAGE_CLASSES": {"CTImageStorage": uid}, "SOP_CLASS_MODULE": sopmod, "hasattr": lambda o, n: isinstance(o, Obj) and n in o.attrs})
        # module-level names of presentation.py derived from what the stand-ins provide (e.g. a view of the storage table)
        for a_ in self.mod.tree.body:
            if isinstance(a_, ast.Assign) and len(a_.targets) == 1 and isinstance(a_.targets[0], ast.Name) and a_.targets[0].id not in it.globals and any(isinstance(x, ast.Name) and x.id in ("_STORAGE_CLASSES", "SOP_CLASS_MODULE") for x in ast.walk(a_.value)):
                try:
                    it.globals[a_.targets[0].id] = it.ev(a_.value, {})
                except (Unsupported, Raised):
                    pass
        acc = self.repo.func("presentation", "negotiate_as_acceptor")
        it.globals["negotiate_as_acceptor"] = lambda a, b, c=None: it.call_function(acc, dict(zip([p.arg for p in acc.args.args], [a, b, c])))
        params = [a.arg for a in fn.args.args]
        try:
            res = it.call_function(fn, dict(zip(params, [[rq], [], roles])))
        except Raised as r:
            return dict(raised=r.kind)
        cxs, rr = res
        if len(cxs) != 1:
            return dict(count=len(cxs))
        c = cxs[0]
        reply = None
        if rr:
            reply = (rr[0].get("scu_role"), rr[0].get("scp_role"), rr[0].get("sop_class_uid") is uid)
        return dict(result=c.get("result"), as_scu=c.get("as_scu"), as_scp=c.get("as_scp"), reply=reply, ts=list(c.get("transfer_syntax")), cid=c.get("context_id"))

    def requestor(self, local_roles, result: int, reply):
        """the requestor's view of one proposed context: local_roles = (scu_role, scp_role) stored on the
        requested context (after ACSE's own normalisation), result = the acceptor's result code, reply = None
        or (scu, scp) of the acceptor's role item. -> dict(result, as_scu, as_scp)"""
        fn = self.repo.func("presentation", "negotiate_as_requestor")
        rq = self.new_cx(context_id=1, abstract_syntax="AB", transfer_syntax=["T1", "T2"], scu_role=local_roles[0], scp_role=local_roles[1])
        ac = self.new_cx(context_id=1, abstract_syntax=None, transfer_syntax=["T1"], result=result)
        roles = {"AB": reply} if reply is not None else {}
        it = self.interp()
        params = [a.arg for a in fn.args.args]
        try:
            res = it.call_function(fn, dict(zip(params, [[rq], [ac], roles])))
        except Raised as r:
            return dict(raised=r.kind)
        if len(res) != 1:
            return dict(count=len(res))
        c = res[0]
        return dict(result=c.get("result"), as_scu=c.get("as_scu"), as_scp=c.get("as_scp"), ts=list(c.get("transfer_syntax")), ab=c.get("abstract_syntax"))

    def acceptor_many(self, n: int = 128, fname: str = "negotiate_as_acceptor"):
        """the largest request PS3.8 allows: n contexts (ids 1, 3, .., 2n-1) that alternate between two identical
        proposals of one supported abstract syntax and one unsupported one. -> [(context id, result, object identity)]"""
        fn = self.repo.func("presentation", fname)
        rqs = []
        for k in range(n):
            if k % 3 == 2:
                rqs.append(self.new_cx(context_id=2 * k + 1, abstract_syntax="ZZ", transfer_syntax=["T1"]))
            else:
                rqs.append(self.new_cx(context_id=2 * k + 1, abstract_syntax="AB", transfer_syntax=["T1", "T2"]))
        ac = self.new_cx(context_id=None, abstract_syntax="AB", transfer_syntax=["T2", "T1"], scu_role=True, scp_role=True)
        it = self.interp()
        params = [a.arg for a in fn.args.args]
        try:
            cxs, _rr = it.call_function(fn, dict(zip(params, [rqs, [ac], {"AB": (True, True)}])))
        except Raised as r:
            return [("raised", r.kind, 0)]
        return [(c.get("context_id"), c.get("result"), id(c)) for c in cxs]

    def requestor_pair(self, local_roles, reply):
        """the same abstract syntax requested in two contexts: context 1 rejected by the acceptor (0x04), context 3
        accepted. -> (outcome of context 1, outcome of context 3) as in requestor()"""
        fn = self.repo.func("presentation", "negotiate_as_requestor")
        rq1 = self.new_cx(context_id=1, abstract_syntax="AB", transfer_syntax=["T8"], scu_role=local_roles[0], scp_role=local_roles[1])
        rq3 = self.new_cx(context_id=3, abstract_syntax="AB", transfer_syntax=["T1", "T2"], scu_role=local_roles[0], scp_role=local_roles[1])
        ac1 = self.new_cx(context_id=1, abstract_syntax=None, transfer_syntax=["T8"], result=4)
        ac3 = self.new_cx(context_id=3, abstract_syntax=None, transfer_syntax=["T1"], result=0)
        roles = {"AB": reply} if reply is not None else {}
        it = self.interp()
        params = [a.arg for a in fn.args.args]
        try:
            res = it.call_function(fn, dict(zip(params, [[rq1, rq3], [ac1, ac3], roles])))
        except Raised as r:
            return dict(raised=r.kind), dict(raised=r.kind)
        by_id = {c.get("context_id"): c for c in res}
        if sorted(by_id) != [1, 3]:
            return dict(count=len(res)), dict(count=len(res))
        out = []
        for k in (1, 3):
            c = by_id[k]
            out.append(dict(result=c.get("result"), as_scu=c.get("as_scu"), as_scp=c.get("as_scp"), ts=list(c.get("transfer_syntax")), ab=c.get("abstract_syntax")))
        return out[0], out[1]

    def acceptor_pair(self, proposal, setting, fname: str = "negotiate_as_acceptor"):
        """the same abstract syntax proposed twice: context 1 with a transfer syntax the acceptor supports,
        context 3 without one. -> (first context's outcome as in acceptor(), second context's result code)"""
        fn = self.repo.func("presentation", fname)
        rq1 = self.new_cx(context_id=1, abstract_syntax="AB", transfer_syntax=["T1", "T2"])
        rq2 = self.new_cx(context_id=3, abstract_syntax="AB", transfer_syntax=["T8"])
        ac = self.new_cx(context_id=None, abstract_syntax="AB", transfer_syntax=["T2", "T1"], scu_role=setting[0], scp_role=setting[1])
        roles = {"AB": proposal} if proposal is not None else {}
        it = self.interp()
        params = [a.arg for a in fn.args.args]
        try:
            cxs, rr = it.call_function(fn, dict(zip(params, [[rq1, rq2], [ac], roles])))
        except Raised as r:
            return dict(raised=r.kind), None
        by_id = {c.get("context_id"): c for c in cxs}
        if sorted(by_id) != [1, 3] or len(cxs) != 2:
            return dict(count=len(cxs)), None
        c = by_id[1]
        reply = None
        if rr:
            if len(rr) != 1:
                return dict(replies=len(rr)), None
            reply = (rr[0].get("scu_role"), rr[0].get("scp_role"), rr[0].get("sop_class_uid"))
        first = dict(result=c.get("result"), as_scu=c.get("as_scu"), as_scp=c.get("as_scp"), reply=reply, ts=list(c.get("transfer_syntax")), cid=1, ab=c.get("abstract_syntax"))
        return first, by_id[3].get("result")


def eval_context_partition(repo: Repo, fn: ast.FunctionDef, cls_name: str = "ACSE"):
    """How `fn` (an ACSE negotiation method) files the negotiated contexts into the association's
    `_accepted_cx` / `_rejected_cx`, decided by evaluating the statements that do it - inline, or in a helper
    method they are delegated to - on contexts with the result codes 0..4, an undefined code (5, 255) and a
    missing one (None). -> list of problems (empty when every context lands in exactly one table, the accepted
    one exactly for result 0, keyed by its own id), the number of assignment sites found"""
    mod = repo.mod("acse")
    ci = mod.classes.get(cls_name)
    sites = []  # (statements to run, name of the list variable)
    for st in walk_no_nested(fn):
        if isinstance(st, ast.Assign) and norm(st.targets[0]) == "self.assoc._accepted_cx":
            blk = None
            for p in ast.walk(fn):
                for f_ in ("body", "orelse", "finalbody"):
                    b = getattr(p, f_, None)
                    if isinstance(b, list) and any(x is st for x in b):
                        blk = b
            if blk is None:
                raise Unsupported(f"{fn.name}: `_accepted_cx = ...` not found in a block")
            i = blk.index(st)

            def _touches(x):
                return any(isinstance(y, ast.Attribute) and y.attr in ("_accepted_cx", "_rejected_cx") for y in ast.walk(x))

            lo = i - 1 if i > 0 and _touches(blk[i - 1]) else i
            hi = i
            while hi + 1 < len(blk) and _touches(blk[hi + 1]):
                hi += 1
            run = blk[lo:hi + 1]
            src = None
            for r_ in run:
                for c in ast.walk(r_):
                    if isinstance(c, ast.comprehension) and isinstance(c.iter, ast.Name):
                        src = c.iter.id
                    if isinstance(c, ast.For) and isinstance(c.iter, ast.Name):
                        src = c.iter.id
            if src is None:
                raise Unsupported(f"{fn.name}: the list the accepted / rejected tables are filled from was not found")
            if not any(k_ == "inline" and w_[0] is run[0] for k_, w_, _s, _t in sites):
                sites.append(("inline", run, src, st))
        if isinstance(st, ast.Expr) and isinstance(st.value, ast.Call) and isinstance(st.value.func, ast.Attribute) and norm(st.value.func.value) == "self" and ci is not None:
            h = ci.methods.get(st.value.func.attr)
            if h is not None and any(isinstance(a, ast.Assign) and norm(a.targets[0]).endswith("._accepted_cx") for a in ast.walk(h)) and len(st.value.args) == 1:
                sites.append(("helper", h, None, st))
    problems = []
    codes = [0, 1, 2, 3, 4, 5, 255, None]
    for kind, what, src, st in sites:
        cxs = [Obj("PresentationContext", {"context_id": 2 * k + 1, "result": r, "abstract_syntax": f"A{k}", "transfer_syntax": ["T"]}) for k, r in enumerate(codes)]
        assoc = Obj("Association", {"_accepted_cx": None, "_rejected_cx": None})
        me = Obj(cls_name, {"assoc": assoc})
        it = Interp({})
        try:
            if kind == "inline":
                it.run(what, {"self": me, src: cxs})
            else:
                params = [a.arg for a in what.args.args]
                it.call_function(what, dict(zip(params, [me, cxs])))
        except Raised as r_:
            problems.append((st, f"raises {r_.kind} for contexts with results {codes}"))
            continue
        acc, rej = assoc.get("_accepted_cx"), assoc.get("_rejected_cx")
        if not isinstance(acc, dict) or not isinstance(rej, list):
            problems.append((st, "the accepted table is not a dict / the rejected one not a list after the assignment"))
            continue
        for cx in cxs:
            r, cid = cx.get("result"), cx.get("context_id")
            in_acc = any(v is cx for v in acc.values())
            in_rej = any(v is cx for v in rej)
            if r == 0 and not (in_acc and not in_rej and acc.get(cid) is cx):
                problems.append((st, f"a context with result 0 (accepted) and id {cid} is {'not in the accepted table under its own id' if not in_acc or acc.get(cid) is not cx else 'also listed as rejected'}"))
            if r != 0 and (in_acc or not in_rej):
                problems.append((st, f"a context whose result is {r!r} ({'no result decoded' if r is None else 'a rejection / undefined code'}) is {'filed as accepted' if in_acc else 'in neither table'}"))
    return problems, len(sites)
