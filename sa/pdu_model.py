"""Static model of the PDU / item codec tables in pdu.py and pdu_items.py (C01, C02, C11, C15)."""

from __future__ import annotations

import ast
import re

from .lin import Lin
from .loader import AnalysisError, ClassInfo, Repo, body_nodoc, dotted, norm, strip_cast, walk_no_nested

STRUCT_W = {"B": (1, "-"), "H": (2, None), "I": (4, None), "L": (4, None)}


class Field:
    def __init__(self, kind, width=None, attr=None, value=None, endian=None, node=None, pad=None):
        self.kind = kind  # pack | reserved | str | items | bytes | list
        self.width = width
        self.attr = attr
        self.value = value
        self.endian = endian
        self.node = node
        self.pad = pad

    def __repr__(self):
        return f"{self.kind}:{self.attr}:{self.width}"


class PduModel:
    def __init__(self, repo: Repo):
        self.repo = repo
        self.mods = [repo.mod("pdu"), repo.mod("pdu_items")]
        self.classes: dict[str, ClassInfo] = {}
        for m in self.mods:
            for name, ci in m.classes.items():
                if "_encoders" in ci.getters and name not in ("PDU", "PDUItem"):
                    self.classes[name] = ci
        self.other_structs: list = []
        self._packers = {m.name: self._find_packers(m) for m in self.mods}

    # -- struct helpers ------------------------------------------------------
    def _find_packers(self, m):
        structs = {}
        for name, vals in m.assigns.items():
            v = vals[0]
            if isinstance(v, ast.Call) and (dotted(v.func) in ("Struct", "struct.Struct")) and v.args and isinstance(v.args[0], ast.Constant):
                fmt = v.args[0].value
                mo = re.fullmatch(r"([<>!=@]?)([BHIL])", fmt)
                if not mo:
                    # a compound / signed format: not one of the single-field packers the layout model knows - recorded
                    # for the wire-unsigned rule, and any use of it as a field packer is then 'not a known alias'
                    self.other_structs.append((m, name, fmt, v))
                    continue
                w = STRUCT_W[mo.group(2)][0]
                order = mo.group(1) or ("-" if w == 1 else "native")
                if order == "!":
                    order = ">"
                structs[name] = (w, order)
        out = {}
        for name, vals in m.assigns.items():
            v = vals[0]
            if isinstance(v, ast.Attribute) and isinstance(v.value, ast.Name) and v.value.id in structs and v.attr in ("pack", "unpack"):
                out[name] = (v.attr,) + structs[v.value.id]
        return out

    def packer(self, ci: ClassInfo, name: str):
        p = self._packers[ci.mod.name].get(name)
        if p is None:
            raise AnalysisError(f"{ci.mod.name}: {name} is not a known Struct pack/unpack alias")
        return p

    # -- encoders --------------------------------------------------------------
    def encoder_rows(self, ci: ClassInfo) -> list[Field]:
        fn = ci.getters["_encoders"]
        body = body_nodoc(fn)
        if not (len(body) == 1 and isinstance(body[0], ast.Return) and isinstance(body[0].value, ast.List)):
            raise AnalysisError(f"{ci.name}._encoders: not a single `return [..]`")
        rows = []
        for el in body[0].value.elts:
            if not (isinstance(el, ast.Tuple) and len(el.elts) == 3 and isinstance(el.elts[2], ast.List)):
                raise AnalysisError(f"{ci.name}._encoders: row shape at line {el.lineno}")
            a, f, args = el.elts
            attr = a.value if isinstance(a, ast.Constant) else "?"
            if attr == "?":
                raise AnalysisError(f"{ci.name}._encoders: attribute name not a literal at line {el.lineno}")
            d = dotted(f) or ""
            argv = args.elts
            if isinstance(f, ast.Name):
                kind, w, order = self.packer(ci, f.id)
                if kind != "pack" or argv or attr is None:
                    raise AnalysisError(f"{ci.name}._encoders: packer row shape at line {el.lineno}")
                rows.append(Field("pack", w, attr, None, order, el))
            elif d == "self._wrap_pack":
                if attr is not None or len(argv) != 2 or not isinstance(argv[0], ast.Constant) or not isinstance(argv[1], ast.Name):
                    raise AnalysisError(f"{ci.name}._encoders: reserved row shape at line {el.lineno}")
                kind, w, order = self.packer(ci, argv[1].id)
                rows.append(Field("reserved", w, None, argv[0].value, order, el))
            elif d == "self._wrap_encode_str":
                pad = None
                if argv:
                    if not isinstance(argv[0], ast.Constant):
                        raise AnalysisError(f"{ci.name}._encoders: pad not literal at line {el.lineno}")
                    pad = argv[0].value
                rows.append(Field("str", pad, attr, None, None, el, pad=pad))
            elif d == "self._wrap_encode_items":
                rows.append(Field("items", None, attr, None, None, el))
            elif d == "self._wrap_bytes":
                rows.append(Field("bytes", None, attr, None, None, el))
            elif d == "self._wrap_list":
                rows.append(Field("list", None, attr, None, None, el))
            else:
                raise AnalysisError(f"{ci.name}._encoders: encoder function {d or norm(f)} not modelled (line {el.lineno})")
        return rows

    # -- symbolic length properties ------------------------------------------------
    def prop_lin(self, ci: ClassInfo, prop: str, depth: int = 0):
        """-> list of (assumptions frozenset{(attr, truthy)}, Lin) for a length property."""
        if depth > 4:
            raise AnalysisError(f"{ci.name}.{prop}: property inlining too deep")
        owner, fn = self.repo.lookup_method(ci, prop, "getter")
        if fn is None:
            raise AnalysisError(f"{ci.name}.{prop}: not a property")
        results = []

        def lin(e, env) -> list[tuple[frozenset, Lin]]:
            e = strip_cast(e)
            if isinstance(e, ast.Call) and isinstance(e.func, ast.Name) and e.func.id in ("int",) and len(e.args) == 1:
                return lin(e.args[0], env)
            if isinstance(e, ast.Constant) and isinstance(e.value, int):
                return [(frozenset(), Lin.const(e.value))]
            if isinstance(e, ast.Name) and e.id in env:
                return env[e.id]
            if isinstance(e, ast.BinOp) and isinstance(e.op, (ast.Add, ast.Sub)):
                k = 1 if isinstance(e.op, ast.Add) else -1
                out = []
                for a1, l1 in lin(e.left, env):
                    for a2, l2 in lin(e.right, env):
                        out.append((a1 | a2, l1.add(l2, k)))
                return out
            if isinstance(e, ast.Call) and isinstance(e.func, ast.Name) and e.func.id == "len" and len(e.args) == 1:
                a = strip_cast(e.args[0])
                if isinstance(a, ast.Attribute) and norm(a.value) == "self":
                    return [(frozenset(), Lin.atom(("len", a.attr.lstrip("_"))))]
                if isinstance(a, ast.Subscript) and isinstance(a.value, ast.Attribute) and norm(a.value.value) == "self" and isinstance(a.slice, ast.Constant) and a.slice.value == 0:
                    return [(frozenset(), Lin.atom(("first", a.value.attr.lstrip("_"))))]
                if isinstance(a, ast.Name) and ("itemvar", a.id) in env:
                    return [(frozenset(), Lin.atom(("lenitem", a.id)))]
            if isinstance(e, ast.Attribute) and norm(e.value) == "self":
                o2, f2 = self.repo.lookup_method(ci, e.attr, "getter")
                if f2 is not None:
                    return self.prop_lin(ci, e.attr, depth + 1)
            raise AnalysisError(f"{ci.name}.{prop}: length expression not modelled: {norm(e)}")

        def run(stmts, env, assume):
            for i, st in enumerate(stmts):
                if isinstance(st, ast.Return):
                    for a, l in lin(st.value, env):
                        results.append((assume | a, l))
                    return False
                if isinstance(st, (ast.Assign, ast.AnnAssign)):
                    tgt = st.targets[0] if isinstance(st, ast.Assign) else st.target
                    if not isinstance(tgt, ast.Name):
                        raise AnalysisError(f"{ci.name}.{prop}: assignment target not modelled")
                    env = dict(env)
                    env[tgt.id] = lin(st.value, env)
                    continue
                if isinstance(st, ast.For):
                    it = strip_cast(st.iter)
                    if not (isinstance(st.target, ast.Name) and isinstance(it, ast.Attribute) and norm(it.value) == "self" and len(st.body) == 1 and isinstance(st.body[0], ast.AugAssign) and isinstance(st.body[0].op, ast.Add) and isinstance(st.body[0].target, ast.Name)):
                        raise AnalysisError(f"{ci.name}.{prop}: loop shape not modelled")
                    coll = it.attr.lstrip("_")
                    env2 = dict(env)
                    env2[("itemvar", st.target.id)] = True
                    per = lin(st.body[0].value, env2)
                    if len(per) != 1 or per[0][0]:
                        raise AnalysisError(f"{ci.name}.{prop}: conditional per-item length")
                    pl = per[0][1]
                    tot = Lin()
                    for a, c in pl.items():
                        if a == "const":
                            tot = tot.add(Lin.atom(("count", coll)), c)
                        elif a == ("lenitem", st.target.id):
                            tot = tot.add(Lin.atom(("sum", coll)), c)
                        else:
                            raise AnalysisError(f"{ci.name}.{prop}: per-item term {a}")
                    acc = st.body[0].target.id
                    env = dict(env)
                    env[acc] = [(a, l.add(tot)) for a, l in env[acc]]
                    continue
                if isinstance(st, ast.If):
                    t = strip_cast(st.test)
                    if not (isinstance(t, ast.Attribute) and norm(t.value) == "self"):
                        raise AnalysisError(f"{ci.name}.{prop}: condition not modelled: {norm(st.test)}")
                    name = t.attr.lstrip("_")
                    cont_t = run(st.body, env, assume | {(name, True)})
                    cont_f = run(st.orelse, env, assume | {(name, False)}) if st.orelse else True
                    rest = stmts[i + 1:]
                    if cont_t:
                        run(rest, env, assume | {(name, True)})
                    if cont_f:
                        run(rest, env, assume | {(name, False)})
                    return False
                raise AnalysisError(f"{ci.name}.{prop}: statement {type(st).__name__} not modelled")
            return True

        run(body_nodoc(fn), {}, frozenset())
        if not results:
            raise AnalysisError(f"{ci.name}.{prop}: no return")
        return results

    def header_len(self, ci: ClassInfo) -> int:
        owner, fn = self.repo.lookup_method(ci, "__len__", "method")
        if fn is None:
            raise AnalysisError(f"{ci.name}: no __len__")
        body = body_nodoc(fn)
        if len(body) == 1 and isinstance(body[0], ast.Return) and isinstance(body[0].value, ast.BinOp) and isinstance(body[0].value.op, ast.Add):
            l, r = body[0].value.left, body[0].value.right
            if isinstance(l, ast.Constant) and norm(r) in ("self.pdu_length", "self.item_length"):
                return l.value
        raise AnalysisError(f"{ci.name}.__len__: shape not modelled")

    # -- decoders --------------------------------------------------------------------
    def decoder_rows(self, ci: ClassInfo):
        """-> list of (offset Lin over ('priv', name), length: int|None|Lin, attr, func dotted, args, node)"""
        fn = ci.getters["_decoders"]
        body = body_nodoc(fn)
        rows = []
        env: dict[str, Lin] = {}

        def off(e) -> Lin:
            e = strip_cast(e)
            if isinstance(e, ast.Constant) and isinstance(e.value, int):
                return Lin.const(e.value)
            if isinstance(e, ast.Name) and e.id in env:
                return env[e.id]
            if isinstance(e, ast.Attribute) and norm(e.value) == "self":
                return Lin.atom(("priv", e.attr))
            if isinstance(e, ast.BinOp) and isinstance(e.op, (ast.Add, ast.Sub)):
                return off(e.left).add(off(e.right), 1 if isinstance(e.op, ast.Add) else -1)
            raise AnalysisError(f"{ci.name}._decoders: offset expression not modelled: {norm(e)}")

        def row(t):
            if not (isinstance(t, ast.Tuple) and len(t.elts) == 4 and isinstance(t.elts[0], ast.Tuple) and len(t.elts[0].elts) == 2 and isinstance(t.elts[1], ast.Constant)):
                raise AnalysisError(f"{ci.name}._decoders: row shape at line {t.lineno}")
            o, ln = t.elts[0].elts
            if isinstance(ln, ast.Constant) and ln.value is None:
                length = None
            else:
                l = off(ln)
                length = l.get("const", 0) if set(l) <= {"const"} else l
            args = [dotted(a) or norm(a) for a in t.elts[3].elts] if isinstance(t.elts[3], ast.List) else None
            rows.append((off(o), length, t.elts[1].value, dotted(t.elts[2]) or norm(t.elts[2]), args, t))

        if len(body) == 1 and isinstance(body[0], ast.Return) and isinstance(body[0].value, ast.List):
            for el in body[0].value.elts:
                row(el)
            return rows
        for st in body:
            if isinstance(st, ast.Expr) and isinstance(st.value, ast.Yield):
                row(st.value.value)
            elif isinstance(st, ast.Assign) and isinstance(st.targets[0], ast.Name):
                env[st.targets[0].id] = off(st.value)
            else:
                raise AnalysisError(f"{ci.name}._decoders: statement not modelled at line {st.lineno}")
        return rows
