"""Abstract interpretation of the Timer class as a state machine.

Fields hold None or a linear form over symbolic atoms (clock reads `now<k>`, the constructor /
setter arguments `T<k>`).  Every mutator (start, stop, restart, timeout setter) is executed
path by path on that abstract state; `expired` is evaluated into a constant or a predicate
`Lin < 0` / `Lin <= 0`.  All operation sequences up to a bound are explored and `expired` is
compared with the reference semantics after each.  Whatever the interpreter cannot reduce is
UNKNOWN, which the rule reports as not analysable (never as a pass)."""

from __future__ import annotations

import ast
import itertools

from .loader import AnalysisError, body_nodoc, dotted, norm, strip_cast


class ZeroableTruth(Exception):
    """a duration (difference of two clock readings, 0.0 when they coincide - a coarse clock tick) used as a condition"""


class Unknown(Exception):
    pass


class Lin(dict):
    @staticmethod
    def atom(a, k=1):
        l = Lin()
        l[a] = k
        return l

    def add(self, o, k=1):
        r = Lin(self)
        for a, c in o.items():
            r[a] = r.get(a, 0) + k * c
            if r[a] == 0:
                del r[a]
        return r

    def show(self):
        if not self:
            return "0"
        return " ".join(f"{'+' if c > 0 else '-'}{'' if abs(c) == 1 else abs(c)}{a}" for a, c in sorted(self.items()))


NONE = ("none",)


def is_lin(v):
    return isinstance(v, Lin)


class Pred:
    """Lin < 0 (strict) or Lin <= 0"""

    def __init__(self, lin: Lin, strict: bool):
        self.lin, self.strict = lin, strict

    def __eq__(self, o):
        return isinstance(o, Pred) and dict(self.lin) == dict(o.lin) and self.strict == o.strict

    def neg(self):
        return Pred(Lin().add(self.lin, -1), not self.strict)

    def show(self):
        return f"{self.lin.show()} {'<' if self.strict else '<='} 0"


class _Return(Exception):
    def __init__(self, v):
        self.v = v


class TimerMachine:
    def __init__(self, ci, clock_kind, mod):
        self.ci = ci
        self.clock_kind = clock_kind
        self.mod = mod
        self.clock_atom = "now?"
        self.depth = 0

    # -- expressions --------------------------------------------------------------
    def ev(self, e: ast.AST, st: dict, loc: dict):
        e = strip_cast(e)
        if isinstance(e, ast.Constant):
            if e.value is None:
                return NONE
            if isinstance(e.value, bool):
                return e.value
            if isinstance(e.value, (int, float)):
                return Lin.atom("1", e.value) if e.value else Lin()
            raise Unknown(f"constant {e.value!r}")
        if isinstance(e, ast.Name):
            if e.id in loc:
                return loc[e.id]
            raise Unknown(f"name {e.id}")
        if isinstance(e, ast.Attribute) and isinstance(e.value, ast.Name) and e.value.id == "self":
            if e.attr in st:
                return st[e.attr]
            g = self.ci.getters.get(e.attr)
            if g is not None:
                return self.call(g, st, {})
            raise Unknown(f"self.{e.attr}")
        if isinstance(e, ast.Call):
            if self.clock_kind(e, self.mod) is not None:
                return Lin.atom(self.clock_atom)
            if isinstance(e.func, ast.Attribute) and isinstance(e.func.value, ast.Name) and e.func.value.id == "self" and e.func.attr in self.ci.methods:
                fn = self.ci.methods[e.func.attr]
                params = [a.arg for a in fn.args.args][1:]
                if len(e.args) != len(params) or e.keywords:
                    raise Unknown(f"call {norm(e)}")
                return self.call(fn, st, {p: self.ev(a, st, loc) for p, a in zip(params, e.args)})
            if dotted(e.func) in ("float", "int") and len(e.args) == 1:
                return self.ev(e.args[0], st, loc)
            raise Unknown(f"call {norm(e)[:40]}")
        if isinstance(e, ast.BinOp) and isinstance(e.op, (ast.Add, ast.Sub)):
            l, r = self.ev(e.left, st, loc), self.ev(e.right, st, loc)
            if not (is_lin(l) and is_lin(r)):
                raise Unknown(f"arithmetic on {norm(e)[:40]}")
            return l.add(r, 1 if isinstance(e.op, ast.Add) else -1)
        if isinstance(e, ast.UnaryOp) and isinstance(e.op, ast.USub):
            v = self.ev(e.operand, st, loc)
            if not is_lin(v):
                raise Unknown("negation")
            return Lin().add(v, -1)
        if isinstance(e, ast.UnaryOp) and isinstance(e.op, ast.Not):
            v = self.truth(self.ev(e.operand, st, loc))
            if isinstance(v, bool):
                return not v
            if isinstance(v, Pred):
                return v.neg()
            raise Unknown("not")
        if isinstance(e, ast.Compare) and len(e.ops) == 1:
            op = e.ops[0]
            l, r = self.ev(e.left, st, loc), self.ev(e.comparators[0], st, loc)
            if isinstance(op, (ast.Is, ast.IsNot, ast.Eq, ast.NotEq)) and (l is NONE or r is NONE):
                same = (l is NONE) and (r is NONE)
                if not same and not (is_lin(l) or is_lin(r) or l is NONE or r is NONE):
                    raise Unknown("identity test")
                return same if isinstance(op, (ast.Is, ast.Eq)) else not same
            if is_lin(l) and is_lin(r):
                if isinstance(op, ast.Lt):
                    return Pred(l.add(r, -1), True)
                if isinstance(op, ast.LtE):
                    return Pred(l.add(r, -1), False)
                if isinstance(op, ast.Gt):
                    return Pred(r.add(l, -1), True)
                if isinstance(op, ast.GtE):
                    return Pred(r.add(l, -1), False)
            raise Unknown(f"comparison {norm(e)[:40]}")
        if isinstance(e, ast.BoolOp):
            vals = [self.ev(v, st, loc) for v in e.values[:1]]
            cur = vals[0]
            for nxt in e.values[1:]:
                t = self.truth(cur)
                if isinstance(e.op, ast.And):
                    if t is False:
                        return cur
                    if t is True:
                        cur = self.ev(nxt, st, loc)
                        continue
                else:
                    if t is True:
                        return cur
                    if t is False:
                        cur = self.ev(nxt, st, loc)
                        continue
                raise Unknown(f"boolean combination {norm(e)[:50]}")
            return cur
        if isinstance(e, ast.IfExp):
            t = self.truth(self.ev(e.test, st, loc))
            if t is True:
                return self.ev(e.body, st, loc)
            if t is False:
                return self.ev(e.orelse, st, loc)
            raise Unknown("conditional expression on a time-dependent test")
        raise Unknown(f"expression {type(e).__name__}: {norm(e)[:40]}")

    @staticmethod
    def truth(v):
        """True / False / Pred (time dependent) for a value used as a condition"""
        if isinstance(v, bool):
            return v
        if v is NONE:
            return False
        if isinstance(v, Pred):
            return v
        if is_lin(v):
            # a time stamp / duration: non-zero unless it is literally the constant 0
            if not v:
                return False
            clock = [c for a, c in v.items() if str(a).startswith("now")]
            if clock and sum(clock) == 0 and all(str(a).startswith("now") for a in v):
                raise ZeroableTruth(v.show())
            return True
        raise Unknown("truth value")

    # -- statements -------------------------------------------------------------------
    def call(self, fn: ast.FunctionDef, st: dict, args: dict):
        self.depth += 1
        if self.depth > 8:
            raise Unknown("recursion")
        try:
            loc = dict(args)
            try:
                self.block(body_nodoc(fn), st, loc)
            except _Return as r:
                return r.v
            return NONE
        finally:
            self.depth -= 1

    def block(self, stmts, st, loc):
        for s in stmts:
            if isinstance(s, (ast.Assign, ast.AnnAssign)):
                if s.value is None:
                    continue
                v = self.ev(s.value, st, loc)
                tgts = s.targets if isinstance(s, ast.Assign) else [s.target]
                for t in tgts:
                    if isinstance(t, ast.Attribute) and isinstance(t.value, ast.Name) and t.value.id == "self":
                        setter = self.ci.setters.get(t.attr)
                        if setter is not None and t.attr not in st:
                            self.call(setter, st, {setter.args.args[1].arg: v})
                        else:
                            st[t.attr] = v
                    elif isinstance(t, ast.Name):
                        loc[t.id] = v
                    else:
                        raise Unknown(f"assignment target {norm(t)}")
            elif isinstance(s, ast.AugAssign):
                cur = self.ev(s.target, st, loc)
                v = self.ev(s.value, st, loc)
                if not (is_lin(cur) and is_lin(v) and isinstance(s.op, (ast.Add, ast.Sub))):
                    raise Unknown("augmented assignment")
                nv = cur.add(v, 1 if isinstance(s.op, ast.Add) else -1)
                if isinstance(s.target, ast.Attribute):
                    st[s.target.attr] = nv
                else:
                    loc[s.target.id] = nv
            elif isinstance(s, ast.If):
                t = self.truth(self.ev(s.test, st, loc))
                if t is True:
                    self.block(s.body, st, loc)
                elif t is False:
                    self.block(s.orelse, st, loc)
                else:
                    raise Unknown(f"branch on a time-dependent condition: {norm(s.test)[:50]}")
            elif isinstance(s, ast.Return):
                raise _Return(self.ev(s.value, st, loc) if s.value is not None else NONE)
            elif isinstance(s, ast.Expr):
                v = s.value
                if isinstance(v, ast.Constant):
                    continue
                if isinstance(v, ast.Call) and (dotted(v.func) or "").startswith("LOGGER."):
                    continue
                self.ev(v, st, loc)
            elif isinstance(s, ast.Pass):
                continue
            elif isinstance(s, ast.Raise):
                raise Unknown("raise")
            else:
                raise Unknown(f"statement {type(s).__name__}")


def reference_expired(ref: dict, now: str):
    """the property: expired exactly when more than the timeout elapsed since the last start;
    once stopped the state at the stop is reported"""
    if ref["timeout"] is NONE or ref["start"] is NONE:
        return False
    end = ref["end"] if ref["end"] is not NONE else Lin.atom(now)
    # timeout - (end - start) < 0
    return Pred(ref["timeout"].add(end, -1).add(ref["start"], 1), True)


def show(v):
    if isinstance(v, Pred):
        return v.show()
    if v is NONE:
        return "None"
    if is_lin(v):
        return v.show()
    return repr(v)


def explore(ci, clock_kind, mod, depth: int = 3):
    """-> (checked, mismatches, unknowns); a mismatch is (sequence text, got, want)"""
    tm = TimerMachine(ci, clock_kind, mod)
    init = ci.methods["__init__"]
    iparams = [a.arg for a in init.args.args][1:]
    if len(iparams) != 1:
        raise AnalysisError(f"Timer.__init__ takes {iparams}: the model expects exactly the timeout")
    ops = ["start", "stop", "restart", "set-none", "set-value"]
    checked, mism, unknown = 0, [], []
    seen_unknown = set()
    for t0 in (NONE, Lin.atom("T0")):
        for n in range(0, depth + 1):
            for seq in itertools.product(ops, repeat=n):
                st: dict = {}
                ref = {"timeout": t0, "start": NONE, "end": NONE}
                text = [f"Timer({'None' if t0 is NONE else 'T0'})"]
                try:
                    tm.clock_atom = "now_init"
                    tm.call(init, st, {iparams[0]: t0})
                    for k, op in enumerate(seq):
                        tm.clock_atom = f"now{k}"
                        now = Lin.atom(f"now{k}")
                        if op in ("start", "restart"):
                            tm.call(ci.methods[op], st, {})
                            ref["start"], ref["end"] = now, NONE
                            text.append(f"{op}()@now{k}")
                        elif op == "stop":
                            tm.call(ci.methods["stop"], st, {})
                            ref["end"] = now
                            text.append(f"stop()@now{k}")
                        else:
                            v = NONE if op == "set-none" else Lin.atom(f"T{k + 1}")
                            setter = ci.setters["timeout"]
                            tm.call(setter, st, {setter.args.args[1].arg: v})
                            ref["timeout"] = v
                            text.append(f"timeout = {'None' if v is NONE else f'T{k + 1}'}")
                    tm.clock_atom = "now"
                    got = tm.call(ci.getters["expired"], dict(st), {})
                    want = reference_expired(ref, "now")
                    checked += 1
                    # stop() before start(): the property speaks of timers "since they were last
                    # started"; a never-started timer is not expired whatever was stopped
                    if got != want and not (isinstance(got, bool) and isinstance(want, bool) and got == want):
                        mism.append(("; ".join(text) + "; expired@now", show(got), show(want)))
                except ZeroableTruth as z:
                    checked += 1
                    if not any(m_[1].startswith("a duration") and str(z) in m_[1] for m_ in mism):
                        mism.append(("; ".join(text) + "; expired@now", f"a duration ({z}) is tested for truth: it is 0.0 - falsy - when the two clock readings coincide (one tick of a coarse clock), and the timer then behaves as if the operation that recorded it had not happened", "a decision that does not depend on two readings being different"))
                except Unknown as u:
                    key = str(u)
                    if key not in seen_unknown:
                        seen_unknown.add(key)
                        unknown.append(("; ".join(text), key))
    return checked, mism, unknown
