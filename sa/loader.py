"""Parse the repository under analysis; nothing here imports or runs it."""

from __future__ import annotations

import ast
import hashlib
import os
import re
from pathlib import Path


class AnalysisError(Exception):
    """An anchor vanished / a shape was not recognised: exit 2, never a verdict."""


def repo_root() -> Path:
    return Path(os.environ.get("VERIF_REPO", "/repo"))


def norm(node_or_text) -> str:
    """Normalised statement text used in finding keys (line-number free)."""
    if isinstance(node_or_text, ast.AST):
        try:
            text = ast.unparse(node_or_text)
        except Exception:  # pragma: no cover
            text = ast.dump(node_or_text)
    else:
        text = str(node_or_text)
    text = re.sub(r"\s+", " ", text).strip()
    return text[:200]


def head(node: ast.AST) -> str:
    """First line of a compound statement, normalised."""
    if isinstance(node, (ast.If, ast.While)):
        kw = "if" if isinstance(node, ast.If) else "while"
        return norm(f"{kw} {ast.unparse(node.test)}:")
    if isinstance(node, ast.For):
        return norm(f"for {ast.unparse(node.target)} in {ast.unparse(node.iter)}:")
    if isinstance(node, ast.With):
        return norm("with " + ", ".join(ast.unparse(i) for i in node.items) + ":")
    if isinstance(node, ast.Try):
        return "try:"
    if isinstance(node, ast.ExceptHandler):
        t = ast.unparse(node.type) if node.type else ""
        return norm(f"except {t}:")
    if isinstance(node, (ast.FunctionDef, ast.ClassDef)):
        return norm(f"def {node.name}")
    return norm(node)


class ClassInfo:
    def __init__(self, mod: "Module", node: ast.ClassDef):
        self.mod = mod
        self.node = node
        self.name = node.name
        self.bases = [ast.unparse(b) for b in node.bases]
        self.methods: dict[str, ast.FunctionDef] = {}
        self.getters: dict[str, ast.FunctionDef] = {}
        self.setters: dict[str, ast.FunctionDef] = {}
        self.assigns: dict[str, ast.AST] = {}
        for st in node.body:
            if isinstance(st, ast.FunctionDef):
                decos = [ast.unparse(d) for d in st.decorator_list]
                if "property" in decos:
                    self.getters[st.name] = st
                elif any(d.endswith(".setter") for d in decos):
                    self.setters[st.name] = st
                else:
                    self.methods[st.name] = st
            elif isinstance(st, ast.Assign) and len(st.targets) == 1:
                if isinstance(st.targets[0], ast.Name):
                    self.assigns[st.targets[0].id] = st.value
            elif isinstance(st, ast.AnnAssign) and isinstance(st.target, ast.Name):
                if st.value is not None:
                    self.assigns[st.target.id] = st.value

    def any_func(self, name: str) -> ast.FunctionDef | None:
        return self.methods.get(name) or self.getters.get(name)


class Module:
    def __init__(self, name: str, path: Path, root: Path):
        self.name = name
        self.path = path
        self.rel = str(path.relative_to(root))
        self.src = path.read_text(encoding="utf-8")
        self.sha = hashlib.sha256(self.src.encode()).hexdigest()
        self.tree = ast.parse(self.src, filename=str(path))
        # one spelling for negated conditionals (see sa/canon.py)
        from .canon import canonicalise

        self.canon = canonicalise(self.tree)
        # undo pure renames of locals (see sa/alpha.py): verdicts are computed on an alpha-equivalent program
        from .alpha import normalise

        self.alpha_renamed = normalise(name, self.tree, self.sha)
        self.funcs: dict[str, ast.FunctionDef] = {}
        self.classes: dict[str, ClassInfo] = {}
        self.assigns: dict[str, list[ast.AST]] = {}
        self.assign_stmts: dict[str, list[ast.stmt]] = {}
        self.imports: dict[str, tuple[str, str | None]] = {}
        self.updates: list[tuple[str, ast.AST]] = []  # NAME.update(expr)
        self._index(self.tree.body)
        for n in ast.walk(self.tree):
            for c in ast.iter_child_nodes(n):
                c._parent = n  # type: ignore[attr-defined]

    def _index(self, body):
        for st in body:
            if isinstance(st, ast.FunctionDef):
                self.funcs[st.name] = st
            elif isinstance(st, ast.ClassDef):
                self.classes[st.name] = ClassInfo(self, st)
            elif isinstance(st, ast.Assign):
                for t in st.targets:
                    if isinstance(t, ast.Name):
                        self.assigns.setdefault(t.id, []).append(st.value)
                        self.assign_stmts.setdefault(t.id, []).append(st)
            elif isinstance(st, ast.AnnAssign) and isinstance(st.target, ast.Name):
                if st.value is not None:
                    self.assigns.setdefault(st.target.id, []).append(st.value)
                    self.assign_stmts.setdefault(st.target.id, []).append(st)
            elif isinstance(st, ast.ImportFrom):
                for a in st.names:
                    self.imports[a.asname or a.name] = (st.module or "", a.name)
            elif isinstance(st, ast.Import):
                for a in st.names:
                    self.imports[a.asname or a.name.split(".")[0]] = (a.name, None)
            elif isinstance(st, ast.If):
                # `if TYPE_CHECKING:` imports and conditional defs
                self._index(st.body)
                self._index(st.orelse)
            elif isinstance(st, ast.Try):
                self._index(st.body)
            elif (
                isinstance(st, ast.Expr)
                and isinstance(st.value, ast.Call)
                and isinstance(st.value.func, ast.Attribute)
                and st.value.func.attr == "update"
                and isinstance(st.value.func.value, ast.Name)
                and len(st.value.args) == 1
            ):
                self.updates.append((st.value.func.value.id, st.value.args[0]))

    def loc(self, node: ast.AST) -> str:
        return f"{self.rel}:{getattr(node, 'lineno', 0)}"

    def seg(self, node: ast.AST) -> str:
        return ast.get_source_segment(self.src, node) or ""


class Repo:
    """All non-test modules of the pynetdicom package."""

    def __init__(self, root: Path | None = None):
        self.root = Path(root) if root else repo_root()
        pkg = self.root / "pynetdicom"
        if not pkg.is_dir():
            raise AnalysisError(f"package directory missing: {pkg}")
        self.modules: dict[str, Module] = {}
        for p in sorted(pkg.rglob("*.py")):
            rel = p.relative_to(self.root)
            parts = rel.with_suffix("").parts
            if "tests" in parts or "benchmarks" in parts:
                continue
            name = ".".join(parts)
            if name.endswith(".__init__"):
                name = name[: -len(".__init__")]
            try:
                self.modules[name] = Module(name, p, self.root)
            except SyntaxError as exc:
                raise AnalysisError(f"cannot parse {rel}: {exc}")
        self.consulted: set[str] = set()

    # -- lookup helpers -------------------------------------------------
    def mod(self, name: str) -> Module:
        if not name.startswith("pynetdicom"):
            name = "pynetdicom." + name
        m = self.modules.get(name)
        if m is None:
            raise AnalysisError(f"module vanished: {name}")
        self.consulted.add(name)
        return m

    def func(self, mod: str, qual: str) -> ast.FunctionDef:
        """`qual` is `name` or `Class.name` (methods, then property getters)."""
        m = self.mod(mod)
        if "." in qual:
            cn, fn = qual.split(".", 1)
            ci = m.classes.get(cn)
            if ci is None:
                raise AnalysisError(f"class vanished: {m.name}.{cn}")
            kind = None
            if fn.endswith(":setter"):
                fn, kind = fn[:-7], "setter"
            f = ci.setters.get(fn) if kind == "setter" else ci.any_func(fn)
            if f is None:
                raise AnalysisError(f"method vanished: {m.name}.{qual}")
            return f
        f = m.funcs.get(qual)
        if f is None:
            raise AnalysisError(f"function vanished: {m.name}.{qual}")
        return f

    def cls(self, mod: str, name: str) -> ClassInfo:
        m = self.mod(mod)
        ci = m.classes.get(name)
        if ci is None:
            raise AnalysisError(f"class vanished: {m.name}.{name}")
        return ci

    def find_class(self, name: str) -> ClassInfo | None:
        for m in self.modules.values():
            if name in m.classes:
                return m.classes[name]
        return None

    def mro(self, ci: ClassInfo) -> list[ClassInfo]:
        """Linearised bases inside the package (single inheritance is all the repo uses
        for the classes we consult; multiple bases are walked left to right)."""
        out, seen, todo = [], set(), [ci]
        while todo:
            c = todo.pop(0)
            if c.name in seen:
                continue
            seen.add(c.name)
            out.append(c)
            for b in c.bases:
                b = b.split(".")[-1]
                bc = c.mod.classes.get(b)
                if bc is None and b in c.mod.imports:
                    src, attr = c.mod.imports[b]
                    sm = self.modules.get(src)
                    if sm and attr in sm.classes:
                        bc = sm.classes[attr]
                if bc is None:
                    bc = self.find_class(b)
                if bc is not None:
                    todo.append(bc)
        return out

    def lookup_method(self, ci: ClassInfo, name: str, kind: str = "any"):
        for c in self.mro(ci):
            if kind in ("any", "method") and name in c.methods:
                return c, c.methods[name]
            if kind in ("any", "getter") and name in c.getters:
                return c, c.getters[name]
            if kind == "setter" and name in c.setters:
                return c, c.setters[name]
        return None, None

    def digest(self) -> str:
        h = hashlib.sha256()
        for n in sorted(self.consulted):
            h.update(n.encode())
            h.update(self.modules[n].sha.encode())
        return h.hexdigest()[:16]


# -- small AST helpers -------------------------------------------------------


def body_nodoc(fn: ast.FunctionDef) -> list[ast.stmt]:
    b = fn.body
    if (
        b
        and isinstance(b[0], ast.Expr)
        and isinstance(b[0].value, ast.Constant)
        and isinstance(b[0].value.value, str)
    ):
        return b[1:]
    return b


def dotted(node: ast.AST) -> str | None:
    """`a.b.c` for Name/Attribute chains (through cast(...) wrappers), else None."""
    node = strip_cast(node)
    if isinstance(node, ast.Name):
        return node.id
    if isinstance(node, ast.Attribute):
        base = dotted(node.value)
        return f"{base}.{node.attr}" if base else None
    return None


def strip_cast(node: ast.AST) -> ast.AST:
    """cast(T, x) -> x ; int(x)/bool(x) are NOT stripped here."""
    while (
        isinstance(node, ast.Call)
        and isinstance(node.func, ast.Name)
        and node.func.id == "cast"
        and len(node.args) == 2
    ):
        node = node.args[1]
    return node


def call_name(node: ast.AST) -> str | None:
    if isinstance(node, ast.Call):
        return dotted(node.func)
    return None


def calls_in(node: ast.AST):
    for n in ast.walk(node):
        if isinstance(n, ast.Call):
            yield n


def walk_no_nested(node: ast.AST):
    """ast.walk that does not descend into nested function/class/lambda bodies."""
    todo = [node]
    first = True
    while todo:
        n = todo.pop()
        if not first and isinstance(
            n, (ast.FunctionDef, ast.AsyncFunctionDef, ast.ClassDef, ast.Lambda)
        ):
            continue
        first = False
        yield n
        todo.extend(ast.iter_child_nodes(n))


def parent(node: ast.AST):
    return getattr(node, "_parent", None)


def enclosing(node: ast.AST, types) -> ast.AST | None:
    p = parent(node)
    while p is not None and not isinstance(p, types):
        p = parent(p)
    return p


def enclosing_func(node: ast.AST) -> ast.FunctionDef | None:
    return enclosing(node, (ast.FunctionDef,))  # type: ignore[return-value]


def qualname(node: ast.AST) -> str:
    names = []
    p = node
    while p is not None:
        if isinstance(p, (ast.FunctionDef, ast.ClassDef)):
            names.append(p.name)
        p = parent(p)
    return ".".join(reversed(names))


def stmt_of(node: ast.AST) -> ast.stmt | None:
    p = node
    while p is not None and not isinstance(p, ast.stmt):
        p = parent(p)
    return p  # type: ignore[return-value]


def oriented(i: ast.If, want: str):
    """(branch taken when `want` holds, other branch) for an If whose test is `want` or its canonical
    negation (sa/canon.py flips `x is not None` / `x != y` / `x not in y` / `not x` tests that have an else);
    None when the test is neither."""
    t = norm(i.test)
    orelse = i.orelse
    if not orelse and i.body and _leaves(i.body):
        # guard-clause spelling (the canon pass turns `if c: <exit> else: B` into it): the other branch is
        # what follows the `if` in its block
        orelse = _tail_after(i)
    if t == want:
        return i.body, orelse
    neg = {" is not ": " is ", " != ": " == ", " not in ": " in "}
    pos = {v: k for k, v in neg.items()}
    cands = set()
    for a, b in list(neg.items()) + list(pos.items()):
        if a in want:
            cands.add(want.replace(a, b, 1))
    if want.startswith("not "):
        cands.add(want[4:])
    else:
        cands.add("not " + want)
    if t in cands:
        return orelse, i.body
    return None


def _leaves(stmts) -> bool:
    s = stmts[-1]
    if isinstance(s, (ast.Return, ast.Raise, ast.Continue, ast.Break)):
        return True
    if isinstance(s, ast.If) and s.orelse:
        return _leaves(s.body) and _leaves(s.orelse)
    return False


def _tail_after(st: ast.stmt) -> list:
    p = parent(st)
    if p is None:
        return []
    blocks = [getattr(p, f, None) for f in ("body", "orelse", "finalbody")]
    if isinstance(p, ast.Try):
        blocks += [h.body for h in p.handlers]
    for b in blocks:
        if isinstance(b, list) and any(x is st for x in b):
            k = next(i_ for i_, x in enumerate(b) if x is st)
            return b[k + 1:]
    return []


def bind_args(call: ast.Call, fn: ast.FunctionDef, skip_self: bool = False) -> dict[str, ast.AST]:
    """parameter name -> argument expression for a call of `fn` (positional and keyword forms alike);
    parameters left to their default map to the default expression"""
    params = [a.arg for a in fn.args.args]
    if skip_self and params and params[0] in ("self", "cls"):
        params = params[1:]
    defaults = fn.args.defaults
    out: dict[str, ast.AST] = {}
    for p, d in zip(params[len(params) - len(defaults):], defaults):
        out[p] = d
    for p, a in zip(params, call.args):
        out[p] = a
    for k in call.keywords:
        if k.arg:
            out[k.arg] = k.value
    return out


def expand_aliases(ci, text: str) -> str:
    """`self.<p>` -> the attribute chain a trivial getter `<p>` of the class returns (`return self.a.b`), so that a
    convenience property (ACSE.ae = self.assoc.ae) reads like the chain it stands for"""
    if ci is None:
        return text
    for name, g in ci.getters.items():
        body = [x for x in g.body if not (isinstance(x, ast.Expr) and isinstance(x.value, ast.Constant))]
        if len(body) == 1 and isinstance(body[0], ast.Return) and isinstance(body[0].value, ast.Attribute):
            chain = norm(body[0].value)
            if chain.startswith("self.") and chain != f"self.{name}" and re.fullmatch(r"self(\.\w+)+", chain):
                text = re.sub(rf"\bself\.{name}\b(?!\w)", chain, text)
    return text
