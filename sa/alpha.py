"""Alpha-normalisation of local variable names against a reference skeleton.

Rules name some locals of the analysed functions (`rsp`, `store_results`, `bytes_read` ...).
A behaviour-preserving rename of such a local must not change a verdict.  For every function of
the package a reference record (spec/alpha_reference.json, generated from the tree the rules
were written against) holds the hash of the function's *alpha-normal form* - its syntax tree with
every local replaced by a placeholder numbered by first occurrence - and the reference names in
that order.  When a function of the tree under analysis has the same alpha-normal form (it is the
reference function up to renaming of locals) its locals are renamed back, in memory, to the
reference names before any rule runs.  A function that differs in any other way is left exactly as
it is.  Renaming locals consistently is semantics-preserving, so the verdict is computed on an
equivalent program; nothing is ever required to match the reference."""

from __future__ import annotations

import ast
import hashlib
import json
from pathlib import Path

REF = Path(__file__).resolve().parent.parent / "spec" / "alpha_reference.json"


def _ordered(node: ast.AST):
    """pre-order traversal in field (= source) order"""
    yield node
    for child in ast.iter_child_nodes(node):
        yield from _ordered(child)


def local_names(fn: ast.FunctionDef) -> set[str]:
    params: set[str] = set()
    glob: set[str] = set()
    imps: set[str] = set()
    stores: set[str] = set()
    for n in ast.walk(fn):
        if isinstance(n, (ast.FunctionDef, ast.AsyncFunctionDef, ast.Lambda)):
            a = n.args
            for x in a.args + a.kwonlyargs + a.posonlyargs:
                params.add(x.arg)
            if a.vararg:
                params.add(a.vararg.arg)
            if a.kwarg:
                params.add(a.kwarg.arg)
        elif isinstance(n, (ast.Global, ast.Nonlocal)):
            glob |= set(n.names)
        elif isinstance(n, (ast.Import, ast.ImportFrom)):
            for al in n.names:
                imps.add((al.asname or al.name).split(".")[0])
        elif isinstance(n, ast.Name) and isinstance(n.ctx, (ast.Store, ast.Del)):
            stores.add(n.id)
        elif isinstance(n, ast.ExceptHandler) and n.name:
            stores.add(n.name)
    return {s for s in stores if s not in params and s not in glob and s not in imps and not (s.startswith("__") and s.endswith("__"))}


def alpha(fn: ast.FunctionDef):
    """-> (sha256 of the alpha-normal form, local names in first-occurrence order)"""
    locs = local_names(fn)
    order: list[str] = []
    index: dict[str, int] = {}
    h = hashlib.sha256()

    def ph(name: str) -> str:
        if name not in index:
            index[name] = len(order)
            order.append(name)
        return f"_L{index[name]}"

    def emit(node):
        if isinstance(node, ast.AST):
            h.update(type(node).__name__.encode())
            h.update(b"(")
            for fld in node._fields:
                if fld in ("type_comment", "ctx", "type_params"):
                    continue
                v = getattr(node, fld, None)
                if isinstance(node, ast.Name) and fld == "id" and v in locs:
                    h.update(ph(v).encode())
                elif isinstance(node, ast.ExceptHandler) and fld == "name" and v in locs:
                    h.update(ph(v).encode())
                else:
                    emit(v)
                h.update(b",")
            h.update(b")")
        elif isinstance(node, list):
            h.update(b"[")
            for x in node:
                emit(x)
                h.update(b";")
            h.update(b"]")
        else:
            h.update(repr(node).encode())

    body = fn.body
    if body and isinstance(body[0], ast.Expr) and isinstance(body[0].value, ast.Constant) and isinstance(body[0].value.value, str):
        body = body[1:]
    h.update(fn.name.encode())
    emit(fn.args)
    emit(body)
    emit(fn.decorator_list)
    return h.hexdigest(), order


def functions_of(tree: ast.Module):
    """(qualified name, FunctionDef) for module-level functions and methods (outermost defs only)"""
    for st in tree.body:
        if isinstance(st, ast.FunctionDef):
            yield st.name, st
        elif isinstance(st, ast.ClassDef):
            seen: dict[str, int] = {}
            for m in st.body:
                if isinstance(m, ast.FunctionDef):
                    k = seen.get(m.name, 0)
                    seen[m.name] = k + 1
                    yield f"{st.name}.{m.name}" + (f"#{k}" if k else ""), m


_REF_CACHE = None


def reference() -> dict:
    global _REF_CACHE
    if _REF_CACHE is None:
        _REF_CACHE = json.loads(REF.read_text()) if REF.exists() else {}
        import sys

        # the hashes are over this interpreter's syntax tree: a reference written by another Python
        # version describes different trees, so it is not used (normalisation is an optimisation only)
        if _REF_CACHE.get("__python__", {}).get("version") != "%d.%d" % sys.version_info[:2]:
            _REF_CACHE = {}
    return _REF_CACHE


def normalise(modname: str, tree: ast.Module, src_sha: str | None = None) -> list[str]:
    """rename locals of alpha-equivalent functions back to the reference names; returns the list of
    functions that were renamed (for the evidence)"""
    ref = reference().get(modname)
    if not ref:
        return []
    if src_sha is not None and ref.get("__sha__") == src_sha:
        return []  # the module is byte-identical to the reference tree: nothing can have been renamed
    done = []
    for q, fn in functions_of(tree):
        r = ref.get(q)
        if not isinstance(r, dict):
            continue
        key, order = alpha(fn)
        if key != r["key"] and "ikey" in r:
            # not the reference function up to renaming: is it the reference up to single-use temporaries?
            if substitute_if_temp_equivalent(modname, q, fn, r):
                done.append(q + " (temporaries)")
            elif best_effort_rename(fn, r):
                done.append(q + " (partial rename)")
            continue
        if key != r["key"] or order == r["names"] or len(order) != len(r["names"]):
            continue
        # two-phase rename to avoid collisions between old and new names
        mapping = dict(zip(order, r["names"]))
        for n in ast.walk(fn):
            if isinstance(n, ast.Name) and n.id in mapping:
                n.id = "\0" + mapping[n.id]
            elif isinstance(n, ast.ExceptHandler) and n.name in mapping:
                n.name = "\0" + mapping[n.name]
        for n in ast.walk(fn):
            if isinstance(n, ast.Name) and n.id.startswith("\0"):
                n.id = n.id[1:]
            elif isinstance(n, ast.ExceptHandler) and n.name and n.name.startswith("\0"):
                n.name = n.name[1:]
        done.append(q)
    return done


def local_features(fn: ast.FunctionDef) -> list[tuple[str, str]]:
    """(local name, feature) in first-occurrence order; the feature is a short hash of the statement in
    which the local first occurs, printed with every local replaced by one placeholder - two versions of
    a function that differ in a few statements still agree on most features"""
    locs = local_names(fn)
    seen: dict[str, str] = {}

    class _Blank(ast.NodeTransformer):
        def visit_Name(self, n):
            return ast.copy_location(ast.Name(id="_", ctx=n.ctx), n) if n.id in locs else n

        def visit_ExceptHandler(self, n):
            self.generic_visit(n)
            if n.name in locs:
                n.name = "_"
            return n

    def header(st: ast.stmt) -> ast.AST:
        # compound statements: only the header (test / iter / items / handler types), not the body
        if isinstance(st, (ast.If, ast.While)):
            return st.test
        if isinstance(st, ast.For):
            return ast.Tuple(elts=[st.target, st.iter], ctx=ast.Load())
        if isinstance(st, ast.With):
            return ast.Tuple(elts=[x for i in st.items for x in ([i.context_expr] + ([i.optional_vars] if i.optional_vars is not None else []))], ctx=ast.Load())
        if isinstance(st, ast.Try):
            return ast.Constant(value="try")
        return st

    def visit_block(stmts):
        for st in stmts:
            hd = header(st)
            names = []
            for x in _ordered(hd):
                if isinstance(x, ast.Name) and x.id in locs and x.id not in seen and x.id not in names:
                    names.append(x.id)
            if names:
                import copy

                try:
                    txt = ast.unparse(_Blank().visit(ast.parse(ast.unparse(hd)).body[0]))
                except Exception:
                    txt = type(st).__name__
                for k, nm in enumerate(names):
                    seen[nm] = hashlib.sha1(f"{txt}#{k}".encode()).hexdigest()[:10]
            for fld in ("body", "orelse", "finalbody"):
                b = getattr(st, fld, None)
                if isinstance(b, list) and b and isinstance(b[0], ast.stmt) and not isinstance(st, (ast.FunctionDef, ast.AsyncFunctionDef, ast.ClassDef)):
                    visit_block(b)
            if isinstance(st, ast.Try):
                for h in st.handlers:
                    if h.name and h.name in locs and h.name not in seen:
                        seen[h.name] = hashlib.sha1(f"except {ast.unparse(h.type) if h.type else ''}".encode()).hexdigest()[:10]
                    visit_block(h.body)

    body = fn.body
    visit_block(body)
    order = alpha(fn)[1]
    return [(n, seen.get(n, "?")) for n in order]


def local_uses(fn: ast.FunctionDef) -> dict[str, list[str]]:
    """local name -> sorted short hashes of the (blanked) simple statements / compound headers it occurs in"""
    locs = local_names(fn)
    out: dict[str, set[str]] = {n: set() for n in locs}

    def blank(node: ast.AST, me: str) -> str:
        c = ast.parse(ast.unparse(node)).body[0]
        for x in ast.walk(c):
            if isinstance(x, ast.Name) and x.id in locs:
                x.id = "ME" if x.id == me else "_"
            elif isinstance(x, ast.ExceptHandler) and x.name in locs:
                x.name = "ME" if x.name == me else "_"
        return hashlib.sha1(ast.unparse(c).encode()).hexdigest()[:6]

    def headers(stmts):
        for st in stmts:
            if isinstance(st, (ast.FunctionDef, ast.AsyncFunctionDef, ast.ClassDef)):
                continue
            if isinstance(st, (ast.If, ast.While)):
                yield ast.Expr(value=st.test)
            elif isinstance(st, ast.For):
                yield ast.Expr(value=ast.Tuple(elts=[st.target, st.iter], ctx=ast.Load()))
            elif isinstance(st, ast.With):
                yield ast.Expr(value=ast.Tuple(elts=[x for i in st.items for x in ([i.context_expr] + ([i.optional_vars] if i.optional_vars is not None else []))], ctx=ast.Load()))
            elif isinstance(st, ast.Try):
                pass
            else:
                yield st
            for fld in ("body", "orelse", "finalbody"):
                b = getattr(st, fld, None)
                if isinstance(b, list) and b and isinstance(b[0], ast.stmt):
                    yield from headers(b)
            if isinstance(st, ast.Try):
                for h in st.handlers:
                    yield from headers(h.body)

    for hd in headers(fn.body):
        names = {x.id for x in ast.walk(hd) if isinstance(x, ast.Name) and x.id in locs}
        for nm in names:
            try:
                out[nm].add(blank(hd, nm))
            except Exception:
                pass
    return {k: sorted(v) for k, v in out.items()}


def best_effort_rename(fn: ast.FunctionDef, r: dict) -> int:
    """The function is not the reference function (something in it changed). Renaming locals
    consistently and injectively is semantics-preserving whatever the names are, so the locals whose
    first-occurrence statement still looks like the reference's are renamed back to the reference
    names (sequence alignment of the per-local features); the rest keep their names. Returns the number
    of locals renamed."""
    feats = r.get("feat")
    if not feats:
        return 0
    import difflib

    cur = local_features(fn)
    a = [f for _, f in cur]
    b = list(feats)
    mapping: dict[str, str] = {}
    for blk in difflib.SequenceMatcher(None, a, b, autojunk=False).get_matching_blocks():
        for k in range(blk.size):
            old, new = cur[blk.a + k][0], r["names"][blk.b + k]
            if a[blk.a + k] != "?":
                mapping[old] = new
    # second pass, for the locals whose first statement changed: pair what is left by how the local is
    # *used* (Jaccard similarity of the blanked statements it occurs in), best pairs first
    uses_ref = r.get("uses") or {}
    if uses_ref:
        uses_cur = local_uses(fn)
        left_a = [n for n, _ in cur if n not in mapping]
        left_b = [n for n in r["names"] if n not in mapping.values()]
        cand = []
        for x in left_a:
            ua = set(uses_cur.get(x, ()))
            for y in left_b:
                ub = set(uses_ref.get(y, ()))
                if ua and ub:
                    j = len(ua & ub) / len(ua | ub)
                    if j >= 0.25:
                        cand.append((j, x, y))
        for j, x, y in sorted(cand, key=lambda c: (-c[0], c[1], c[2])):
            if x not in mapping and y not in mapping.values():
                mapping[x] = y
    mapping = {o: n for o, n in mapping.items() if o != n}
    if not mapping:
        return 0
    # injective, and no capture: a target name must not be a name the function already uses for something else
    used = {n.id for n in ast.walk(fn) if isinstance(n, ast.Name)} | {a_.arg for x in ast.walk(fn) if isinstance(x, ast.arguments) for a_ in x.args + x.kwonlyargs + x.posonlyargs}
    keep = {}
    targets = set()
    for o, n in mapping.items():
        if n in targets or (n in used and n not in mapping):
            continue
        keep[o] = n
        targets.add(n)
    # a target that is itself a source being renamed away is fine only if that rename is kept too
    keep = {o: n for o, n in keep.items() if n not in used or (n in keep)}
    if not keep:
        return 0
    for n in ast.walk(fn):
        if isinstance(n, ast.Name) and n.id in keep:
            n.id = "\0" + keep[n.id]
        elif isinstance(n, ast.ExceptHandler) and n.name in keep:
            n.name = "\0" + keep[n.name]
    for n in ast.walk(fn):
        if isinstance(n, ast.Name) and n.id.startswith("\0"):
            n.id = n.id[1:]
        elif isinstance(n, ast.ExceptHandler) and n.name and n.name.startswith("\0"):
            n.name = n.name[1:]
    return len(keep)


SRC = REF.with_name("func_reference.json.gz")
_SRC_CACHE = None


def _sources() -> dict:
    global _SRC_CACHE
    if _SRC_CACHE is None:
        import gzip

        _SRC_CACHE = json.loads(gzip.decompress(SRC.read_bytes()).decode()) if SRC.exists() else {}
    return _SRC_CACHE


def inlined_key(fn: ast.FunctionDef) -> str:
    """alpha key of a copy of `fn` with every safe single-use temporary inlined (inline.py)"""
    from .inline import inline_temps

    # a fresh copy by print + parse (deepcopy would follow the parent links the canon pass leaves on nodes)
    c = ast.parse(ast.unparse(fn)).body[0]
    inline_temps(c, local_names(c))
    return alpha(c)[0]


def substitute_if_temp_equivalent(modname: str, q: str, fn: ast.FunctionDef, r: dict) -> bool:
    """If `fn` with its safe temporaries inlined is alpha-equal to the reference function with *its*
    safe temporaries inlined, the two are the same program up to introduce/inline-local refactors and
    renaming: give the rules the reference spelling (same def line; statements keep the reference's
    relative line numbers) so that their verdict does not depend on where a maintainer put a local.
    Anything else leaves `fn` untouched."""
    if inlined_key(fn) != r["ikey"]:
        return False
    src = _sources().get(modname, {}).get(q)
    if src is None:
        return False
    try:
        new = ast.parse(src).body[0]
    except SyntaxError:
        return False
    if not isinstance(new, ast.FunctionDef):
        return False
    from .canon import canonicalise

    wrapper = ast.Module(body=[new], type_ignores=[])
    canonicalise(wrapper)
    if alpha(new)[0] != r["key"]:
        return False  # the stored text is not the function the record describes: do nothing
    ast.increment_lineno(new, fn.lineno - new.lineno)
    doc = fn.body[:1] if fn.body and isinstance(fn.body[0], ast.Expr) and isinstance(fn.body[0].value, ast.Constant) and isinstance(fn.body[0].value.value, str) else []
    fn.args, fn.body, fn.decorator_list, fn.returns = new.args, doc + new.body, new.decorator_list, new.returns
    return True
