"""Alpha-normalisation of local variable names against a reference skeleton.

Rules name some locals of the analysed functions (`rsp`, `store_results`, `bytes_read` ...).
A behaviour-preserving rename of such a local must not change a verdict.  For every function of
the package a reference record (spec/alpha_reference.json, generated from the tree the rules
were written against) holds the hash of the function's *alpha-normal form* - its syntax tree with
every local replaced by a placeholder numbered by first occurrence - and the reference names in
that order.  When a function of the tree under analysis has the same alpha-normal form (it is the
reference function up to renaming of locals) its locals are renamed back, in memory, to the
reference names before any rule runs.  A function that differs in any other way is left exactly as
it is.  Renaming locals consistently is semantics-preserving, so the verdict is computed on an
equivalent program; nothing is ever required to match the reference."""

from __future__ import annotations

import ast
import hashlib
import json
from pathlib import Path

REF = Path(__file__).resolve().parent.parent / "spec" / "alpha_reference.json"


def _ordered(node: ast.AST):
    """pre-order traversal in field (= source) order"""
    yield node
    for child in ast.iter_child_nodes(node):
        yield from _ordered(child)


def local_names(fn: ast.FunctionDef) -> set[str]:
    params: set[str] = set()
    glob: set[str] = set()
    imps: set[str] = set()
    stores: set[str] = set()
    for n in ast.walk(fn):
        if isinstance(n, (ast.FunctionDef, ast.AsyncFunctionDef, ast.Lambda)):
            a = n.args
            for x in a.args + a.kwonlyargs + a.posonlyargs:
                params.add(x.arg)
            if a.vararg:
                params.add(a.vararg.arg)
            if a.kwarg:
                params.add(a.kwarg.arg)
        elif isinstance(n, (ast.Global, ast.Nonlocal)):
            glob |= set(n.names)
        elif isinstance(n, (ast.Import, ast.ImportFrom)):
            for al in n.names:
                imps.add((al.asname or al.name).split(".")[0])
        elif isinstance(n, ast.Name) and isinstance(n.ctx, (ast.Store, ast.Del)):
            stores.add(n.id)
        elif isinstance(n, ast.ExceptHandler) and n.name:
            stores.add(n.name)
    return {s for s in stores if s not in params and s not in glob and s not in imps and not (s.startswith("__") and s.endswith("__"))}


def alpha(fn: ast.FunctionDef):
    """-> (sha256 of the alpha-normal form, local names in first-occurrence order)"""
    locs = local_names(fn)
    order: list[str] = []
    index: dict[str, int] = {}
    h = hashlib.sha256()

    def ph(name: str) -> str:
        if name not in index:
            index[name] = len(order)
            order.append(name)
        return f"_L{index[name]}"

    def emit(node):
        if isinstance(node, ast.AST):
            h.update(type(node).__name__.encode())
            h.update(b"(")
            for fld in node._fields:
                if fld in ("type_comment", "ctx", "type_params"):
                    continue
                v = getattr(node, fld, None)
                if isinstance(node, ast.Name) and fld == "id" and v in locs:
                    h.update(ph(v).encode())
                elif isinstance(node, ast.ExceptHandler) and fld == "name" and v in locs:
                    h.update(ph(v).encode())
                else:
                    emit(v)
                h.update(b",")
            h.update(b")")
        elif isinstance(node, list):
            h.update(b"[")
            for x in node:
                emit(x)
                h.update(b";")
            h.update(b"]")
        else:
            h.update(repr(node).encode())

    body = fn.body
    if body and isinstance(body[0], ast.Expr) and isinstance(body[0].value, ast.Constant) and isinstance(body[0].value.value, str):
        body = body[1:]
    h.update(fn.name.encode())
    emit(fn.args)
    emit(body)
    emit(fn.decorator_list)
    return h.hexdigest(), order


def functions_of(tree: ast.Module):
    """(qualified name, FunctionDef) for module-level functions and methods (outermost defs only)"""
    for st in tree.body:
        if isinstance(st, ast.FunctionDef):
            yield st.name, st
        elif isinstance(st, ast.ClassDef):
            seen: dict[str, int] = {}
            for m in st.body:
                if isinstance(m, ast.FunctionDef):
                    k = seen.get(m.name, 0)
                    seen[m.name] = k + 1
                    yield f"{st.name}.{m.name}" + (f"#{k}" if k else ""), m


_REF_CACHE = None


def reference() -> dict:
    global _REF_CACHE
    if _REF_CACHE is None:
        _REF_CACHE = json.loads(REF.read_text()) if REF.exists() else {}
        import sys

        # the hashes are over this interpreter's syntax tree: a reference written by another Python
        # version describes different trees, so it is not used (normalisation is an optimisation only)
        if _REF_CACHE.get("__python__", {}).get("version") != "%d.%d" % sys.version_info[:2]:
            _REF_CACHE = {}
    return _REF_CACHE


def normalise(modname: str, tree: ast.Module, src_sha: str | None = None) -> list[str]:
    """rename locals of alpha-equivalent functions back to the reference names; returns the list of
    functions that were renamed (for the evidence)"""
    ref = reference().get(modname)
    if not ref:
        return []
    if src_sha is not None and ref.get("__sha__") == src_sha:
        return []  # the module is byte-identical to the reference tree: nothing can have been renamed
    done = []
    for q, fn in functions_of(tree):
        r = ref.get(q)
        if not isinstance(r, dict):
            continue
        key, order = alpha(fn)
        if key != r["key"] and "ikey" in r:
            # not the reference function up to renaming: is it the reference up to single-use temporaries?
            if substitute_if_temp_equivalent(modname, q, fn, r):
                done.append(q + " (temporaries)")
            continue
        if key != r["key"] or order == r["names"] or len(order) != len(r["names"]):
            continue
        # two-phase rename to avoid collisions between old and new names
        mapping = dict(zip(order, r["names"]))
        for n in ast.walk(fn):
            if isinstance(n, ast.Name) and n.id in mapping:
                n.id = "\0" + mapping[n.id]
            elif isinstance(n, ast.ExceptHandler) and n.name in mapping:
                n.name = "\0" + mapping[n.name]
        for n in ast.walk(fn):
            if isinstance(n, ast.Name) and n.id.startswith("\0"):
                n.id = n.id[1:]
            elif isinstance(n, ast.ExceptHandler) and n.name and n.name.startswith("\0"):
                n.name = n.name[1:]
        done.append(q)
    return done


SRC = REF.with_name("func_reference.json.gz")
_SRC_CACHE = None


def _sources() -> dict:
    global _SRC_CACHE
    if _SRC_CACHE is None:
        import gzip

        _SRC_CACHE = json.loads(gzip.decompress(SRC.read_bytes()).decode()) if SRC.exists() else {}
    return _SRC_CACHE


def inlined_key(fn: ast.FunctionDef) -> str:
    """alpha key of a copy of `fn` with every safe single-use temporary inlined (inline.py)"""
    from .inline import inline_temps

    # a fresh copy by print + parse (deepcopy would follow the parent links the canon pass leaves on nodes)
    c = ast.parse(ast.unparse(fn)).body[0]
    inline_temps(c, local_names(c))
    return alpha(c)[0]


def substitute_if_temp_equivalent(modname: str, q: str, fn: ast.FunctionDef, r: dict) -> bool:
    """If `fn` with its safe temporaries inlined is alpha-equal to the reference function with *its*
    safe temporaries inlined, the two are the same program up to introduce/inline-local refactors and
    renaming: give the rules the reference spelling (same def line; statements keep the reference's
    relative line numbers) so that their verdict does not depend on where a maintainer put a local.
    Anything else leaves `fn` untouched."""
    if inlined_key(fn) != r["ikey"]:
        return False
    src = _sources().get(modname, {}).get(q)
    if src is None:
        return False
    try:
        new = ast.parse(src).body[0]
    except SyntaxError:
        return False
    if not isinstance(new, ast.FunctionDef):
        return False
    from .canon import canonicalise

    wrapper = ast.Module(body=[new], type_ignores=[])
    canonicalise(wrapper)
    if alpha(new)[0] != r["key"]:
        return False  # the stored text is not the function the record describes: do nothing
    ast.increment_lineno(new, fn.lineno - new.lineno)
    doc = fn.body[:1] if fn.body and isinstance(fn.body[0], ast.Expr) and isinstance(fn.body[0].value, ast.Constant) and isinstance(fn.body[0].value.value, str) else []
    fn.args, fn.body, fn.decorator_list, fn.returns = new.args, doc + new.body, new.decorator_list, new.returns
    return True
