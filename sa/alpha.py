"""Alpha-normalisation of local variable names against a reference skeleton.

Rules name some locals of the analysed functions (`rsp`, `store_results`, `bytes_read` ...).
A behaviour-preserving rename of such a local must not change a verdict.  For every function of
the package a reference record (spec/alpha_reference.json, generated from the tree the rules
were written against) holds the hash of the function's *alpha-normal form* - its syntax tree with
every local replaced by a placeholder numbered by first occurrence - and the reference names in
that order.  When a function of the tree under analysis has the same alpha-normal form (it is the
reference function up to renaming of locals) its locals are renamed back, in memory, to the
reference names before any rule runs.  A function that differs in any other way is left exactly as
it is.  Renaming locals consistently is semantics-preserving, so the verdict is computed on an
equivalent program; nothing is ever required to match the reference."""

from __future__ import annotations

import ast
import hashlib
import json
from pathlib import Path

REF = Path(__file__).resolve().parent.parent / "spec" / "alpha_reference.json"


def _ordered(node: ast.AST):
    """pre-order traversal in field (= source) order"""
    yield node
    for child in ast.iter_child_nodes(node):
        yield from _ordered(child)


def local_names(fn: ast.FunctionDef) -> set[str]:
    params: set[str] = set()
    glob: set[str] = set()
    imps: set[str] = set()
    stores: set[str] = set()
    for n in ast.walk(fn):
        if isinstance(n, (ast.FunctionDef, ast.AsyncFunctionDef, ast.Lambda)):
            a = n.args
            for x in a.args + a.kwonlyargs + a.posonlyargs:
                params.add(x.arg)
            if a.vararg:
                params.add(a.vararg.arg)
            if a.kwarg:
                params.add(a.kwarg.arg)
        elif isinstance(n, (ast.Global, ast.Nonlocal)):
            glob |= set(n.names)
        elif isinstance(n, (ast.Import, ast.ImportFrom)):
            for al in n.names:
                imps.add((al.asname or al.name).split(".")[0])
        elif isinstance(n, ast.Name) and isinstance(n.ctx, (ast.Store, ast.Del)):
            stores.add(n.id)
        elif isinstance(n, ast.ExceptHandler) and n.name:
            stores.add(n.name)
    return {s for s in stores if s not in params and s not in glob and s not in imps and not (s.startswith("__") and s.endswith("__"))}


def alpha(fn: ast.FunctionDef):
    """-> (sha256 of the alpha-normal form, local names in first-occurrence order)"""
    locs = local_names(fn)
    order: list[str] = []
    index: dict[str, int] = {}
    h = hashlib.sha256()

    def ph(name: str) -> str:
        if name not in index:
            index[name] = len(order)
            order.append(name)
        return f"_L{index[name]}"

    def emit(node):
        if isinstance(node, ast.AST):
            h.update(type(node).__name__.encode())
            h.update(b"(")
            for fld in node._fields:
                if fld in ("type_comment", "ctx"):
                    continue
                v = getattr(node, fld, None)
                if isinstance(node, ast.Name) and fld == "id" and v in locs:
                    h.update(ph(v).encode())
                elif isinstance(node, ast.ExceptHandler) and fld == "name" and v in locs:
                    h.update(ph(v).encode())
                else:
                    emit(v)
                h.update(b",")
            h.update(b")")
        elif isinstance(node, list):
            h.update(b"[")
            for x in node:
                emit(x)
                h.update(b";")
            h.update(b"]")
        else:
            h.update(repr(node).encode())

    body = fn.body
    if body and isinstance(body[0], ast.Expr) and isinstance(body[0].value, ast.Constant) and isinstance(body[0].value.value, str):
        body = body[1:]
    h.update(fn.name.encode())
    emit(fn.args)
    emit(body)
    emit(fn.decorator_list)
    return h.hexdigest(), order


def functions_of(tree: ast.Module):
    """(qualified name, FunctionDef) for module-level functions and methods (outermost defs only)"""
    for st in tree.body:
        if isinstance(st, ast.FunctionDef):
            yield st.name, st
        elif isinstance(st, ast.ClassDef):
            seen: dict[str, int] = {}
            for m in st.body:
                if isinstance(m, ast.FunctionDef):
                    k = seen.get(m.name, 0)
                    seen[m.name] = k + 1
                    yield f"{st.name}.{m.name}" + (f"#{k}" if k else ""), m


_REF_CACHE = None


def reference() -> dict:
    global _REF_CACHE
    if _REF_CACHE is None:
        _REF_CACHE = json.loads(REF.read_text()) if REF.exists() else {}
    return _REF_CACHE


def normalise(modname: str, tree: ast.Module, src_sha: str | None = None) -> list[str]:
    """rename locals of alpha-equivalent functions back to the reference names; returns the list of
    functions that were renamed (for the evidence)"""
    ref = reference().get(modname)
    if not ref:
        return []
    if src_sha is not None and ref.get("__sha__") == src_sha:
        return []  # the module is byte-identical to the reference tree: nothing can have been renamed
    done = []
    for q, fn in functions_of(tree):
        r = ref.get(q)
        if not isinstance(r, dict):
            continue
        key, order = alpha(fn)
        if key != r["key"] or order == r["names"] or len(order) != len(r["names"]):
            continue
        # two-phase rename to avoid collisions between old and new names
        mapping = dict(zip(order, r["names"]))
        for n in ast.walk(fn):
            if isinstance(n, ast.Name) and n.id in mapping:
                n.id = "\0" + mapping[n.id]
            elif isinstance(n, ast.ExceptHandler) and n.name in mapping:
                n.name = "\0" + mapping[n.name]
        for n in ast.walk(fn):
            if isinstance(n, ast.Name) and n.id.startswith("\0"):
                n.id = n.id[1:]
            elif isinstance(n, ast.ExceptHandler) and n.name and n.name.startswith("\0"):
                n.name = n.name[1:]
        done.append(q)
    return done
