"""One property's verdict resting on a rule another property already decides.

delegate() runs the other property's rule module into a private Report and copies the obligations of
the named rules - discharged ones as discharged, failed ones as failures of the borrowing property
under its own rule name (with the borrower's consequence appended). A failure the source property
lists as a known finding is only copied when `include_known`; `only` filters by failure."""

from __future__ import annotations

import importlib

from .loader import AnalysisError
from .report import Report, load_known


_CACHE: dict = {}
_ACTIVE: list[str] = []  # properties whose rule module is running (borrowers and sources); breaks C22 <-> C28


def delegate(repo, rep: Report, tier: str, src_pid: str, src_rules: tuple[str, ...], rule: str, consequence: str, only=None, include_known: bool = False, floor: int = 1) -> int:
    if src_pid in _ACTIVE:
        # the source is itself waiting for this borrower's rules: its own rules are what the outer call copies
        return 0
    mod = importlib.import_module(f"sa.rules.{src_pid.lower()}")
    # one run of a lender per process and tree: borrowers of borrowers would otherwise re-run whole rule modules
    # over and over (C28 -> C21 -> C20 -> C15 ...; the chains grew exponentially). A cached run is reused only when it
    # has obligations for the rules asked for - a run made while some property was active skipped what it borrows
    # from that property, and is then repeated in the present context.
    key = (id(repo), src_pid, tier)
    sub = _CACHE.get(key)
    if sub is not None and not any(o["rule"] in src_rules for o in sub.obligations):
        sub = None
    if sub is None:
        sub = Report(src_pid, tier, mod.LEVEL, "")
        pushed = [p for p in (rep.pid, src_pid) if p not in _ACTIVE]
        _ACTIVE.extend(pushed)
        try:
            mod.run(repo, sub, tier)
        except AnalysisError as exc:
            sub.defer(str(exc))
        except Exception as exc:  # the source's rule module met a shape it does not handle: not analysed, never a pass
            sub.defer(f"rule module crashed: {type(exc).__name__}: {exc}")
        finally:
            for p in pushed:
                _ACTIVE.remove(p)
        _CACHE[key] = sub
    known = [k for k in load_known() if k["property"] == src_pid and k.get("status") == "known"]
    n = 0
    for o in sub.obligations:
        if o["rule"] in src_rules and o["ok"]:
            n += 1
            rep.ok(rule, o["instance"], o.get("detail", ""))
    for f in sub.failures:
        if f["rule"] not in src_rules:
            continue
        if only is not None and not only(f):
            continue
        if not include_known and any(k["rule"] == f["rule"] and k["key"] == f["key"] for k in known):
            continue
        n += 1
        f2 = dict(f)
        f2["rule"] = rule
        f2["detail"] = f["detail"] + " - " + consequence
        rep.obligations.append(f2)
        rep.failures.append(f2)
    # what the lender could not analyse concerns the borrower only when it left the borrowed rules without a single
    # obligation (the lender reports its own gaps under its own name); otherwise a gap in an unrelated rule of the
    # lender - or of the lender's lenders - would make every borrower "not analysed"
    if n < floor:
        for d in getattr(sub, "deferred", []):
            rep.defer(f"[{src_pid}] {d}")
    rep.floor(f"obligations borrowed from {src_pid} {'/'.join(src_rules)}", n, floor)
    return n


def run_lender(repo, borrower_pid: str, src_pid: str, tier: str) -> Report:
    """the lender's whole report (cached per process and tree), for borrowers that copy all of its rules"""
    key = (id(repo), src_pid, tier)
    sub = _CACHE.get(key)
    if sub is None:
        mod = importlib.import_module(f"sa.rules.{src_pid.lower()}")
        sub = Report(src_pid, tier, mod.LEVEL, "")
        pushed = [p for p in (borrower_pid, src_pid) if p not in _ACTIVE]
        _ACTIVE.extend(pushed)
        try:
            mod.run(repo, sub, tier)
        except AnalysisError as exc:
            sub.defer(str(exc))
        finally:
            for p in pushed:
                _ACTIVE.remove(p)
        _CACHE[key] = sub
    return sub
