"""Receive-path containment model shared by C02 and C05.

Facts established from the source:
  * DULServiceProvider._read_pdu_data decodes inside try/except Exception -> Evt19
  * DULServiceProvider._decode_pdu may *pre-validate* a decoded PDU by calling pdu.to_primitive()
    inside that guard (for the classes not excluded by an isinstance test)
  * the 28 actions call <received pdu>.to_primitive() with no handler; do_action re-raises and
    run_reactor calls do_action outside any try: an escaping exception kills the provider thread
  * DIMSEServiceProvider.receive_primitive runs inside DT-2 / AR-6
"""

from __future__ import annotations

import ast

from .consteval import Evaluator
from .escape import Escape, Func, enclosing_handlers, catches
from .fsm_model import ActionModel
from .loader import AnalysisError, Repo, body_nodoc, dotted, norm, strip_cast, walk_no_nested, enclosing, qualname

PRUNED_EXC = {"TypeError": "type-level check: the decoded value's static type is fixed by the decoder tables (C01)"}


class ReactorModel:
    def __init__(self, repo: Repo):
        self.repo = repo
        self.am = ActionModel(repo)
        self.dul = repo.mod("dul")
        pt = Evaluator(repo, self.dul, True).name("_PDU_TYPES")
        self.ev2cls = {v[1]: v[0].name.split(".")[-1] for v in pt.values()}
        self.trig: dict[str, set[str]] = {}
        for (e, s), a in self.am.table.items():
            self.trig.setdefault(a, set()).add(e)
        self.esc = Escape(repo)
        self.esc.families = {"to_primitive": "pdu_items"}

    # -- which PDU classes are validated at decode time --------------------------
    def prevalidated(self) -> tuple[set[str], ast.AST | None]:
        fn = self.repo.func("dul", "DULServiceProvider._decode_pdu")
        calls = [c for c in walk_no_nested(fn) if isinstance(c, ast.Call) and isinstance(c.func, ast.Attribute) and c.func.attr == "to_primitive"]
        if not calls:
            return set(), None
        c = calls[0]
        # the receiver must be the freshly decoded object
        dec = [x for x in walk_no_nested(fn) if isinstance(x, ast.Call) and isinstance(x.func, ast.Attribute) and x.func.attr == "decode"]
        if not dec or norm(dec[0].func.value) != norm(c.func.value) or dec[0].lineno > c.lineno:
            return set(), c
        classes = set(self.ev2cls.values())
        g = enclosing(c, (ast.If,))
        if g is not None and enclosing(g, (ast.FunctionDef,)) is fn:
            t = g.test
            neg = False
            if isinstance(t, ast.UnaryOp) and isinstance(t.op, ast.Not):
                neg, t = True, t.operand
            if isinstance(t, ast.Call) and dotted(t.func) == "isinstance" and norm(t.args[0]) == norm(c.func.value):
                names = t.args[1].elts if isinstance(t.args[1], ast.Tuple) else [t.args[1]]
                named = {dotted(n) for n in names}
                in_body = any(x is c for s in g.body for x in ast.walk(s))
                if neg == in_body:
                    classes = classes - named
                else:
                    classes = classes & named
            elif isinstance(t, ast.Compare) and len(t.ops) == 1 and isinstance(t.ops[0], (ast.In, ast.NotIn)) and isinstance(t.comparators[0], (ast.Name, ast.Tuple, ast.List, ast.Set)):
                # `pdu_cls in _SOME_PDUS` / `type(pdu) in (A, B)`: a module-level (or literal) collection of classes
                coll = t.comparators[0]
                if isinstance(coll, ast.Name):
                    dm = self.repo.mod("dul")
                    vals = dm.assigns.get(coll.id) or []
                    coll = vals[0] if vals else None
                if not isinstance(coll, (ast.Tuple, ast.List, ast.Set)):
                    raise AnalysisError(f"dul._decode_pdu: pre-validation guarded by an unmodelled condition: {norm(g.test)}")
                named = {dotted(n) for n in coll.elts}
                in_body = any(x is c for s in g.body for x in ast.walk(s))
                positive = isinstance(t.ops[0], ast.In) != neg
                classes = classes & named if positive == in_body else classes - named
            else:
                raise AnalysisError(f"dul._decode_pdu: pre-validation guarded by an unmodelled condition: {norm(g.test)}")
        return classes, c

    def decode_guarded(self) -> tuple[bool, ast.AST]:
        """_read_pdu_data calls _decode_pdu inside try/except Exception whose handler queues Evt19 and returns"""
        fn = self.repo.func("dul", "DULServiceProvider._read_pdu_data")
        calls = [c for c in walk_no_nested(fn) if isinstance(c, ast.Call) and dotted(c.func) == "self._decode_pdu"]
        if len(calls) != 1:
            raise AnalysisError("dul._read_pdu_data: _decode_pdu call site vanished")
        c = calls[0]
        tr = enclosing(c, (ast.Try,))
        ok = False
        if tr is not None and any(x is c for s in tr.body for x in ast.walk(s)):
            for h in tr.handlers:
                from .cfg import handler_types
                if catches(handler_types(h), "Exception") and "Exception" in handler_types(h) or h.type is None:
                    body = [norm(s) for s in h.body]
                    ok = "self.event_queue.put('Evt19')" in body and body[-1] == "return"
        return ok, c

    # -- escaping raises of to_primitive per PDU class ---------------------------------
    def to_primitive_escapes(self, cls_name: str) -> list[dict]:
        ci = self.repo.find_class(cls_name)
        if ci is None:
            raise AnalysisError(f"PDU class {cls_name} vanished")
        o, m = self.repo.lookup_method(ci, "to_primitive", "method")
        if m is None:
            raise AnalysisError(f"{cls_name}.to_primitive vanished")
        res = self.esc.escaping(Func(o.mod, m, o))
        out, seen = [], set()
        for r in res:
            key = (r["func"].fq, norm(r["site"]), r["exc"])
            if key in seen:
                continue
            seen.add(key)
            out.append(r)
        return out

    def action_pdu_classes(self) -> dict[str, list[str]]:
        """action name -> PDU classes whose to_primitive() it calls on a received PDU"""
        out = {}
        for a in sorted(self.am.actions):
            fn = self.am.action_func(a)
            recv_vars = set()
            direct = False
            for s in walk_no_nested(fn):
                if isinstance(s, ast.Assign) and isinstance(s.targets[0], ast.Name):
                    v = strip_cast(s.value)
                    if isinstance(v, ast.Call) and (dotted(v.func) or "").endswith("_recv_pdu.get"):
                        recv_vars.add(s.targets[0].id)
            uses = [c for c in walk_no_nested(fn) if isinstance(c, ast.Call) and isinstance(c.func, ast.Attribute) and c.func.attr == "to_primitive" and isinstance(strip_cast(c.func.value), ast.Name) and strip_cast(c.func.value).id in recv_vars]
            if uses:
                out[a] = sorted({self.ev2cls[e] for e in self.trig.get(a, ()) if e in self.ev2cls})
        return out
