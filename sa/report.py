"""Evidence writer and the VIOLATION / KNOWN-FINDING / ANALYSIS-ERROR protocol."""

from __future__ import annotations

import ast
import json
import os
import time
from pathlib import Path

from .loader import AnalysisError, Module, norm, qualname, head

VERIF = Path(__file__).resolve().parent.parent
EVIDENCE = Path(os.environ.get("VERIF_EVIDENCE_DIR") or (VERIF / "evidence"))
KNOWN = VERIF / "known_findings.json"


def load_known() -> list[dict]:
    if not KNOWN.exists():
        return []
    return json.loads(KNOWN.read_text())["findings"]


class Report:
    def __init__(self, pid: str, tier: str, level: str, explanation: str):
        self.pid = pid
        self.tier = tier
        self.level = level
        self.explanation = explanation
        self.t0 = time.time()
        self.obligations: list[dict] = []
        self.failures: list[dict] = []
        self.counters: dict[str, int] = {}
        self.analysed: dict[str, list[str]] = {}
        self.samples: list = []
        self.assumptions: list[str] = []
        self.trusted: list[str] = [
            "CPython ast module",
            "hand transcription of PS3.7/PS3.8 tables under /verif/spec",
            "rule implementations under /verif/sa (exercised both ways by selftest)",
        ]
        self.extra: dict = {}
        self.rules: dict[str, str] = {}
        self.deferred: list[str] = []

    # -- recording --------------------------------------------------------
    def rule(self, rid: str, text: str) -> None:
        self.rules[rid] = text

    def saw(self, kind: str, item: str) -> None:
        self.analysed.setdefault(kind, [])
        if item not in self.analysed[kind]:
            self.analysed[kind].append(item)

    def ok(self, rule: str, instance: str, detail: str = "") -> None:
        self.obligations.append(
            {"rule": rule, "instance": instance, "ok": True, "detail": detail}
        )

    def fail(
        self,
        rule: str,
        function: str,
        stmt,
        msg: str,
        mod: Module | None = None,
        node: ast.AST | None = None,
        path: list[str] | None = None,
    ) -> None:
        """Record a failed obligation. Key = (rule, function, normalised stmt)."""
        if isinstance(stmt, ast.AST):
            if node is None:
                node = stmt
            stmt = head(stmt)
        else:
            stmt = norm(stmt)
        rec = {
            "rule": rule,
            "instance": f"{function} :: {stmt}",
            "ok": False,
            "detail": msg,
            "key": {"function": function, "stmt": stmt},
            "where": (mod.loc(node) if (mod is not None and node is not None) else ""),
        }
        if path:
            rec["path"] = path
        # de-duplicate identical keys (a path rule may reach one site many ways)
        for f in self.failures:
            if f["rule"] == rule and f["key"] == rec["key"]:
                return
        self.obligations.append(rec)
        self.failures.append(rec)

    def check(self, cond: bool, rule: str, function: str, stmt, msg: str, **kw) -> bool:
        if cond:
            s = head(stmt) if isinstance(stmt, ast.AST) else norm(stmt)
            self.ok(rule, f"{function} :: {s}")
        else:
            self.fail(rule, function, stmt, msg, **kw)
        return cond

    def need(self, cond, msg: str):
        """Anchor / shape requirement: failure is an analysis error, not a verdict."""
        if not cond:
            raise AnalysisError(msg)
        return cond

    def defer(self, msg: str) -> None:
        """An unrecognised shape that only blocks *one* rule: the other rules' verdicts stand.
        If they find a violation it is reported (exit 1); otherwise the run ends as an
        analysis error (exit 2) - never as a silent pass."""
        if msg not in self.deferred:
            self.deferred.append(msg)

    def floor(self, what: str, count: int, minimum: int) -> None:
        self.counters[what] = count
        # `minimum` is the count confirmed by hand on the tree the rule was written against. A refactor
        # that folds duplicated sites into a helper lowers a count without emptying the rule, so the
        # run is given up only when well under it (two thirds); small floors are exact.
        threshold = minimum if minimum <= 3 else max(3, (2 * minimum + 2) // 3)
        if count < threshold:
            # not a verdict: if other rules found a violation it is reported (exit 1), otherwise the
            # run ends as an analysis error (exit 2) - never as a pass
            self.defer(
                f"instance floor: {what} = {count} < {minimum} confirmed by hand; "
                "the rule would pass vacuously"
            )

    def sample(self, obj) -> None:
        if len(self.samples) < 12:
            self.samples.append(obj)

    # -- verdict ----------------------------------------------------------
    def new_failures(self) -> list[dict]:
        """failures that no known-findings entry lists"""
        known = [k for k in load_known() if k["property"] == self.pid and k["status"] == "known"]
        return [f for f in self.failures if not any(k["rule"] == f["rule"] and k["key"] == f["key"] for k in known)]

    def finish(self, replay_filter: dict | None = None) -> int:
        known = [
            k for k in load_known() if k["property"] == self.pid and k["status"] == "known"
        ]
        used = set()
        new, listed = [], []
        for f in self.failures:
            hit = None
            for i, k in enumerate(known):
                if k["rule"] == f["rule"] and k["key"] == f["key"]:
                    hit = i
                    break
            if hit is None:
                new.append(f)
            else:
                used.add(hit)
                listed.append((f, known[hit]))
        if replay_filter is not None:
            new = [
                f
                for f in self.failures
                if f["rule"] == replay_filter["rule"] and f["key"] == replay_filter["key"]
            ]
            listed = []
        for f, k in listed:
            print(
                f"KNOWN-FINDING: property={self.pid} rule={f['rule']} {f['where']} "
                f"{f['key']['function']}: {k['what']}"
            )
        stale = [k for i, k in enumerate(known) if i not in used]
        for k in stale:
            print(
                f"NOTE: known finding no longer reproduced (rule={k['rule']} "
                f"function={k['key']['function']}); consider marking it fixed"
            )
        replay_dir = EVIDENCE / "replay"
        paths = []
        if new:
            replay_dir.mkdir(parents=True, exist_ok=True)
        for n, f in enumerate(new):
            rp = replay_dir / f"{self.pid}-{n}.json"
            rp.write_text(json.dumps({"property": self.pid, **f}, indent=1))
            paths.append(rp)
            print(
                f"  {f['where']} [{f['rule']}] {f['key']['function']}: {f['detail']}\n"
                f"      construct: {f['key']['stmt']}"
            )
            if f.get("path"):
                print("      path: " + " -> ".join(f["path"]))
            print(f"VIOLATION property={self.pid} replay={rp}")
        if replay_filter is None:
            self._write(len(new), len(listed))
        if new:
            for d in self.deferred:
                print(f"NOTE: not analysed (shape not recognised): {d}")
            return 1
        if self.deferred:
            for d in self.deferred:
                print(f"ANALYSIS-ERROR property={self.pid}: {d}")
            return 2
        return 0

    def _write(self, nviol: int, nknown: int) -> None:
        EVIDENCE.mkdir(exist_ok=True)
        n_ob = len(self.obligations)
        n_ok = sum(1 for o in self.obligations if o["ok"])
        distinct = len({(o["rule"], o["instance"]) for o in self.obligations})
        samples = list(self.samples)
        for o in self.obligations[:4]:
            samples.append({k: o[k] for k in ("rule", "instance", "ok", "detail")})
        for o in self.failures[:6]:
            samples.append({k: o[k] for k in ("rule", "instance", "ok", "detail", "where")})
        cov = {
            "explanation": self.explanation,
            "obligations": n_ob,
            "discharged": n_ok,
            "evaluations": max(n_ob, 1),
            "distinct_nontrivial": distinct,
            "rule": "one obligation per (rule, construct) instance extracted from /repo's "
            "syntax tree on this run; distinct = distinct (rule, instance) pairs; an "
            "instance is non-trivial because it is a concrete construct of the analysed "
            "source, not a constant",
            "samples": samples,
            "checker_cmd": f"./check {self.pid} --tier {self.tier}",
            "trusted_base": self.trusted,
            "rules": self.rules,
            "analysed": {k: {"count": len(v), "items": v[:60]} for k, v in self.analysed.items()},
            "counters": self.counters,
            "known_findings_reported": nknown,
            "failed_obligations": [
                {k: o.get(k) for k in ("rule", "instance", "detail", "where")}
                for o in self.failures
            ],
            "exhaustive": bool(self.extra.get("exhaustive", False)),
        }
        cov.update({k: v for k, v in self.extra.items() if k != "exhaustive"})
        doc = {
            "property_id": self.pid,
            "tier": self.tier,
            "seed": int(os.environ.get("VERIF_SEED", "0") or 0),
            "level": self.level,
            "coverage": cov,
            "assumptions": self.assumptions,
            "wall_s": round(time.time() - self.t0, 3),
            "violations": nviol,
        }
        (EVIDENCE / f"{self.pid}.json").write_text(json.dumps(doc, indent=1, default=str))


def fq(mod: Module, node: ast.AST) -> str:
    """module-relative qualified name of the function/class enclosing `node`."""
    q = qualname(node)
    short = mod.name.replace("pynetdicom.", "")
    return f"{short}.{q}" if q else short
