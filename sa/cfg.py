"""Statement-level control-flow graph for the statement kinds pynetdicom uses, with
exception edges, reachability-based dominance, path enumeration and a powerset
typestate engine.  A statement kind the builder does not know is an AnalysisError."""

from __future__ import annotations

import ast
from typing import Callable, Iterable

from .loader import AnalysisError, head, walk_no_nested


class N:
    __slots__ = ("id", "kind", "ast", "succ", "pred", "withs", "trys", "loops", "note")

    def __init__(self, nid: int, kind: str, node: ast.AST | None):
        self.id = nid
        self.kind = kind
        self.ast = node
        self.succ: list[tuple["N", str]] = []
        self.pred: list[tuple["N", str]] = []
        self.withs: tuple = ()
        self.trys: tuple = ()
        self.loops: tuple = ()
        self.note = ""

    @property
    def line(self) -> int:
        return getattr(self.ast, "lineno", 0) if self.ast is not None else 0

    def text(self) -> str:
        if self.ast is None:
            return self.kind
        if self.kind == "with_exit":
            return "end " + head(self.ast)
        return head(self.ast)

    def __repr__(self):
        return f"<{self.id}:{self.kind}:L{self.line}:{self.text()[:40]}>"


CATCH_ALL = {"Exception", "BaseException"}


def handler_types(h: ast.ExceptHandler) -> list[str]:
    if h.type is None:
        return ["BaseException"]
    if isinstance(h.type, ast.Tuple):
        return [ast.unparse(e) for e in h.type.elts]
    return [ast.unparse(h.type)]


def default_may_raise(node: ast.AST) -> bool:
    if isinstance(node, (ast.Raise, ast.Assert)):
        return True
    for n in walk_no_nested(node):
        if isinstance(n, (ast.Call, ast.Subscript, ast.Yield, ast.YieldFrom)):
            return True
    return False


class _TryFrame:
    def __init__(self, handlers: list[N], catch_all: bool):
        self.handlers = handlers
        self.catch_all = catch_all


class _WithFrame:
    def __init__(self, exit_node: N, suppress: bool):
        self.exit_node = exit_node
        self.suppress = suppress


class _FinallyFrame:
    def __init__(self, try_node: ast.Try):
        self.try_node = try_node
        self.copies: dict = {}


class _Loop:
    def __init__(self, head_node: N, depth: int):
        self.head = head_node
        self.breaks: list[tuple[N, str]] = []
        self.depth = depth


class CFG:
    def __init__(
        self,
        fn: ast.FunctionDef,
        suppressing: Callable[[ast.withitem], bool] | None = None,
        may_raise: Callable[[ast.AST], bool] = default_may_raise,
        body: list[ast.stmt] | None = None,
        local_exc_only: bool = False,
    ):
        self.fn = fn
        self.local_exc_only = local_exc_only
        self.nodes: list[N] = []
        self.suppressing = suppressing or (lambda item: False)
        self.may_raise = may_raise
        self.entry = self._new("entry", None)
        self.exit = self._new("exit", None)  # normal return / fall off the end
        self.raise_exit = self._new("raise", None)  # exception leaves the function
        self._frames: list = []
        self._loops: list[_Loop] = []
        self._withs: list[ast.With] = []
        self._trys: list[tuple[ast.Try, str]] = []
        frontier = self._block(body if body is not None else fn.body, [(self.entry, "next")])
        self._connect(frontier, self.exit)
        for n in self.nodes:
            for m, lab in n.succ:
                m.pred.append((n, lab))

    # -- construction -----------------------------------------------------
    def _new(self, kind: str, node) -> N:
        n = N(len(self.nodes), kind, node)
        n.withs = tuple(getattr(self, "_withs", ()))
        n.trys = tuple(getattr(self, "_trys", ()))
        n.loops = tuple(l.head for l in getattr(self, "_loops", ()))
        self.nodes.append(n)
        return n

    def _connect(self, frontier, target: N):
        for n, lab in frontier:
            if (target, lab) not in n.succ:
                n.succ.append((target, lab))

    def _exc_targets(self, frames: list) -> list[N]:
        targets: list[N] = []
        for i in range(len(frames) - 1, -1, -1):
            fr = frames[i]
            if isinstance(fr, _TryFrame):
                targets.extend(fr.handlers)
                if fr.catch_all:
                    return targets
            elif isinstance(fr, _WithFrame):
                if fr.suppress:
                    targets.append(fr.exit_node)
                    return targets
            elif isinstance(fr, _FinallyFrame):
                entry = self._finally_copy(fr, "exc", frames[:i])
                targets.append(entry)
                return targets
        targets.append(self.raise_exit)
        return targets

    def _finally_copy(self, fr: _FinallyFrame, kind: str, outer_frames, target: N | None = None):
        key = (kind, target.id if target is not None else None)
        if key in fr.copies:
            return fr.copies[key]
        saved = self._frames
        self._frames = list(outer_frames)
        entry = self._new("finally", fr.try_node)
        entry.note = kind
        fr.copies[key] = entry
        frontier = self._block(fr.try_node.finalbody, [(entry, "next")])
        if kind == "exc":
            for t in self._exc_targets(list(outer_frames)):
                self._connect([(n, "exc") for n, _ in frontier], t)
        else:
            assert target is not None
            self._connect(frontier, target)
        self._frames = saved
        return entry

    def _jump(self, src: N, label: str, kind: str, target: N, depth: int):
        """return/break/continue from `src` to `target`, unwinding finally frames above
        `depth` (innermost first)."""
        frames = self._frames
        fins = [
            (i, fr)
            for i, fr in enumerate(frames)
            if isinstance(fr, _FinallyFrame) and i >= depth
        ]
        # chain innermost -> ... -> outermost -> target, built from the outside in
        cont = target
        for i, fr in fins:  # outermost first: its continuation is the real target
            cont = self._finally_copy(fr, kind, frames[:i], cont)
        self._connect([(src, label)], cont)

    def _add_exc(self, n: N):
        if n.ast is not None and self.may_raise(_raise_scope(n)):
            for t in self._exc_targets(self._frames):
                if self.local_exc_only and t is self.raise_exit:
                    continue  # only exceptions that are caught inside the function are modelled
                self._connect([(n, "exc")], t)

    def _block(self, stmts: Iterable[ast.stmt], frontier):
        for st in stmts:
            if not frontier:
                # unreachable code after return/raise/continue: still build it, detached
                pass
            frontier = self._stmt(st, frontier)
        return frontier

    def _stmt(self, st: ast.stmt, frontier):
        simple = (
            ast.Expr,
            ast.Assign,
            ast.AugAssign,
            ast.AnnAssign,
            ast.Pass,
            ast.Delete,
            ast.Global,
            ast.Nonlocal,
            ast.Import,
            ast.ImportFrom,
            ast.FunctionDef,
            ast.ClassDef,
            ast.Assert,
        )
        if isinstance(st, simple):
            n = self._new("stmt", st)
            self._connect(frontier, n)
            if not isinstance(st, (ast.FunctionDef, ast.ClassDef)):
                self._add_exc(n)
            return [(n, "next")]
        if isinstance(st, ast.Return):
            n = self._new("stmt", st)
            self._connect(frontier, n)
            self._add_exc(n)
            self._jump(n, "return", "return", self.exit, 0)
            return []
        if isinstance(st, ast.Raise):
            n = self._new("stmt", st)
            self._connect(frontier, n)
            for t in self._exc_targets(self._frames):
                self._connect([(n, "exc")], t)
            return []
        if isinstance(st, ast.Break):
            n = self._new("stmt", st)
            self._connect(frontier, n)
            loop = self._loops[-1]
            after = self._new("join", None)
            self._jump(n, "break", "break", after, loop.depth)
            loop.breaks.append((after, "next"))
            return []
        if isinstance(st, ast.Continue):
            n = self._new("stmt", st)
            self._connect(frontier, n)
            loop = self._loops[-1]
            self._jump(n, "continue", "continue", loop.head, loop.depth)
            return []
        if isinstance(st, ast.If):
            n = self._new("test", st)
            self._connect(frontier, n)
            self._add_exc(n)
            out = self._block(st.body, [(n, "true")])
            if st.orelse:
                out = out + self._block(st.orelse, [(n, "false")])
            else:
                out = out + [(n, "false")]
            return out
        if isinstance(st, ast.While):
            n = self._new("test", st)
            self._connect(frontier, n)
            self._add_exc(n)
            loop = _Loop(n, len(self._frames))
            self._loops.append(loop)
            body_out = self._block(st.body, [(n, "true")])
            self._loops.pop()
            self._connect(body_out, n)  # back edge keeps the label of the edge that closes the body
            const_true = isinstance(st.test, ast.Constant) and bool(st.test.value)
            out = [] if const_true else [(n, "false")]
            if st.orelse:
                out = self._block(st.orelse, out)
            return out + loop.breaks
        if isinstance(st, ast.For):
            n = self._new("iter", st)
            self._connect(frontier, n)
            self._add_exc(n)
            loop = _Loop(n, len(self._frames))
            self._loops.append(loop)
            body_out = self._block(st.body, [(n, "loop")])
            self._loops.pop()
            self._connect(body_out, n)  # back edge keeps the label of the edge that closes the body
            out = [(n, "exhausted")]
            if st.orelse:
                out = self._block(st.orelse, out)
            return out + loop.breaks
        if isinstance(st, ast.With):
            enter = self._new("with_enter", st)
            self._connect(frontier, enter)
            self._add_exc(enter)
            self._withs.append(st)
            exit_node = self._new("with_exit", st)
            self._withs.pop()
            suppress = any(self.suppressing(i) for i in st.items)
            self._withs.append(st)
            self._frames.append(_WithFrame(exit_node, suppress))
            out = self._block(st.body, [(enter, "next")])
            self._frames.pop()
            self._withs.pop()
            self._connect(out, exit_node)
            return [(exit_node, "next")]
        if isinstance(st, ast.Try):
            return self._try(st, frontier)
        raise AnalysisError(
            f"CFG: statement kind {type(st).__name__} at line {st.lineno} not modelled"
        )

    def _try(self, st: ast.Try, frontier):
        fin = None
        if st.finalbody:
            fin = _FinallyFrame(st)
            self._frames.append(fin)
        handlers = []
        self._trys.append((st, "handler"))
        for h in st.handlers:
            handlers.append(self._new("handler", h))
        self._trys.pop()
        catch_all = any(set(handler_types(h)) & CATCH_ALL for h in st.handlers)
        marker = self._new("try", st)
        self._connect(frontier, marker)
        self._frames.append(_TryFrame(handlers, catch_all))
        self._trys.append((st, "body"))
        out = self._block(st.body, [(marker, "next")])
        self._trys.pop()
        self._frames.pop()
        if st.orelse:
            self._trys.append((st, "else"))
            out = self._block(st.orelse, out)
            self._trys.pop()
        for hn, h in zip(handlers, st.handlers):
            self._trys.append((st, "handler"))
            out = out + self._block(h.body, [(hn, "next")])
            self._trys.pop()
        if fin is not None:
            self._frames.pop()
            after = self._new("join", None)
            entry = self._finally_copy(fin, "normal", self._frames, after)
            self._connect(out, entry)
            return [(after, "next")]
        return out

    # -- queries ----------------------------------------------------------
    def stmts(self, kinds=("stmt", "test", "iter", "with_enter", "handler")):
        return [n for n in self.nodes if n.kind in kinds and self._reachable_from_entry(n)]

    _reach_cache = None

    def _reachable_from_entry(self, n: N) -> bool:
        if self._reach_cache is None:
            self._reach_cache = self.reachable(self.entry)
        return n.id in self._reach_cache

    def reachable(self, start: N, without: set[int] | None = None, labels_excluded=()):
        without = without or set()
        seen = set()
        todo = [start]
        while todo:
            n = todo.pop()
            if n.id in seen or n.id in without:
                continue
            seen.add(n.id)
            for m, lab in n.succ:
                if lab in labels_excluded:
                    continue
                todo.append(m)
        return seen

    def dominates(self, a: N, b: N, labels_excluded=()) -> bool:
        """every path entry -> b passes through a"""
        if a is b:
            return True
        return b.id not in self.reachable(self.entry, {a.id}, labels_excluded)

    def must_pass(self, src: N, via: Callable[[N], bool], targets: set[int], labels_excluded=()):
        """True iff every path src -> any target passes a node satisfying `via`
        (src itself excluded).  Returns (ok, witness-path)."""
        seen = {}
        todo = [(src, None)]
        while todo:
            n, prev = todo.pop()
            if n.id in seen:
                continue
            seen[n.id] = prev
            if n is not src and via(n):
                continue
            if n.id in targets and n is not src:
                path = []
                cur = n.id
                while cur is not None:
                    path.append(self.nodes[cur])
                    cur = seen[cur]
                return False, list(reversed(path))
            for m, lab in n.succ:
                if lab in labels_excluded:
                    continue
                todo.append((m, n.id))
        return True, []

    def paths(self, max_paths: int = 5000, max_visits: int = 1, labels_excluded=()):
        """All entry->exit/raise paths visiting each node at most `max_visits` times."""
        out = []

        def rec(n, path, counts):
            if len(out) >= max_paths:
                raise AnalysisError(f"path explosion in {self.fn.name}")
            path.append(n)
            if n is self.exit or n is self.raise_exit:
                out.append(list(path))
            else:
                for m, lab in n.succ:
                    if lab in labels_excluded:
                        continue
                    if counts.get(m.id, 0) >= max_visits:
                        continue
                    counts[m.id] = counts.get(m.id, 0) + 1
                    rec(m, path, counts)
                    counts[m.id] -= 1
            path.pop()

        rec(self.entry, [], {self.entry.id: 1})
        return out

    def node_of(self, st: ast.AST) -> N | None:
        for n in self.nodes:
            if n.ast is st and n.kind not in ("with_exit", "finally", "try"):
                return n
        return None

    def nodes_containing(self, sub: ast.AST) -> list[N]:
        out = []
        for n in self.nodes:
            if n.ast is None or n.kind in ("with_exit", "try", "finally"):
                continue
            for x in walk_no_nested(_raise_scope(n)):
                if x is sub:
                    out.append(n)
                    break
        return out


def _raise_scope(n: N) -> ast.AST:
    """The part of the node's AST evaluated *at* that node (not its nested body)."""
    a = n.ast
    if n.kind == "test":
        return a.test  # type: ignore[union-attr]
    if n.kind == "iter":
        return a.iter  # type: ignore[union-attr]
    if n.kind == "with_enter":
        m = ast.Module(body=[], type_ignores=[])
        m.body = [ast.Expr(value=i.context_expr) for i in a.items]  # type: ignore[union-attr]
        return m
    if n.kind == "handler":
        return ast.Pass()
    return a  # type: ignore[return-value]


def scope(n: N) -> ast.AST:
    return _raise_scope(n)


def calls_at(n: N) -> list[ast.Call]:
    if n.ast is None or n.kind in ("with_exit", "try", "finally", "handler"):
        return []
    return [x for x in walk_no_nested(_raise_scope(n)) if isinstance(x, ast.Call)]


# -- powerset typestate engine ---------------------------------------------


def typestate(
    cfg: CFG,
    init,
    transfer: Callable[[N, object], list[tuple[object, set[str] | None]]],
    max_states: int = 200000,
):
    """Propagate a set of hashable abstract states.  `transfer(node, state)` returns
    [(state', labels)] — state' flows along out-edges whose label is in `labels`
    (None = all).  Returns (in_states: {node id: set}, pred: witness pointers)."""
    ins: dict[int, set] = {}
    pred: dict = {}
    work = [(cfg.entry, init)]
    ins.setdefault(cfg.entry.id, set()).add(init)
    count = 0
    while work:
        n, s = work.pop()
        count += 1
        if count > max_states:
            raise AnalysisError(f"typestate explosion in {cfg.fn.name}")
        for s2, labels in transfer(n, s):
            for m, lab in n.succ:
                if labels is not None and lab not in labels:
                    continue
                bucket = ins.setdefault(m.id, set())
                if s2 not in bucket:
                    bucket.add(s2)
                    pred[(m.id, s2)] = (n.id, s)
                    work.append((m, s2))
    return ins, pred


def witness(cfg: CFG, pred: dict, node: N, state) -> list[str]:
    path = []
    key = (node.id, state)
    seen = set()
    while key in pred and key not in seen:
        seen.add(key)
        n = cfg.nodes[key[0]]
        if n.ast is not None:
            path.append(f"L{n.line}")
        key = pred[key]
    return list(reversed(path))[-25:]


class PathSummary:
    __slots__ = ("conds", "ret", "nodes", "raised", "stmts")

    def __init__(self):
        self.conds: list[tuple[ast.AST, bool]] = []
        self.ret: ast.AST | None = None
        self.nodes: list[N] = []
        self.raised = False
        self.stmts: list[ast.stmt] = []


def path_summaries(fn: ast.FunctionDef, body=None, max_paths: int = 2000, **kw) -> list[PathSummary]:
    """Every entry->exit path of a (small) function as (branch conditions, statements, return)."""
    cfg = CFG(fn, body=body, **kw)
    out = []
    for path in cfg.paths(max_paths=max_paths):
        ps = PathSummary()
        ps.raised = path[-1] is cfg.raise_exit
        for i, n in enumerate(path):
            lab = None
            if i + 1 < len(path):
                for m, l in n.succ:
                    if m is path[i + 1]:
                        lab = l
                        break
            ps.nodes.append(n)
            if lab == "exc":
                continue
            if n.kind == "test" and lab in ("true", "false"):
                ps.conds.append((n.ast.test, lab == "true"))
            if n.kind == "stmt":
                ps.stmts.append(n.ast)
                if isinstance(n.ast, ast.Return):
                    ps.ret = n.ast.value if n.ast.value is not None else ast.Constant(value=None)
        out.append(ps)
    return out


# ---- path facts: correlated branches over pure local tests -----------------------------------
def _pure_local(e: ast.AST) -> bool:
    """only local names / constants / comparisons / not / and / or: its value cannot change between
    two evaluations unless one of the names is rebound"""
    for x in ast.walk(e):
        if isinstance(x, ast.Name):
            if x.id in ("self", "cls"):
                return False
        elif not isinstance(x, (ast.Constant, ast.Compare, ast.BoolOp, ast.UnaryOp, ast.Not, ast.And, ast.Or, ast.cmpop, ast.Load, ast.expr_context)):
            return False
    return True


def _fact_key(t: ast.AST) -> tuple[str, bool]:
    """(canonical text, polarity): `not X`, `a is not b`, `a != b`, `a not in b` are the negations of their positive forms"""
    pol = True
    while isinstance(t, ast.UnaryOp) and isinstance(t.op, ast.Not):
        t, pol = t.operand, not pol
    if isinstance(t, ast.Compare) and len(t.ops) == 1:
        flip = {ast.IsNot: ast.Is, ast.NotEq: ast.Eq, ast.NotIn: ast.In}
        for neg, pos in flip.items():
            if isinstance(t.ops[0], neg):
                t = ast.Compare(left=t.left, ops=[pos()], comparators=t.comparators)
                pol = not pol
                break
    return ast.unparse(t), pol


def _bound_names(a: ast.AST) -> set[str]:
    out = set()
    for x in ast.walk(a):
        if isinstance(x, ast.Name) and isinstance(x.ctx, (ast.Store, ast.Del)):
            out.add(x.id)
    return out


def typestate_with_facts(cfg: CFG, init, transfer, max_states: int = 200000):
    """typestate over (state, facts): a test over pure local names is remembered, so a later test
    of the same expression (either polarity) follows only the consistent edge - the
    `if t is not None: set(...)` ... `if t is not None: clear(...)` idiom is not split into four paths.
    Returns (ins, pred) with states of the form (state, frozenset facts)."""
    import re as _re

    def tr(n, st):
        inner, facts = st
        outs = transfer(n, inner)
        if n.kind == "test" and n.ast is not None and hasattr(n.ast, "test") and _pure_local(n.ast.test):
            key, pol = _fact_key(n.ast.test)
            known = dict(facts).get(key)
            res = []
            for s2, labels in outs:
                for lab, val in (("true", pol), ("false", not pol)):
                    if labels is not None and lab not in labels:
                        continue
                    if known is not None and known != val:
                        continue
                    res.append(((s2, facts | {(key, val)}), {lab}))
                other = {l for _, l in n.succ if l not in ("true", "false")}
                if other and (labels is None or other & labels):
                    res.append(((s2, facts), other if labels is None else other & labels))
            return res
        if n.kind in ("stmt", "iter", "with_enter", "handler") and n.ast is not None:
            if n.kind == "iter":
                bound = _bound_names(n.ast.target)
            elif n.kind == "with_enter":
                bound = set().union(*[_bound_names(i.optional_vars) for i in n.ast.items if i.optional_vars is not None] or [set()])
            elif n.kind == "handler":
                bound = {n.ast.name} if getattr(n.ast, "name", None) else set()
            else:
                bound = _bound_names(n.ast) if not isinstance(n.ast, (ast.FunctionDef, ast.ClassDef)) else set()
            if bound:
                facts = frozenset(f for f in facts if not any(_re.search(rf"\b{_re.escape(b)}\b", f[0]) for b in bound))
        return [((s2, facts), labels) for s2, labels in outs]

    return typestate(cfg, (init, frozenset()), tr, max_states)
