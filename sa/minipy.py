"""A small interpreter for the subset of Python the negotiation functions are written in.

Used to evaluate `presentation.negotiate_as_acceptor` / `negotiate_unrestricted` /
`negotiate_as_requestor` on every point of the finite role space (proposal x setting, each role in
{None, False, True}) with stand-in objects: one proposed context, one supported context, abstract
symbols for UIDs. The interpreter is this package's own evaluator over the repository's syntax tree -
nothing of pynetdicom is imported or executed. It supports: assignments (names, attributes of stand-in
objects, subscripts, tuple targets), if / for-else / break / continue / try-except-finally / return /
raise, literals and comprehensions, boolean / comparison / + - operators, conditional expressions,
lambdas, subscripts, a fixed list of builtins and list / dict methods, and construction of registered
stand-in classes. Anything else raises Unsupported (the caller reports 'not analysed', never a verdict)."""

from __future__ import annotations

import ast

from .loader import AnalysisError, norm, walk_no_nested


class Unsupported(AnalysisError):
    pass


class Raised(Exception):
    def __init__(self, kind: str, node=None):
        self.kind = kind
        self.node = node


class _Break(Exception):
    pass


class _Continue(Exception):
    pass


class _Return(Exception):
    def __init__(self, value):
        self.value = value


class Obj:
    """stand-in object: attributes in a dict; `alias` maps a public name to the attribute that stores it"""

    def __init__(self, cls: str, attrs: dict | None = None, alias: dict | None = None):
        self.__dict__["cls"] = cls
        self.__dict__["attrs"] = dict(attrs or {})
        self.__dict__["alias"] = dict(alias or {})

    def get(self, name):
        name = self.alias.get(name, name)
        if name not in self.attrs:
            # the analysed code reads state the stand-in was not given (a field kept up to date by a setter
            # the stand-in bypasses): nothing can be concluded from this evaluation
            raise Unsupported(f"stand-in {self.cls} has no attribute {name}")
        return self.attrs[name]

    def set(self, name, value):
        self.attrs[self.alias.get(name, name)] = value

    def __repr__(self):
        return f"<{self.cls} {self.attrs}>"


class GenResult(list):
    """what calling a generator function gives: the values it yields (it is run eagerly), consumable with next()"""

    def __init__(self, items, raised=None):
        super().__init__(items)
        self.pos = 0
        self.raised = raised  # a Raised that ended the generator early: re-raised when the consumer gets there

    def take(self):
        if self.pos < len(self):
            self.pos += 1
            return self[self.pos - 1]
        if self.raised is not None:
            raise self.raised
        raise Raised("StopIteration")


class Closure:
    def __init__(self, node: ast.Lambda, env: dict, interp):
        self.node, self.env, self.interp = node, env, interp

    def __call__(self, *args):
        env = dict(self.env)
        for a, v in zip(self.node.args.args, args):
            env[a.arg] = v
        return self.interp.ev(self.node.body, env)


BUILTIN_NAMES = {"None": None, "True": True, "False": False}


class Interp:
    def __init__(self, globals_: dict, classes: dict | None = None, ignore_calls=("LOGGER.",), method_resolver=None):
        self.globals = dict(globals_)
        self.classes = dict(classes or {})  # name -> callable() -> Obj
        self.ignore_calls = ignore_calls
        self.method_resolver = method_resolver  # (class name, method name) -> (FunctionDef, is_static) | None
        self.gen_partial = False  # True: a generator that raises gives what it yielded so far, then raises on next()
        self.steps = 0

    # -- expressions ------------------------------------------------------------------------------
    def ev(self, e, env):
        try:
            return self._ev(e, env)
        except (Raised, Unsupported, _Break, _Continue, _Return):
            raise
        except TypeError:
            raise Raised("TypeError", e)
        except (KeyError, IndexError) as exc:
            raise Raised(type(exc).__name__, e)
        except ZeroDivisionError:
            raise Raised("ZeroDivisionError", e)
        except (ValueError, AssertionError, OverflowError) as exc:
            raise Raised(type(exc).__name__, e)
        except Exception as exc:
            if type(exc).__module__ == "struct":
                raise Raised("struct.error", e)
            raise

    def _ev(self, e, env):
        self.steps += 1
        if self.steps > 200000:
            raise Unsupported("evaluation does not terminate")
        if isinstance(e, ast.Constant):
            return e.value
        if isinstance(e, ast.Name):
            if e.id in env:
                return env[e.id]
            if e.id in self.globals:
                return self.globals[e.id]
            if e.id in BUILTIN_NAMES:
                return BUILTIN_NAMES[e.id]
            if e.id in ("str", "int", "bool", "bytes", "list", "tuple", "dict", "float"):
                return {"str": str, "int": int, "bool": bool, "bytes": bytes, "list": list, "tuple": tuple, "dict": dict, "float": float}[e.id]
            raise Unsupported(f"name {e.id}")
        if isinstance(e, ast.Attribute):
            base = self.ev(e.value, env)
            if isinstance(base, Obj):
                return base.get(e.attr)
            if type(base).__name__ == "Struct" and type(base).__module__ in ("_struct", "struct") and e.attr in ("size", "format", "unpack", "unpack_from", "pack"):
                return getattr(base, e.attr)
            extra = getattr(base, "_minipy_attrs", None)
            if isinstance(extra, dict) and e.attr in extra:
                return extra[e.attr]
            if base is None:
                raise Raised("AttributeError", e)
            raise Unsupported(f"attribute {norm(e)[:40]} of a {type(base).__name__}")
        if isinstance(e, ast.Tuple):
            return tuple(self.ev(x, env) for x in e.elts)
        if isinstance(e, ast.List):
            return [self.ev(x, env) for x in e.elts]
        if isinstance(e, ast.Set):
            return set(self.ev(x, env) for x in e.elts)
        if isinstance(e, ast.Dict):
            return {self.ev(k, env): self.ev(v, env) for k, v in zip(e.keys, e.values)}
        if isinstance(e, ast.Subscript):
            base = self.ev(e.value, env)
            if isinstance(e.slice, ast.Slice):
                lo = None if e.slice.lower is None else self.ev(e.slice.lower, env)
                hi = None if e.slice.upper is None else self.ev(e.slice.upper, env)
                return base[lo:hi]
            key = self.ev(e.slice, env)
            try:
                return base[key]
            except KeyError:
                raise Raised("KeyError", e)
            except IndexError:
                raise Raised("IndexError", e)
            except TypeError:
                raise Raised("TypeError", e)
        if isinstance(e, ast.BoolOp):
            if isinstance(e.op, ast.And):
                v = True
                for x in e.values:
                    v = self.ev(x, env)
                    if not v:
                        return v
                return v
            v = False
            for x in e.values:
                v = self.ev(x, env)
                if v:
                    return v
            return v
        if isinstance(e, ast.UnaryOp):
            v = self.ev(e.operand, env)
            if isinstance(e.op, ast.Not):
                return not v
            if isinstance(e.op, ast.USub):
                return -v
            raise Unsupported("unary operator")
        if isinstance(e, ast.BinOp):
            l, r = self.ev(e.left, env), self.ev(e.right, env)
            if isinstance(e.op, ast.Add):
                return l + r
            if isinstance(e.op, ast.Sub):
                return l - r
            if isinstance(e.op, ast.Mult):
                return l * r
            if isinstance(e.op, ast.Div):
                return l / r
            if isinstance(e.op, ast.FloorDiv):
                return l // r
            if isinstance(e.op, ast.Mod) and isinstance(l, int):
                return l % r
            if isinstance(e.op, ast.BitAnd):
                return l & r
            if isinstance(e.op, ast.BitOr):
                return l | r
            if isinstance(e.op, ast.Pow) and isinstance(l, int) and isinstance(r, int) and 0 <= r <= 64:
                return l ** r
            raise Unsupported("binary operator")
        if isinstance(e, ast.IfExp):
            return self.ev(e.body, env) if self.ev(e.test, env) else self.ev(e.orelse, env)
        if isinstance(e, ast.Compare):
            left = self.ev(e.left, env)
            for op, c in zip(e.ops, e.comparators):
                right = self.ev(c, env)
                if isinstance(op, ast.Eq):
                    r = left == right
                elif isinstance(op, ast.NotEq):
                    r = left != right
                elif isinstance(op, ast.Is):
                    r = left is right
                elif isinstance(op, ast.IsNot):
                    r = left is not right
                elif isinstance(op, ast.In):
                    r = left in right
                elif isinstance(op, ast.NotIn):
                    r = left not in right
                elif isinstance(op, ast.Lt):
                    r = left < right
                elif isinstance(op, ast.LtE):
                    r = left <= right
                elif isinstance(op, ast.Gt):
                    r = left > right
                elif isinstance(op, ast.GtE):
                    r = left >= right
                else:
                    raise Unsupported("comparison")
                if len(e.ops) == 1:
                    return r  # whatever the operands' rich comparison gives (a stand-in may record it)
                if not r:
                    return False
                left = right
            return True
        if isinstance(e, ast.Lambda):
            return Closure(e, env, self)
        if isinstance(e, (ast.ListComp, ast.SetComp, ast.GeneratorExp, ast.DictComp)):
            out = []

            def rec(k, env2):
                if k == len(e.generators):
                    if isinstance(e, ast.DictComp):
                        out.append((self.ev(e.key, env2), self.ev(e.value, env2)))
                    else:
                        out.append(self.ev(e.elt, env2))
                    return
                g = e.generators[k]
                for item in self.iterate(self.ev(g.iter, env2)):
                    env3 = dict(env2)
                    self.bind(g.target, item, env3)
                    if all(self.ev(c, env3) for c in g.ifs):
                        rec(k + 1, env3)

            rec(0, env)
            if isinstance(e, ast.DictComp):
                return dict(out)
            if isinstance(e, ast.SetComp):
                return set(out)
            return out
        if isinstance(e, ast.JoinedStr):
            return "<str>"
        if isinstance(e, ast.Call):
            return self.call(e, env)
        if isinstance(e, ast.NamedExpr):
            v = self.ev(e.value, env)
            self.bind(e.target, v, env)
            return v
        if isinstance(e, ast.YieldFrom):
            src = self.ev(e.value, env)
            if isinstance(src, GenResult) and src.raised is not None:
                env.setdefault("@yields", []).extend(list(src))
                raise src.raised
            env.setdefault("@yields", []).extend(self.iterate(src))
            return None
        if isinstance(e, ast.Yield):
            # a generator is run eagerly: what it yields is collected (call_function returns the list)
            env.setdefault("@yields", []).append(self.ev(e.value, env) if e.value is not None else None)
            return None
        raise Unsupported(f"expression {type(e).__name__}")

    @staticmethod
    def iterate(v):
        if isinstance(v, dict):
            return list(v)
        if isinstance(v, (list, tuple, set, range)) or hasattr(v, "__iter__"):
            return list(v)
        raise Unsupported("iteration over a non-container")

    def call(self, e: ast.Call, env):
        fn = norm(e.func)
        if any(fn.startswith(p) for p in self.ignore_calls):
            return None
        if fn == "cast" and len(e.args) == 2:
            return self.ev(e.args[1], env)
        args = [self.ev(a, env) for a in e.args if not isinstance(a, ast.Starred)]
        kw = {k.arg: self.ev(k.value, env) for k in e.keywords if k.arg}
        if isinstance(e.func, ast.Name):
            n = e.func.id
            if n in self.classes:
                return self.classes[n](*args, **kw)
            if n in env and callable(env[n]):
                return env[n](*args)
            simple = {"len": len, "bool": bool, "int": int, "list": list, "tuple": tuple, "dict": dict, "set": set, "str": lambda x="": getattr(x, "_minipy_str", "<str>") if not isinstance(x, str) else x, "enumerate": lambda x, s=0: list(enumerate(x, s)), "zip": lambda *a: list(zip(*a)), "range": range, "any": any, "all": all, "min": min, "max": max, "repr": lambda x: "<repr>", "UID": lambda x: x}
            if n in simple:
                return simple[n](*args, **kw)
            if n in ("getattr", "hasattr", "setattr") and n not in self.globals and args and isinstance(args[0], Obj):
                o_, nm_ = args[0], args[1]
                has = nm_ in o_.attrs or nm_ in getattr(o_, "alias", {}) or ("@" + nm_) in o_.attrs
                if n == "hasattr":
                    return has
                if n == "setattr":
                    o_.set(nm_, args[2])
                    return None
                if has:
                    return o_.get(nm_)
                if len(args) > 2:
                    return args[2]
                raise Raised("AttributeError", e)
            if n == "iter" and len(args) == 1:
                return GenResult(list(args[0]))
            if n == "next":
                it0 = args[0]
                if isinstance(it0, GenResult):
                    return it0.take()
                raise Unsupported("next() on something that is not a generator result")
            if n == "sorted":
                key = kw.get("key")
                rev = kw.get("reverse", False)
                return sorted(args[0], key=(lambda x: key(x)) if key is not None else None, reverse=rev)
            if n == "isinstance":
                v, t = args[0], e.args[1]
                names = [norm(x) for x in t.elts] if isinstance(t, ast.Tuple) else [norm(t)]
                if isinstance(v, Obj):
                    return v.cls in names or any(b_ in names for b_ in v.attrs.get("@bases", ()))
                pym = {"int": int, "str": str, "bool": bool, "list": list, "tuple": tuple, "dict": dict, "bytes": bytes, "float": float, "bytearray": bytearray, "Sequence": (list, tuple), "BaseTag": int, "MutableSequence": list}
                return any(isinstance(v, pym[x]) for x in names if x in pym)
            if n in self.globals and callable(self.globals[n]):
                return self.globals[n](*args, **kw)
            raise Unsupported(f"call of {n}")
        if isinstance(e.func, ast.Attribute):
            base = self.ev(e.func.value, env)
            m = e.func.attr
            if isinstance(base, list) and m in ("append", "extend", "insert", "pop", "remove", "index", "count", "sort", "copy"):
                return getattr(base, m)(*args, **kw)
            if isinstance(base, dict) and m in ("items", "values", "keys", "get", "pop", "setdefault", "update", "copy"):
                r = getattr(base, m)(*args)
                return list(r) if m in ("items", "values", "keys") else r
            if isinstance(base, set) and m in ("add", "discard", "remove"):
                return getattr(base, m)(*args)
            if isinstance(base, str) and m in ("strip", "lower", "upper", "startswith", "endswith", "split", "replace", "lstrip", "rstrip", "join", "isdigit", "find", "count"):
                return getattr(base, m)(*args)
            if isinstance(base, Obj):
                meth = base.attrs.get("@" + m)
                if meth is not None:
                    return meth(base, *args, **kw)
                if self.method_resolver is not None:
                    r = self.method_resolver(base.cls, m)
                    if r is not None:
                        fn, is_static = r
                        params = [a.arg for a in fn.args.args]
                        vals = list(args) if is_static else [base] + list(args)
                        bound = dict(zip(params, vals))
                        bound.update(kw)
                        return self.call_function(fn, bound)
            if base is None:
                raise Raised("AttributeError", e)
            if base is dict and m == "fromkeys":
                return dict.fromkeys(*args)
            allowed = getattr(base, "_minipy_methods", None)
            if allowed is not None and m in allowed:
                return getattr(base, m)(*args, **kw)
            if isinstance(base, (bytes, bytearray)) and m in ("decode", "startswith", "endswith", "find", "join", "hex"):
                return getattr(base, m)(*args, **kw)
            raise Unsupported(f"method {m} of a {type(base).__name__}")
        if isinstance(e.func, (ast.Call, ast.Subscript)):
            f_ = self.ev(e.func, env)
            if callable(f_):
                return f_(*args, **kw)
        raise Unsupported(f"call {fn[:40]}")

    # -- statements -------------------------------------------------------------------------------
    def bind(self, target, value, env):
        if isinstance(target, ast.Name):
            env[target.id] = value
        elif isinstance(target, (ast.Tuple, ast.List)):
            vals = list(value)
            if len(vals) != len(target.elts):
                raise Raised("ValueError", target)
            for t, v in zip(target.elts, vals):
                self.bind(t, v, env)
        elif isinstance(target, ast.Attribute):
            base = self.ev(target.value, env)
            if not isinstance(base, Obj):
                raise Unsupported(f"attribute store on a {type(base).__name__}")
            base.set(target.attr, value)
        elif isinstance(target, ast.Subscript):
            base = self.ev(target.value, env)
            base[self.ev(target.slice, env)] = value
        else:
            raise Unsupported("assignment target")

    def run(self, stmts, env):
        for s in stmts:
            self.stmt(s, env)

    def stmt(self, s, env):
        self.steps += 1
        if self.steps > 200000:
            raise Unsupported("evaluation does not terminate")
        if isinstance(s, ast.Assign):
            v = self.ev(s.value, env)
            for t in s.targets:
                self.bind(t, v, env)
        elif isinstance(s, ast.AnnAssign):
            if s.value is not None:
                self.bind(s.target, self.ev(s.value, env), env)
        elif isinstance(s, ast.AugAssign):
            cur = self.ev(ast.copy_location(_load(s.target), s.target), env)
            v = self.ev(s.value, env)
            if isinstance(s.op, ast.Add):
                if isinstance(cur, list):
                    cur.extend(v)
                    return
                self.bind(s.target, cur + v, env)
            elif isinstance(s.op, ast.Sub):
                self.bind(s.target, cur - v, env)
            else:
                raise Unsupported("augmented assignment")
        elif isinstance(s, ast.Expr):
            if not isinstance(s.value, ast.Constant):
                self.ev(s.value, env)
        elif isinstance(s, ast.If):
            self.run(s.body if self.ev(s.test, env) else s.orelse, env)
        elif isinstance(s, ast.For):
            broke = False
            for item in self.iterate(self.ev(s.iter, env)):
                self.bind(s.target, item, env)
                try:
                    self.run(s.body, env)
                except _Continue:
                    continue
                except _Break:
                    broke = True
                    break
            if not broke:
                self.run(s.orelse, env)
        elif isinstance(s, ast.While):
            n = 0
            while self.ev(s.test, env):
                n += 1
                if n > 1000:
                    raise Unsupported("while loop does not terminate")
                try:
                    self.run(s.body, env)
                except _Continue:
                    continue
                except _Break:
                    break
        elif isinstance(s, ast.Try):
            try:
                try:
                    self.run(s.body, env)
                except Raised as r:
                    for h in s.handlers:
                        names = [] if h.type is None else [norm(x) for x in h.type.elts] if isinstance(h.type, ast.Tuple) else [norm(h.type)]
                        if h.type is None or r.kind in names or "Exception" in names or "BaseException" in names or (r.kind in ("KeyError", "IndexError") and "LookupError" in names):
                            if h.name:
                                env[h.name] = Obj(r.kind)
                            self.run(h.body, env)
                            break
                    else:
                        raise
                else:
                    self.run(s.orelse, env)
            finally:
                self.run(s.finalbody, env)
        elif isinstance(s, ast.With):
            cms = []
            for item in s.items:
                cm = self.ev(item.context_expr, env)
                if not getattr(cm, "_minipy_cm", False):
                    raise Unsupported(f"with-statement over a {type(cm).__name__}")
                v = cm.__enter__()
                cms.append(cm)
                if item.optional_vars is not None:
                    self.bind(item.optional_vars, v, env)
            try:
                self.run(s.body, env)
            finally:
                for cm in reversed(cms):
                    cm.__exit__(None, None, None)
        elif isinstance(s, ast.Return):
            raise _Return(self.ev(s.value, env) if s.value is not None else None)
        elif isinstance(s, ast.Raise):
            kind = "Exception"
            if s.exc is not None:
                c = s.exc.func if isinstance(s.exc, ast.Call) else s.exc
                kind = norm(c)
            raise Raised(kind, s)
        elif isinstance(s, ast.Break):
            raise _Break()
        elif isinstance(s, ast.Continue):
            raise _Continue()
        elif isinstance(s, (ast.Pass, ast.Import, ast.ImportFrom, ast.Global, ast.Nonlocal)):
            pass
        elif isinstance(s, ast.Assert):
            if not self.ev(s.test, env):
                raise Raised("AssertionError", s)
        elif isinstance(s, ast.Delete):
            for t in s.targets:
                if isinstance(t, ast.Subscript):
                    base = self.ev(t.value, env)
                    try:
                        del base[self.ev(t.slice, env)]
                    except KeyError:
                        raise Raised("KeyError", s)
                elif isinstance(t, ast.Name):
                    env.pop(t.id, None)
                elif isinstance(t, ast.Attribute):
                    base = self.ev(t.value, env)
                    if not isinstance(base, Obj):
                        raise Unsupported("del of an attribute of something that is not a stand-in")
                    if t.attr not in base.attrs:
                        raise Raised("AttributeError", s)
                    del base.attrs[t.attr]
                else:
                    raise Unsupported("del target")
        else:
            raise Unsupported(f"statement {type(s).__name__} at line {getattr(s, 'lineno', '?')}")

    def call_function(self, fn: ast.FunctionDef, args: dict):
        """run `fn` with its parameters bound from `args` (defaults evaluated for the rest)"""
        env = {}
        params = fn.args.args
        defaults = fn.args.defaults
        for p, d in zip(params[len(params) - len(defaults):], defaults):
            env[p.arg] = self.ev(d, {})
        env.update(args)
        missing = [p.arg for p in params if p.arg not in env]
        if missing:
            raise Unsupported(f"parameters {missing} of {fn.name} not bound")
        body = fn.body
        is_gen = any(isinstance(x, (ast.Yield, ast.YieldFrom)) for x in walk_no_nested(fn))
        if is_gen:
            env["@yields"] = []
            try:
                self.run(body, env)
            except _Return:
                pass
            except Raised as r:
                if r.kind == "StopIteration":
                    r = Raised("RuntimeError", r.node)  # PEP 479
                if self.gen_partial:
                    return GenResult(env["@yields"], r)
                raise r
            return GenResult(env["@yields"])
        try:
            self.run(body, env)
        except _Return as r:
            return r.value
        return None


def _load(t):
    c = ast.parse(ast.unparse(t), mode="eval").body
    return c
