"""qrscp's database functions (apps/qrscp/db.py) evaluated with sa/minipy.py against stand-ins.

Nothing of sqlalchemy or pydicom is executed: the session, the query, the Instance columns, the data
set and its elements are stand-ins that only *record* - which column a filter compares, with which
operator and which value; which attribute of the Instance row add_instance sets to what. The module
tables of db.py (_ATTRIBUTES, _TRANSLATION, the level tables, the model lists) are evaluated from the
module's own source; the six information models are symbols.

Used by C29: (stored-form) the value add_instance indexes for a key and the value the single-value
search compares that column with have the same representation; (all-keys) search() constrains the
result by every key of the identifier at or above the query level, in one chained query."""

from __future__ import annotations

import ast

from .loader import AnalysisError, Repo, norm
from .minipy import Interp, Obj, Raised, Unsupported


class Cond:
    def __init__(self, op, col, value, extra=None):
        self.op, self.col, self.value, self.extra = op, col, value, extra

    def __repr__(self):
        return f"{self.col} {self.op} {self.value!r}"


class Col(Obj):
    """a column of the Instance table: comparisons give a recorded condition"""

    def __init__(self, name):
        super().__init__("Column", {})
        self.name = name
        self.attrs["@in_"] = lambda s, v: Cond("in", name, list(v))
        self.attrs["@like"] = lambda s, v, **kw: Cond("like", name, v, kw)
        self.attrs["@op"] = lambda s, o: (lambda v: Cond(str(o).upper(), name, v))
        for m_ in ("ilike", "startswith", "endswith", "contains", "regexp_match", "match", "glob", "notlike", "not_like"):
            self.attrs["@" + m_] = (lambda s, v=None, _m=m_, **kw: Cond(_m, name, v, kw))

    def __eq__(self, other):
        return Cond("==", self.name, other)

    def __ge__(self, other):
        return Cond(">=", self.name, other)

    def __le__(self, other):
        return Cond("<=", self.name, other)

    def __gt__(self, other):
        return Cond(">", self.name, other)

    def __lt__(self, other):
        return Cond("<", self.name, other)

    def __ne__(self, other):
        return Cond("!=", self.name, other)

    __hash__ = Obj.__hash__


class Query(Obj):
    def __init__(self, conds=(), rows=()):
        super().__init__("Query", {})
        self.conds = tuple(conds)
        self.rows = tuple(rows)
        self.attrs["@filter"] = lambda s, *c: Query(s.conds + tuple(c), s.rows)
        self.attrs["@all"] = lambda s: Result(s.conds, s.rows)
        self.attrs["@first"] = lambda s: s.rows[0] if s.rows else None

    def __bool__(self):  # `if not query:` - a Query object is truthy
        return True


class Result(list):
    """what query.all() returns: no rows (the database is empty), the conditions remembered"""

    def __init__(self, conds, rows=()):
        super().__init__(rows)
        self.conds = conds


class ISValue(int):
    """pydicom's IS: an int whose str() is the text the element carried"""

    def __new__(cls, text):
        o = super().__new__(cls, int(text))
        o._minipy_str = text
        return o


class PNValue:
    """pydicom's PersonName: not a str, str() gives the encoded components"""

    def __init__(self, text):
        self._minipy_str = text

    def __bool__(self):
        return bool(self._minipy_str)

    def __len__(self):
        return len(self._minipy_str)

    def __eq__(self, other):
        return isinstance(other, PNValue) and other._minipy_str == self._minipy_str or other == self._minipy_str

    def __hash__(self):
        return hash(self._minipy_str)

    def __repr__(self):
        return f"PersonName({self._minipy_str!r})"


def _vm(value):
    if value is None or (isinstance(value, str) and value == ""):
        return 0
    return len(value) if isinstance(value, list) else 1


class DS(Obj):
    """a pydicom Dataset as far as db.py uses one: keyword access, `in`, iteration over elements, len"""

    def __init__(self, vr_of):
        super().__init__("Dataset", {})
        self.vr_of = vr_of
        self.elems = {}
        self.attrs["@get"] = lambda s, k, d=None: s.elems[k].get("value") if k in s.elems else d

    def put(self, kw, value):
        self.elems[kw] = Obj("DataElement", {"keyword": kw, "VR": self.vr_of(kw), "value": value, "VM": _vm(value)})

    def get(self, name):
        if name in self.elems:
            return self.elems[name].get("value")
        if name in self.attrs:
            return self.attrs[name]
        raise Raised("AttributeError")

    def set(self, name, value):
        self.put(name, value)

    def __contains__(self, kw):
        return kw in self.elems

    def __iter__(self):
        return iter(list(self.elems.values()))

    def __len__(self):
        return len(self.elems)

    def __getitem__(self, kw):
        return self.elems[kw]

    def __bool__(self):
        return True


MODELS = (
    "PatientRootQueryRetrieveInformationModelFind", "PatientRootQueryRetrieveInformationModelMove", "PatientRootQueryRetrieveInformationModelGet",
    "StudyRootQueryRetrieveInformationModelFind", "StudyRootQueryRetrieveInformationModelMove", "StudyRootQueryRetrieveInformationModelGet",
)


class QREval:
    def __init__(self, repo: Repo):
        self.repo = repo
        self.db = repo.mod("apps.qrscp.db")
        self.vr = {}
        try:
            from pydicom.datadict import dictionary_VR, tag_for_keyword  # the data dictionary only (a table)

            self._dict = lambda kw: dictionary_VR(tag_for_keyword(kw)) if tag_for_keyword(kw) is not None else "LO"
        except ImportError:
            self._dict = None
        ci = self.db.classes.get("Instance")
        if ci is None:
            raise AnalysisError("apps.qrscp.db.Instance vanished")
        self.columns = sorted(norm(s.targets[0]) for s in ci.node.body if isinstance(s, ast.Assign) and isinstance(s.targets[0], ast.Name) and isinstance(s.value, ast.Call) and norm(s.value.func) == "Column")
        if len(self.columns) < 12:
            raise AnalysisError("apps.qrscp.db.Instance: the columns are no longer `name = Column(..)` class attributes")
        self.instance_cls = Obj("InstanceClass", {c: Col(c) for c in self.columns})
        self.made = []

        def new_instance():
            o = Obj("Instance", {c: None for c in self.columns})
            self.made.append(o)
            return o

        def _delattr(o, n):
            if isinstance(o, DS):
                if n not in o.elems:
                    raise Raised("AttributeError")
                del o.elems[n]
            else:
                o.attrs.pop(n, None)

        g = {
            "Instance": self.instance_cls,
            "OrderedDict": lambda *a, **k: dict(*a, **k),
            "getattr": lambda o, n, *d: o.get(n),
            "setattr": lambda o, n, v: o.set(n, v),
            "delattr": _delattr,
            "hasattr": lambda o, n: isinstance(o, Obj) and (n in o.attrs or (isinstance(o, DS) and n in o.elems)),
        }
        for m in MODELS:
            g[m] = Obj("UID", {"name": m})
        self.it = Interp(g, classes={"Dataset": lambda: DS(self.vr_of)}, ignore_calls=("LOGGER.", "print"))
        # Instance is both `Instance()` and `Instance.column`
        self.it.classes["Instance"] = new_instance
        self.it.classes["InvalidIdentifier"] = lambda *a: Obj("InvalidIdentifier")
        # module tables and functions, in source order
        for s in self.db.tree.body:
            if isinstance(s, ast.Assign) and len(s.targets) == 1 and isinstance(s.targets[0], ast.Name) and s.targets[0].id.startswith("_"):
                try:
                    self.it.globals[s.targets[0].id] = self.it.ev(s.value, {})
                except (Unsupported, Raised):
                    pass
        for name, fn in self.db.funcs.items():
            self.it.globals[name] = self._callable(fn)
        for need in ("_ATTRIBUTES", "_TRANSLATION", "_PATIENT_ROOT", "_STUDY_ROOT"):
            if need not in self.it.globals:
                raise AnalysisError(f"apps.qrscp.db.{need} is no longer an evaluable module table")

    def vr_of(self, kw):
        if self._dict is not None:
            return self._dict(kw)
        t = self.it.globals["_ATTRIBUTES"].get(kw)
        return t[2] if t else "LO"

    def _callable(self, fn):
        params = [a.arg for a in fn.args.args]

        def call(*args, **kw):
            bound = dict(zip(params, args))
            bound.update(kw)
            return self.it.call_function(fn, bound)

        return call

    def session(self, rows=()):
        s = Obj("Session", {})
        s.attrs["@query"] = lambda s_, *a: Query((), rows)
        s.attrs["@add"] = lambda s_, *a: None
        s.attrs["@commit"] = lambda s_: None
        s.attrs["@rollback"] = lambda s_: None
        return s

    def dataset(self, values: dict) -> DS:
        ds = DS(self.vr_of)
        for k, v in values.items():
            ds.put(k, v)
        return ds

    # -- the two evaluations --------------------------------------------------------------------------
    def stored(self, values: dict, existing: dict | None = None) -> dict:
        """column -> value add_instance() sets on the row for a data set with `values`; with `existing` the
        database already holds a row for that SOP Instance UID (the update path)"""
        ds = self.dataset(values)
        ds.attrs["file_meta"] = Obj("FileMeta", {"TransferSyntaxUID": "1.2.840.10008.1.2"})
        self.made.clear()
        self.it.steps = 0
        rows = ()
        if existing is not None:
            row = Obj("Instance", {c: None for c in self.columns})
            row.attrs.update(existing)
            rows = (row,)
        self.it.globals["add_instance"](ds, self.session(rows), "f.dcm")
        if existing is not None:
            if self.made:
                raise Unsupported("add_instance created a second row for an instance that is already indexed")
            return dict(rows[0].attrs)
        if len(self.made) != 1:
            raise Unsupported("add_instance did not create exactly one Instance row")
        return dict(self.made[0].attrs)

    def search(self, model: str, values: dict, fname: str = "search"):
        """-> ('conds', [Cond..]) | ('raised', kind)"""
        self.it.steps = 0
        ident = self.dataset(values)
        try:
            r = self.it.globals[fname](self.it.globals[model], ident, self.session())
        except Raised as exc:
            return "raised", exc.kind
        if not isinstance(r, Result):
            raise Unsupported(f"{fname}() returned something other than query.all()")
        return "conds", list(r.conds)

    def conds_for(self, values: dict):
        """build_query() on an identifier with `values` -> ('conds', [Cond..]) | ('raised', kind)"""
        self.it.steps = 0
        try:
            r = self.it.globals["build_query"](self.dataset(values), self.session(), None)
        except Raised as exc:
            return "raised", exc.kind
        if r is None:
            return "conds", []
        if not isinstance(r, Query):
            raise Unsupported("build_query() returned something other than a query")
        return "conds", list(r.conds)
