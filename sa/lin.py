"""Integer-coefficient linear forms over hashable atoms ('const' is the constant term)."""


class Lin(dict):
    @staticmethod
    def const(k):
        return Lin({"const": k}) if k else Lin()

    @staticmethod
    def atom(a, k=1):
        return Lin({a: k})

    def add(self, o, k=1):
        r = Lin(self)
        for a, c in o.items():
            v = r.get(a, 0) + k * c
            if v:
                r[a] = v
            else:
                r.pop(a, None)
        return r

    def subst_zero(self, pred):
        return Lin({a: c for a, c in self.items() if a == "const" or not pred(a)})

    def subst(self, mapping):
        r = Lin()
        for a, c in self.items():
            if a in mapping:
                r = r.add(mapping[a], c)
            else:
                r = r.add(Lin({a: c}))
        return r

    def show(self):
        if not self:
            return "0"
        parts = []
        for a, c in sorted(self.items(), key=lambda x: str(x[0])):
            if a == "const":
                parts.append(str(c))
            else:
                name = a if isinstance(a, str) else f"{a[0]}({a[1]})"
                parts.append(name if c == 1 else f"{c}*{name}")
        return " + ".join(parts)
