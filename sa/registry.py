"""Which properties are claimed, at which level, with which technique (source of MANIFEST.json)."""

CLAIMED = {
    "C01": dict(
        level="other",
        text="Table-driven codec decided from its tables: for all 23 PDU/item classes the encoder rows are "
        "compared position by position with a hand transcription of PS3.8 9-11..9-26 / PS3.7 Annex D; all "
        "length properties are summarised symbolically on every path and compared with what follows the "
        "length field; decoder offsets (including length-dependent generator forms) are matched against the "
        "encoder's cumulative offsets, widths, unpackers and coverage; type tables, helper encoders and "
        "from/to_primitive parameter sets are cross-checked. Holds for every field value because no rule "
        "depends on a value. 'other' rather than 'proof': value-level string handling is not decided.",
        note="Trusted: CPython ast; spec/ps3_8_pdu_layout.json; the symbolic length/offset model in sa/pdu_model.py "
        "(any unmodelled expression shape is ANALYSIS-ERROR). Not decided: set_ae/set_uid/decode_bytes semantics, "
        "i.e. which strings are accepted or stripped.",
        technique="static evaluation of encoder/decoder tables + symbolic (affine) length and offset summaries, compared with a spec transcription (ast)",
        ref="4/C01",
    ),
    "C03": dict(
        level="other",
        text="Exact-count framing decided structurally: AssociationSocket.recv(n) never asks the socket for more "
        "than the remaining count on any path (typestate over the clamp), appends and counts exactly what it read and "
        "exits only on count reached or EOF; _read_pdu_data reads exactly 6 then exactly pdu_length bytes, every short or "
        "failed read is Evt17 and the length test dominates decoding; one event/PDU per call from a single reader.",
        note="Trusted: CPython ast and socket.recv's contract (returns at most the requested number of bytes, b'' on EOF). "
        "Not decided: timing of inter-chunk gaps (C08), TLS record buffering, kernel behaviour.",
        technique="structural matching + typestate/dominance over a hand-built CFG (ast)",
        ref="4/C03",
    ),
    "C04": dict(
        level="proof",
        text="Finite and exhaustive: all 247 (event, state) pairs of TRANSITION_TABLE compared with a "
        "hand transcription of PS3.8 Table 9-10, and every control-flow path of the 28 action "
        "functions compared with the effects and next states of Tables 9-6..9-9; dispatcher and "
        "event maps checked structurally. The right level because the property is a finite table "
        "plus straight-line code: a static reading decides it for every pair, not a sample.",
        note="Trusted: CPython ast; the transcription in spec/ps3_8_fsm.json; the effect vocabulary "
        "in sa/fsm_model.py (an unrecognised provider call in an action is ANALYSIS-ERROR, not a pass). "
        "Exceptions escaping an action are C02/C05's subject, not judged here.",
        technique="static table evaluation + per-path effect extraction over a hand-built CFG (ast)",
        ref="4/C04",
    ),
    "C10": dict(
        level="other",
        text="SCP_SCU_ROLES is evaluated statically and compared with the PS3.7 D.3.3.4 formula on all 45 cells; the "
        "role sections of negotiate_as_acceptor and negotiate_unrestricted are extracted by shape into parameter "
        "records from which the acceptor's decision table over every (proposal, supported-role setting) is computed "
        "(no role beyond the proposal, never accepted without a usable role); a typestate proves one result per "
        "proposed context on every path; iteration independence (no loop-carried local state), reply-map ownership, "
        "transfer-syntax loop, result codes per branch and ACSE's mode selection are structural.",
        note="Trusted: CPython ast; spec/ps3_7_roles.json (the formula); the shape extraction in sa/nego_model.py (an "
        "unrecognised shape is ANALYSIS-ERROR). Not decided: functional correctness over all proposal lists "
        "(dict-key collisions, duplicate context IDs), UID string semantics.",
        technique="static table evaluation vs a formula + shape-extracted decision tables + path typestate and def-before-use dataflow over a hand-built CFG (ast)",
        ref="4/C10",
    ),
    "C11": dict(
        level="other",
        text="Acceptor and requestor role logic, the requestor's None->False normalisation and the role sub-item codec "
        "are extracted by shape and composed over the complete finite role space (10 proposals x 9 acceptor settings "
        "in normal mode, 10 in unrestricted mode): same acceptance and complementary roles at every point. "
        "negotiate_as_requestor is checked structurally (one output per requested id, syntax/result from the reply with "
        "that id, missing ids rejected, no loop-carried state); the wire leg is the layout of the three items involved.",
        note="Trusted: CPython ast; C01's codec model; sa/nego_model.py shape extraction. Not decided: encoding of "
        "arbitrary UID strings; that the peer is pynetdicom is assumed by the property itself.",
        technique="composition of shape-extracted decision tables over a finite role space (exhaustive) + structural def-use checks (ast)",
        ref="4/C11",
    ),
    "C13": dict(
        level="other",
        text="Path rule on ACSE._negotiate_as_acceptor: a typestate shows that a decided rejection triple is never "
        "withdrawn and always ends in send_reject/EVT_REJECTED/kill/return, never in send_accept or is_established = True; "
        "every policy test is matched with its documented operands (stripped calling list only when non-empty, stripped own "
        "title only when enabled, identity verdict) and triple (PS3.8 Table 9-21 / docs); _check_user_identity's paths are "
        "enumerated; handlers are reachable only through the established-association reactor (who-may-call).",
        note="Trusted: CPython ast; PS3.8 Table 9-21 transcription in spec/ps3_8_fsm.json. Not decided: string comparison "
        "semantics beyond strip() (case, embedded spaces are compared as-is, which is what the property states).",
        technique="typestate + dominance over a hand-built CFG, path enumeration, who-may-call queries (ast)",
        ref="4/C13",
    ),
    "C14": dict(
        level="other",
        text="The schedule quantifier is discharged by a counting argument (written out in the evidence) whose premises are "
        "structural and checked: the limit test dominates acceptance; the counted population is the AE's live acceptor "
        "association threads; the test runs inside the counted thread (who-may-call); the comparison is strict-greater against "
        "the configured maximum; the rejection is (2, 3, 2).",
        note="Trusted: CPython ast; threading.enumerate() lists every started, unfinished thread including the caller; an "
        "established association's thread is alive (the reactor runs in it).",
        technique="premise checking for a written counting argument: dominance, who-may-call and expression matching (ast)",
        ref="4/C14",
    ),
    "C15": dict(
        level="other",
        text="Structural decision of the fragmentation protocol: the PDV overhead is derived from the "
        "statically evaluated PDV codec table, every fragment-size/count/read site must subtract one "
        "common constant >= it, the rejected range ends at overhead+1, 0 means one fragment on all three "
        "paths; a typestate over every path of encode_msg proves one PDV per P-DATA, command before data, "
        "non-last headers in loops and exactly one last header per part, no fragment lost; the reader's "
        "masks are evaluated on the writer's four header literals; maximum_pdu_size is the peer's limit.",
        note="Trusted: CPython ast, C01's codec model. Byte equality of the reassembled streams for all lengths "
        "follows from slicing arithmetic that is matched structurally (shape of the generator), not proved; "
        "pydicom's command-set codec is outside the analysed program.",
        technique="constant agreement against a derived overhead + path typestate over a hand-built CFG (ast)",
        ref="4/C15",
    ),
    "C17": dict(
        level="other",
        text="Table agreement: the five literal tables that drive primitive <-> command-set conversion "
        "are evaluated statically and cross-checked against each other, against the attribute sets of "
        "the 12 primitive classes and against a hand transcription of PS3.7 E.1-1 / 9.3 / 10.3, for "
        "all 23 message types; the two generic copy loops and the class-name arithmetic are matched "
        "structurally. Catches the symmetric mistakes (a keyword the primitive lacks, a swapped command "
        "field, a wrong data-set keyword) that a round-trip test cannot see.",
        note="Trusted: CPython ast; spec/ps3_7_command.json. Not decided: parameter setters' value ranges and "
        "pydicom's encode/decode of the command set.",
        technique="static evaluation and cross-checking of literal tables against class attribute sets and a spec transcription (ast)",
        ref="4/C17",
    ),
    "C28": dict(
        level="proof",
        text="Exhaustive over a finite space: code_to_category's clause chain is read from the syntax "
        "tree and evaluated on all 65536 status values against the PS3.7 Annex C classes; all status "
        "tables are rebuilt statically (literals, range loops, .update) and every one of their entries "
        "compared with that map; the SCU/SCP finality tests are shown to read those sources.",
        note="Trusted: CPython ast; spec/ps3_7_status.json (hand transcription of PS3.7 Annex C); the "
        "module-level table interpreter in sa/consteval.py (an unmodelled write to a table is "
        "ANALYSIS-ERROR). Tables added at run time by users are outside the analysed program.",
        technique="static evaluation of literal tables and an if-chain into an interval map (ast), exhaustive comparison",
        ref="4/C28",
    ),
}

# Entries below take their level text from the rule module's EXPLANATION (tools/gen_manifest.py).
CLAIMED.update({
    "C07": dict(
        level="other",
        note="Trusted: CPython ast; the frozen who-may-consume table (a new consumer is a violation until read). Not decided: "
        "arrival timing, and that the peer receives the response (transport).",
        technique="who-may-call enumeration + function summary + path typestate (consume => answer) over a hand-built CFG (ast)",
        ref="4/C07",
    ),
    "C09": dict(
        level="proof",
        note="Trusted: CPython ast; time.monotonic's contract. The two users of Timer only call start/stop/restart and read "
        ".expired/.remaining (checked). 'proof' because Timer is five straight-line methods evaluated symbolically over all 8 "
        "flag combinations.",
        technique="clock-source dataflow + symbolic (linear) evaluation of straight-line methods against a reference (ast)",
        ref="4/C09",
    ),
    "C16": dict(
        level="proof",
        note="Trusted: CPython ast; BytesIO truthiness (an object without __bool__/__len__ is truthy). The abstract domain is "
        "finite and explored exhaustively; an unmodelled statement in either function is ANALYSIS-ERROR.",
        technique="abstract interpretation of two functions over a finite product domain, predicate agreement on every point; who-writes/who-calls queries (ast)",
        ref="4/C16",
    ),
    "C20": dict(
        level="other",
        note="Trusted: CPython ast; the statically extracted code_to_category chain (C28). Not decided: what the DIMSE provider "
        "does with the response after send_msg; abort/release races between the SCP and the peer.",
        technique="final-response typestate over a hand-built CFG with exception edges and a suppressing context manager (ast)",
        ref="4/C20",
    ),
    "C22": dict(
        level="other",
        note="Trusted: CPython ast; statically evaluated STORAGE_SERVICE_CLASS_STATUS categories. Not decided: the C-STORE "
        "sub-operation itself (C18/C24) and the handler's announced N being truthful.",
        technique="conservation-law dataflow (delta-vector typestate) over a hand-built CFG; sibling comparison (ast)",
        ref="4/C22",
    ),
    "C24": dict(
        level="other",
        note="Trusted: CPython ast. Not decided: what the peer sends, timing, and which other locks user code holds.",
        technique="path typestate over a hand-built CFG (yield counting, checkpoint must-pass) + lexical lock-region containment (ast)",
        ref="4/C24",
    ),
})

CLAIMED.update({
    "C23": dict(
        level="other",
        note="Trusted: CPython ast; the frozen who-writes table for cancel_req. Not decided: arrival-time races between the "
        "provider thread inserting and the association thread clearing (a cancel that overtakes the start of its own operation "
        "is emptied by the pre-clear: schedule-dependent, outside a static argument).",
        technique="def-use of the dictionary key + guard extraction + dominance / must-pass over a hand-built CFG + who-writes query (ast)",
        ref="4/C23",
    ),
})

CLAIMED.update({
    "C02": dict(
        level="other",
        note="Trusted: CPython ast; C01's codec model; the syntactic package-internal call resolution of sa/escape.py (unresolved "
        "calls are listed in the evidence). Not decided: that every PS3.8-conformant PDU is accepted, and value-level re-encode "
        "fixed points over all byte strings (string stripping / codecs).",
        technique="typestate over a hand-built CFG (one event per outcome) + call-graph escape analysis of raise sites + loop-progress check + symbolic length summaries (ast)",
        ref="4/C02",
    ),
    "C05": dict(
        level="other",
        note="Trusted: CPython ast; C04's verified table and per-action effects; Timer semantics decided by C09. Not decided: which "
        "(user-originated event, state) pairs the local association thread can produce under all interleavings (schedule-"
        "quantified); one genuine ARTIM finding is listed in known_findings.json.",
        technique="must-pass-through on action paths + fixpoint over (FSM state x abstract ARTIM state) + escape analysis (ast)",
        ref="4/C05",
    ),
    "C12": dict(
        level="other",
        note="Trusted: CPython ast. Not decided: the validators' semantics on arbitrary strings (VR rules), user-supplied "
        "extended-negotiation items.",
        technique="dominance over a hand-built CFG + shape matching of the item builders + who-writes queries on wire string fields (ast)",
        ref="4/C12",
    ),
    "C19": dict(
        level="other",
        note="Trusted: CPython ast; method resolution by name inside the service_class* modules. Not decided: what abort() then "
        "does on the wire; data-set fragments of one message arriving on a different context id than its command fragments.",
        technique="who-may-call closure over the service-class family + dominance of the accepted-context lookup over a hand-built CFG + def-use of the context id (ast)",
        ref="4/C19",
    ),
    "C26": dict(
        level="other",
        note="Trusted: CPython ast; logging does not raise into its caller. Not decided: byte-identical exchanges (a handler may "
        "itself call abort()/release()), side effects of logging.",
        technique="try/handler shape analysis + typestate correlated with the event-kind test over a hand-built CFG + enclosure check of every intervention trigger site (ast)",
        ref="4/C26",
    ),
    "C30": dict(
        level="other",
        note="Trusted: CPython ast and re._parser (used on literal patterns only); POSIX/NT semantics that opening an existing "
        "directory for writing fails. Not decided: symlinks planted inside the storage directory, the database engine's own files, "
        "paths read back from the database (guarded at the point they are stored).",
        technique="intraprocedural path taint analysis with a regex-AST sanitiser check over every write sink in pynetdicom/apps (ast)",
        ref="4/C30",
    ),
})

CLAIMED.update({
    "C25": dict(
        level="other",
        note="Trusted: CPython ast; zlib's raw-deflate convention; pydicom's read_dataset/write_dataset/write_file_meta_info. "
        "NOT decided: the property's core - equality of the decoded data set with the original for every VR and value - is "
        "pydicom's codec and outside any static argument here; only the named structural necessary conditions are decided.",
        technique="call-site argument matching against read callee signatures (siblings, 45 sites) + shape checks of the deflate and chunked paths + dominance over a hand-built CFG (ast)",
        ref="4/C25",
    ),
})

CLAIMED.update({
    "C18": dict(
        level="other",
        note="Trusted: CPython ast; the role table ROLE_NEEDED in sa/rules/c18.py (PS3.7: every DIMSE request except N-EVENT-REPORT "
        "is issued by the SCU). Not decided: pydicom's conversion between transfer syntaxes; what user code passes as SOP class "
        "or meta SOP class. Two genuine findings pinned by the suite are listed in known_findings.json.",
        technique="structural decision of one selector function + sibling def-use records over 13 senders + call-site matching in the service classes (ast)",
        ref="4/C18",
    ),
})

CLAIMED.update({
    "C21": dict(
        level="other",
        note="Trusted: CPython ast; the project's documentation (docs/service_classes/*.rst tables and the handler docstrings in "
        "_handlers.py) as the oracle for 'documented' - it is parsed from /repo on every run, so a change of code and docs "
        "together is, by the property's own wording, still documented. Not decided: that the data set reaches the requestor "
        "unchanged (C25/C18 hold the structural part), validity of status values the handler chooses.",
        technique="decision-list extraction from if/elif chains + structural cause classification of failure-code sites compared with parsed documentation tables + def-use of the response data set (ast)",
        ref="4/C21",
    ),
})

CLAIMED.update({
    "C27": dict(
        level="other",
        note="Trusted: CPython ast; C05's kill-on-idle rule (with it, close-once becomes close-last); C04's action model. Not "
        "decided: cross-thread ordering of notifications (association thread vs provider thread), what user handlers do.",
        technique="def-use of notification attributes + dominance over hand-built CFGs + per-path trigger counting in the 28 actions + who-writes / who-triggers enumeration (ast)",
        ref="4/C27",
    ),
})

CLAIMED.update({
    "C29": dict(
        level="other",
        note="Trusted: CPython ast; SQLite's documented LIKE (case-insensitive for ASCII, ESCAPE clause) and GLOB (case-sensitive, "
        "'*' '?' '[' special) semantics; my reading of PS3.4 C.2.2.2 in expected(). NOT decided: equality of the returned "
        "entity set with PS3.4 matching over all databases and identifiers (SQL semantics, optional keys, sequence matching); "
        "the per-entity finding is listed in known_findings.json.",
        technique="abstract evaluation of a dispatch if-chain over a finite (VR class x value shape) domain + per-path replacement-chain extraction before pattern sinks + shape matching of filter expressions (ast)",
        ref="4/C29",
    ),
})

CLAIMED.update({
    "C08": dict(
        level="other",
        note="Trusted: CPython ast; CPython's socket semantics (a socket returned by accept() is blocking regardless of the listening "
        "socket's timeout); the frozen WAIT_TABLE / SPIN_TABLE in sa/rules/c08.py. NOT decided: elapsed time and 'plus a small "
        "margin' - no static argument bounds time; user handlers that block; the two recv-bounded findings are listed in "
        "known_findings.json.",
        technique="socket-timeout typestate over a hand-built CFG + call-site argument resolution for every blocking wait + frozen who-waits tables with structural discharge (ast)",
        ref="4/C08",
    ),
})

PENDING = "designed in DESIGN.md section 4, checker not built yet - not claimed through a stub"

NOT_APPLICABLE = {
    "C06": "termination and outcome agreement of two communicating reactors under all thread "
    "interleavings is a schedule/liveness property; no sound static bound in reach, and a "
    "flag-pairing lint would be a brittle proxy (schedule-free fragments are covered by C04, C07, C27)",
}
