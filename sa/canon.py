"""Canonical form of conditionals, applied to every module right after parsing.

`if not C: A else: B` and `if C: B else: A` are the same program; so are `not a == b` / `a != b`,
`not a is None` / `a is not None`, `not a in b` / `a not in b`.  Rules match the shape of tests, so
the tree is brought to one canonical spelling first: a negated test with a plain `else` is flipped to
the positive test, and a negated single comparison is folded into the comparison operator.  elif
chains are left alone (flipping would nest them differently).  The transformation is semantics
preserving (for ==/!=, is/is not, in/not in Python defines the negated operator as the negation;
user-defined __eq__/__ne__ pairs that disagree do not occur on the values the rules look at, and
bodies of __eq__/__ne__ themselves are not touched)."""

from __future__ import annotations

import ast

_NEG = {ast.Eq: ast.NotEq, ast.NotEq: ast.Eq, ast.Is: ast.IsNot, ast.IsNot: ast.Is, ast.In: ast.NotIn, ast.NotIn: ast.In}


def benign_log_arg(e) -> bool:
    """a logging argument outside any except handler: additionally plain attribute chains on names and
    type(x).__name__ are taken to do nothing. No rule models an attribute read as something that can raise,
    except C26's handler-total, which is about trigger()'s except body - there (and in every other except
    handler) only the strict `inert` applies."""
    if inert(e):
        return True
    if isinstance(e, ast.Attribute):
        return benign_log_arg(e.value)
    if isinstance(e, ast.Call) and isinstance(e.func, ast.Name) and e.func.id == "type" and len(e.args) == 1 and not e.keywords:
        return benign_log_arg(e.args[0])
    if isinstance(e, ast.JoinedStr):
        return all(benign_log_arg(v) for v in e.values)
    if isinstance(e, ast.FormattedValue):
        return benign_log_arg(e.value)
    if isinstance(e, ast.BinOp) and isinstance(e.op, (ast.Add, ast.Mod)):
        return benign_log_arg(e.left) and benign_log_arg(e.right)
    if isinstance(e, ast.Tuple):
        return all(benign_log_arg(v) for v in e.elts)
    if isinstance(e, ast.Call) and isinstance(e.func, ast.Name) and e.func.id in ("str", "repr") and len(e.args) == 1 and not e.keywords:
        return benign_log_arg(e.args[0])
    return False


def inert(e) -> bool:
    """evaluating `e` cannot do anything observable: constants, plain names, f-strings / concatenations /
    tuples of those, and str() / repr() of those (an attribute read or any other call can raise or run code)"""
    if isinstance(e, (ast.Constant, ast.Name)):
        return True
    if isinstance(e, ast.JoinedStr):
        return all(inert(v) for v in e.values)
    if isinstance(e, ast.FormattedValue):
        return inert(e.value)
    if isinstance(e, ast.BinOp) and isinstance(e.op, (ast.Add, ast.Mod)):
        return inert(e.left) and inert(e.right)
    if isinstance(e, ast.Tuple):
        return all(inert(v) for v in e.elts)
    if isinstance(e, ast.Call) and isinstance(e.func, ast.Name) and e.func.id in ("str", "repr") and len(e.args) == 1 and not e.keywords:
        return inert(e.args[0])
    return False


class Canon(ast.NodeTransformer):
    def __init__(self):
        self.flipped = 0
        self.folded = 0
        self.stripped = 0
        self._skip = 0
        self._skip_strip = False
        self._in_handler = 0

    def visit_ExceptHandler(self, node):
        self._in_handler += 1
        self.generic_visit(node)
        self._in_handler -= 1
        return node

    def visit_FunctionDef(self, node):
        skip = node.name in ("__eq__", "__ne__")
        self._skip += skip
        self._fdepth = getattr(self, "_fdepth", 0) + 1
        self.generic_visit(node)
        self._fdepth -= 1
        self._skip -= skip
        return node

    def visit_AnnAssign(self, node):
        """inside a function `x: T = v` is `x = v` and a bare `x: T` is nothing: one spelling, so that adding (or
        removing) annotations on locals and instance attributes changes no verdict"""
        self.generic_visit(node)
        if getattr(self, "_fdepth", 0) <= 0:
            return node
        if node.value is None:
            return ast.copy_location(ast.Pass(), node)
        return ast.copy_location(ast.Assign(targets=[node.target], value=node.value), node)

    def visit_UnaryOp(self, node):
        self.generic_visit(node)
        if self._skip:
            return node
        if isinstance(node.op, ast.Not):
            o = node.operand
            if isinstance(o, ast.Compare) and len(o.ops) == 1 and type(o.ops[0]) in _NEG:
                new = ast.Compare(left=o.left, ops=[_NEG[type(o.ops[0])]()], comparators=o.comparators)
                self.folded += 1
                return ast.copy_location(new, node)
            if isinstance(o, ast.UnaryOp) and isinstance(o.op, ast.Not) and False:
                return o.operand
        return node

    def visit_Compare(self, node):
        self.generic_visit(node)
        if self._skip or len(node.ops) != 1:
            return node
        op, right = node.ops[0], node.comparators[0]
        # constant on the right for the symmetric operators (`2 == x` -> `x == 2`)
        if isinstance(op, (ast.Eq, ast.NotEq, ast.Is, ast.IsNot)) and isinstance(node.left, ast.Constant) and not isinstance(right, ast.Constant):
            node.left, node.comparators = right, [node.left]
            self.folded += 1
        # one literal container kind in membership tests (`x in (a, b)` -> `x in [a, b]`)
        if isinstance(op, (ast.In, ast.NotIn)) and isinstance(right, (ast.Tuple, ast.Set)):
            node.comparators = [ast.copy_location(ast.List(elts=right.elts, ctx=ast.Load()), right)]
            self.folded += 1
        return node

    def _strip_logging(self, stmts):
        """logging has no part in any property: drop `LOGGER.x(..)` / `logger.x(..)` statements"""
        out = []
        for s in stmts:
            if isinstance(s, ast.Expr) and isinstance(s.value, ast.Call) and isinstance(s.value.func, ast.Attribute) and isinstance(s.value.func.value, ast.Name) and s.value.func.value.id.lower().endswith("logger") and s.value.func.attr in ("debug", "info", "warning", "error", "exception", "critical", "log"):
                # only when evaluating the arguments cannot do anything: constants, plain names, and
                # f-strings / concatenations of those (an attribute read or a call in a log argument can raise)
                ok_arg = inert if self._in_handler else benign_log_arg
                if all(ok_arg(a) for a in s.value.args) and all(ok_arg(k.value) for k in s.value.keywords):
                    self.stripped += 1
                    continue
            out.append(s)
        if not out:
            out = [ast.copy_location(ast.Pass(), stmts[0])] if stmts else []
        return out

    def generic_visit(self, node):
        super().generic_visit(node)
        if not self._skip_strip:
            for fld in ("body", "orelse", "finalbody"):
                v = getattr(node, fld, None)
                if isinstance(v, list) and v and all(isinstance(x, ast.stmt) for x in v):
                    setattr(node, fld, self._strip_logging(v))
        return node

    def _flip(self, node):
        t = node.test
        if isinstance(t, ast.UnaryOp) and isinstance(t.op, ast.Not):
            node.test = t.operand
            node.body, node.orelse = node.orelse, node.body
            self.flipped += 1
        elif isinstance(t, ast.Compare) and len(t.ops) == 1 and isinstance(t.ops[0], (ast.NotEq, ast.IsNot, ast.NotIn)):
            # canonical polarity: the positive operator decides, the branches swap
            node.test = ast.copy_location(ast.Compare(left=t.left, ops=[_NEG[type(t.ops[0])]()], comparators=t.comparators), t)
            node.body, node.orelse = node.orelse, node.body
            self.flipped += 1
        return node

    def visit_If(self, node):
        self.generic_visit(node)
        if self._skip:
            return node
        if node.orelse and not (len(node.orelse) == 1 and isinstance(node.orelse[0], ast.If)):
            # the flipped `else` part must not itself be a single If (it would become an elif chain)
            if not (len(node.body) == 1 and isinstance(node.body[0], ast.If)):
                return self._flip(node)
        return node

    def visit_IfExp(self, node):
        self.generic_visit(node)
        if self._skip:
            return node
        return self._flip(node)


def _negate(t: ast.AST) -> ast.AST:
    if isinstance(t, ast.UnaryOp) and isinstance(t.op, ast.Not):
        return t.operand
    if isinstance(t, ast.Compare) and len(t.ops) == 1 and type(t.ops[0]) in _NEG_ALL:
        return ast.copy_location(ast.Compare(left=t.left, ops=[_NEG_ALL[type(t.ops[0])]()], comparators=t.comparators), t)
    return ast.copy_location(ast.UnaryOp(op=ast.Not(), operand=t), t)


_NEG_ALL = {ast.Eq: ast.NotEq, ast.NotEq: ast.Eq, ast.Is: ast.IsNot, ast.IsNot: ast.Is, ast.In: ast.NotIn, ast.NotIn: ast.In}


def _must_exit(stmts) -> bool:
    if not stmts:
        return False
    s = stmts[-1]
    if isinstance(s, (ast.Return, ast.Raise, ast.Continue, ast.Break)):
        return True
    if isinstance(s, ast.If) and s.orelse:
        return _must_exit(s.body) and _must_exit(s.orelse)
    return False


def _flatten_block(block: list) -> list:
    """`if c: <..exit> else: B`  ->  `if c: <..exit>` followed by B: an else after a branch that always leaves
    (return / raise / continue / break) is the same program as a guard clause. One spelling for both."""
    out = []
    for s in block:
        for fld in ("body", "orelse", "finalbody"):
            b = getattr(s, fld, None)
            if isinstance(b, list) and b and isinstance(b[0], ast.stmt):
                setattr(s, fld, _flatten_block(b))
        if isinstance(s, ast.Try):
            for h in s.handlers:
                h.body = _flatten_block(h.body)
        if isinstance(s, ast.Match):
            for c_ in s.cases:
                c_.body = _flatten_block(c_.body)
        if isinstance(s, ast.If) and s.orelse and not _must_exit(s.body) and _must_exit(s.orelse):
            # the branch that always leaves goes first, as a guard: `if c: B else: <exit>` -> `if not c: <exit>` ; B
            s.test = _negate(s.test)
            s.body, s.orelse = s.orelse, s.body
        if isinstance(s, ast.If) and s.orelse and _must_exit(s.body):
            tail, s.orelse = s.orelse, []
            out.append(s)
            out.extend(tail)  # already flattened above
        else:
            out.append(s)
    return out


def canonicalise(tree: ast.Module):
    def flatten_all():
        for n in ast.walk(tree):
            if isinstance(n, (ast.FunctionDef, ast.AsyncFunctionDef)) and n.name not in ("__eq__", "__ne__"):
                n.body = _flatten_block(n.body)

    # guard clauses first (an `if not c: <exit> else: B` must lose its else before the polarity pass would
    # swap its branches), then the polarity pass, then once more for what the swaps exposed
    flatten_all()
    c = Canon()
    c.visit(tree)
    flatten_all()
    ast.fix_missing_locations(tree)
    return c.flipped, c.folded
