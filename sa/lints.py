"""Cross-cutting lints shared by several property rules.

Both encode a repository-specific convention that today's tree follows without exception (the
instances below were enumerated and read), so a new instance is a deviation to be reported:

* zero-legal truthiness - protocol fields for which 0 / b"" / "" / False is a legal value distinct
  from "absent" (None) are tested with `is None`, never by truthiness;
* per-instance state - mutable state of the protocol objects is created per instance in
  __init__; class-level mutable attributes are constant lookup tables (UPPER_CASE) only.
"""

from __future__ import annotations

import ast

from .loader import Repo, dotted, norm, parent, qualname, enclosing

# field -> why a falsy value is legal and different from None
ZERO_LEGAL = {
    "MessageID": "0 is a valid Message ID (PS3.7: 0..65535)",
    "MessageIDBeingRespondedTo": "0 is a valid Message ID",
    "MoveOriginatorMessageID": "0 is a valid Message ID",
    "Status": "0x0000 is Success",
    "Priority": "0 is MEDIUM",
    "server_response": "b'' is the positive user-identity response for types 1 and 2",
    "primary_field": "bytes parameter, may legally be empty for the test in question",
    "secondary_field": "b'' is legal for identity type 1",
    "maximum_length": "0 means unlimited",
    "maximum_length_received": "0 means unlimited",
    "NumberOfRemainingSuboperations": "0 is a count",
    "NumberOfCompletedSuboperations": "0 is a count",
    "NumberOfFailedSuboperations": "0 is a count",
    "NumberOfWarningSuboperations": "0 is a count",
    "result": "0 is 'accepted'",
    "source": "0 is 'service user'",
    "reason": "0 is a defined reason",
    "diagnostic": "numeric code",
    "result_source": "numeric code",
    "abort_source": "0 is 'service user'",
    "provider_reason": "0 is 'reason not specified'",
    "scu_role": "False is a proposed role value, None is 'not proposed'",
    "scp_role": "False is a proposed role value, None is 'not proposed'",
    "timeout": "0 is a (zero) timeout, None is 'no timeout'",
    "acse_timeout": "0 vs None",
    "dimse_timeout": "0 vs None",
    "network_timeout": "0 vs None",
    "connection_timeout": "0 vs None",
}

# truthiness tests that exist today and were read: (module, function, expression) -> why harmless
TRUTHY_ALLOWED = {
    ("acse", "ACSE._negotiate_as_requestor", "cx.scu_role"): "building the log/role dict: None and False both mean 'not SCU' for the comparison that follows",
    ("acse", "ACSE._negotiate_as_requestor", "cx.scp_role"): "same",
    ("association", "Association._wrap_get_move_responses", "rsp.NumberOfRemainingSuboperations"): "`x or '0'` for a log line",
    ("association", "Association._wrap_get_move_responses", "rsp.NumberOfCompletedSuboperations"): "log line",
    ("association", "Association._wrap_get_move_responses", "rsp.NumberOfFailedSuboperations"): "log line",
    ("association", "Association._wrap_get_move_responses", "rsp.NumberOfWarningSuboperations"): "log line",
    ("pdu_items", "UserIdentitySubItemRQ.primary_field_length", "self.primary_field"): "length property: empty and None both have length 0",
    ("pdu_items", "UserIdentitySubItemRQ.secondary_field_length", "self.secondary_field"): "length property",
    ("pdu_items", "UserIdentitySubItemAC.server_response_length", "self.server_response"): "length property",
    ("pdu_primitives", "SCP_SCU_RoleSelectionNegotiation.from_primitive", "self.scu_role"): "`not scu and not scp`: a proposal with neither role is refused either way",
    ("pdu_primitives", "SCP_SCU_RoleSelectionNegotiation.from_primitive", "self.scp_role"): "same",
}


def _truthy_operands(t):
    if isinstance(t, ast.BoolOp):
        for v in t.values:
            yield from _truthy_operands(v)
    elif isinstance(t, ast.UnaryOp) and isinstance(t.op, ast.Not):
        yield from _truthy_operands(t.operand)
    else:
        yield t


def zero_legal_truthiness(repo: Repo, rep, rule: str, fields: set[str], modules: tuple[str, ...] | None = None) -> int:
    """report every truthiness test on one of `fields` that is not in the allow table"""
    n = 0
    for mname, m in sorted(repo.modules.items()):
        short = mname.replace("pynetdicom.", "")
        if short.startswith(("apps", "tests", "benchmarks")) or short == "_handlers":
            continue
        if modules is not None and short not in modules:
            continue
        for node in ast.walk(m.tree):
            tests = []
            if isinstance(node, (ast.If, ast.While, ast.IfExp)):
                tests.append(node.test)
            elif isinstance(node, ast.BoolOp) and not isinstance(parent(node), (ast.If, ast.While, ast.IfExp, ast.BoolOp, ast.UnaryOp)):
                # value-level `a or b` / `a and b`: every operand but the last is tested for truth
                tests.extend(node.values[:-1])
            elif isinstance(node, ast.Assert):
                tests.append(node.test)
            for t in tests:
                for e in _truthy_operands(t):
                    if isinstance(e, ast.Call) and norm(e.func) == "getattr" and len(e.args) >= 2 and not isinstance(e.args[1], ast.Constant) and short.startswith("dimse"):
                        # a generic loop over parameter keywords (REQUEST_KEYWORDS / RESPONSE_KEYWORDS ...): those
                        # lists contain zero-legal parameters, and no such truthiness test exists today
                        n += 1
                        rep.fail(rule, f"{short}.{qualname(node)}", enclosing(node, (ast.stmt,)) or node, f"`{norm(e)}` is tested for truth inside a generic loop over DIMSE parameter keywords: Message ID 0, Status 0x0000 and Priority 0 are legal values and would be taken for missing", mod=m, node=e)
                        continue
                    if isinstance(e, ast.Attribute) and e.attr in fields:
                        n += 1
                        key = (short, qualname(node), norm(e))
                        st = enclosing(node, (ast.stmt,)) or node
                        if key in TRUTHY_ALLOWED:
                            rep.ok(rule, f"{short}.{key[1]} :: truthiness of {key[2]}", TRUTHY_ALLOWED[key])
                        else:
                            rep.fail(rule, f"{short}.{qualname(node)}", st, f"`{norm(e)}` is tested for truth, but {ZERO_LEGAL.get(e.attr, 'a falsy value is legal')}: the legal falsy value is treated like an absent one (everywhere else this field is tested with `is None`)", mod=m, node=e)
    return n


def per_instance_state(repo: Repo, rep, rule: str, classes: dict[str, tuple[str, ...]]) -> int:
    """classes: module -> class names. Report class-level attributes bound to a mutable value
    (dict/list/set literal or comprehension, dict()/list()/set()/Queue()/Event()/Lock()/BytesIO()) whose
    name is not UPPER_CASE: such an object is shared by every instance."""
    n = 0
    for short, names in classes.items():
        m = repo.mod(short)
        for cname in names:
            ci = m.classes.get(cname)
            if ci is None:
                rep.defer(f"{short}.{cname} vanished (per-instance-state lint)")
                continue
            n += 1
            bad = 0
            for s in ci.node.body:
                if isinstance(s, (ast.Assign, ast.AnnAssign)) and getattr(s, "value", None) is not None:
                    tgt = s.targets[0] if isinstance(s, ast.Assign) else s.target
                    v = s.value
                    mut = isinstance(v, (ast.Dict, ast.List, ast.Set, ast.ListComp, ast.DictComp, ast.SetComp)) or (isinstance(v, ast.Call) and (dotted(v.func) or "").split(".")[-1] in ("dict", "list", "set", "Queue", "Event", "Lock", "RLock", "BytesIO", "deque", "defaultdict", "OrderedDict"))
                    name = norm(tgt)
                    if mut and not name.lstrip("_").isupper():
                        bad += 1
                        rep.fail(rule, f"{short}.{cname}", s, f"`{name}` is a class attribute bound to a mutable object: every {cname} in the process shares it, so state of one association (handlers, contexts, queued requests ...) leaks into another", mod=m, node=s)
            if not bad:
                rep.ok(rule, f"{short}.{cname} :: no mutable class-level state")
    return n


# except clauses that exist today in the codec modules and were read: (module, function, caught) -> why harmless
SWALLOW_ALLOWED = {
    ("pdu", "A_ASSOCIATE_AC.reserved_aec", "ValueError"): "reserved field of the AC PDU that PS3.8 says shall not be tested; '' on undecodable bytes",
    ("pdu", "A_ASSOCIATE_AC.reserved_aet", "ValueError"): "same reserved field",
    ("pdu_primitives", "A_ASSOCIATE.reason_str", "KeyError"): "text for a log line; the numeric fields are untouched",
}


def _must_raise(stmts) -> bool:
    """every path through `stmts` ends in a raise (syntactic, conservative: loops and try are 'may fall through')"""
    for s in stmts:
        if isinstance(s, ast.Raise):
            return True
        if isinstance(s, ast.If) and s.orelse and _must_raise(s.body) and _must_raise(s.orelse):
            return True
    return False


def no_swallow(repo: Repo, rep, rule: str, modules: tuple[str, ...] = ("pdu", "pdu_items", "pdu_primitives")) -> int:
    """In the PDU codec modules an exception raised while converting a received item is the only
    way 'this item is invalid' reaches the state machine (-> A-ABORT / rejection). Report every
    except clause there that can complete without raising and is not in the table of read sites:
    the invalid item would be dropped silently and the rest of the PDU acted upon."""
    n = 0
    for short in modules:
        m = repo.mod(short)
        for node in ast.walk(m.tree):
            if not isinstance(node, ast.Try):
                continue
            for h in node.handlers:
                n += 1
                caught = norm(h.type) if h.type is not None else "BaseException"
                fq = qualname(node)
                key = (short, fq, caught)
                if _must_raise(h.body):
                    rep.ok(rule, f"{short}.{fq} :: except {caught} re-raises on every path")
                elif key in SWALLOW_ALLOWED:
                    rep.ok(rule, f"{short}.{fq} :: except {caught}", SWALLOW_ALLOWED[key])
                else:
                    rep.fail(rule, f"{short}.{fq}", h.body[0] if h.body else node, f"`except {caught}` in the PDU codec can complete without raising: an item or field the peer sent that cannot be converted is dropped silently instead of failing the PDU (invalid PDU -> A-ABORT / rejection), so the checks that depend on that item never run", mod=m, node=h)
    return n


def _loop_emits(fn: ast.AST):
    """(loop, [emit statements]) for every loop of `fn` whose body yields or appends"""
    from .loader import walk_no_nested

    out = []
    for lp in walk_no_nested(fn):
        if not isinstance(lp, (ast.For, ast.While)):
            continue
        emits = []
        for st in lp.body:
            for x in ast.walk(st):
                if isinstance(x, (ast.Yield, ast.YieldFrom)) or (isinstance(x, ast.Call) and isinstance(x.func, ast.Attribute) and x.func.attr in ("append", "add_transfer_syntax")):
                    s_ = enclosing(x, (ast.stmt,))
                    if s_ is not None and s_ not in emits:
                        emits.append(s_)
        if emits:
            out.append((lp, emits))
    return out


def silent_iterations(fn: ast.AST) -> list[tuple[ast.AST, list[str]]]:
    """loops of `fn` that emit (yield / append) but have a path through one iteration that emits nothing
    and does not leave by raise / return / break: -> [(loop, witness)]"""
    from .cfg import CFG, typestate, witness
    from .loader import body_nodoc

    res = []
    loops = _loop_emits(fn)
    if not loops:
        return res
    cfg = CFG(fn, body=body_nodoc(fn), local_exc_only=True)
    for lp, emits in loops:
        head = [n for n in cfg.nodes if n.ast is lp and n.kind in ("iter", "test")]
        if len(head) != 1:
            continue
        h = head[0]

        def transfer(n, st, h=h, emits=emits):
            if n is h:
                return [("leak" if st in ("none", "leak") else "none", None)]
            if n.kind == "stmt" and n.ast in emits:
                return [("emitted", {l for _, l in n.succ if l != "exc"}), (st, {"exc"})]
            return [(st, None)]

        ins, pred = typestate(cfg, "emitted", transfer)
        if "leak" in {s for v in ins.values() for s in v}:
            leak_at = [nid for nid, v in ins.items() if "leak" in v]
            n0 = next(n for n in cfg.nodes if n.id == leak_at[0])
            res.append((lp, witness(cfg, pred, n0, "leak")))
    return res


def decoder_loops_complete(repo: Repo, rep, rule: str, only: tuple[str, ...] | None = None) -> int:
    """The item generators of the codec (`_generate_items`, `_wrap_generate_items`) walk a received
    byte string item by item. Every iteration must hand on the item it just framed (yield / append) or
    raise: an iteration that silently moves on drops something the peer sent - for a P-DATA-TF that
    can be the fragment carrying the 'last' bit, for an A-ASSOCIATE item a proposal."""
    from .alpha import functions_of

    n = 0
    for short in ("pdu", "pdu_items"):
        m = repo.mod(short)
        for q, fn in functions_of(m.tree):
            if q.split(".")[-1].split("#")[0] not in ("_generate_items", "_wrap_generate_items"):
                continue
            if only is not None and q not in only:
                continue
            loops = _loop_emits(fn)
            if not loops:
                continue
            n += 1
            bad = silent_iterations(fn)
            if not bad:
                rep.ok(rule, f"{short}.{q} :: every iteration of the item loop yields / appends or raises")
            for lp, path in bad:
                rep.fail(rule, f"{short}.{q}", lp, "an iteration of the item loop can complete without handing on the item it framed: what the peer sent is dropped silently (a zero-length last fragment loses its 'last' bit and the message never completes; a negotiation item is ignored)", mod=m, node=lp, path=path)
    return n


def item_generators_exhaustive(repo: Repo, rep, rule: str) -> int:
    """The same generators, *evaluated* (sa/minipy.py) on byte strings built from the PS3.8 item layouts: 0..3
    items with payloads of 0, 1, 2 and 7 bytes each. What comes out must be exactly the items that went in -
    same number, same order, same bytes. This decides what the per-iteration rule cannot: a loop that stops
    before the last item (a bound computed from a minimum item size), one that skips or repeats an item, or
    one whose offset arithmetic drifts. The layouts are PS3.8's: variable items / sub-items are
    type(1) reserved(1) length(2) data; a PDV item is length(4) context-id(1) data; a related general SOP
    class entry is length(2) uid."""
    import itertools
    import struct

    from .alpha import functions_of
    from .minipy import Interp, Raised, Unsupported

    u1, u2, u4 = struct.Struct(">B"), struct.Struct(">H"), struct.Struct(">I")
    g = {"UNPACK_UCHAR": u1.unpack, "UNPACK_UINT2": u2.unpack, "UNPACK_UINT4": u4.unpack, "UID": lambda x: x, "decode_bytes": lambda b: b.decode("ascii"), "bytes": bytes}
    payloads = [b"", b"\x21", b"\x31\x32", b"1.2.840"]

    def build(kind, items):
        out, want = b"", []
        for k, p in enumerate(items):
            if kind == "item":
                t = 0x10 + k
                whole = bytes([t, 0]) + u2.pack(len(p)) + p
                out += whole
                want.append((t, whole))
            elif kind == "pdv":
                cx = 2 * k + 1
                out += u4.pack(len(p) + 1) + bytes([cx]) + p
                want.append((cx, p))
            else:
                out += u2.pack(len(p)) + p
                want.append(p.decode("ascii"))
        return out, want

    n = 0
    for short in ("pdu", "pdu_items"):
        m = repo.mod(short)
        for q, fn in functions_of(m.tree):
            if q.split(".")[-1].split("#")[0] != "_generate_items":
                continue
            cls = q.split(".")[0]
            kind = "pdv" if cls == "P_DATA_TF" else "uid" if "RelatedGeneral" in cls or "CommonExtended" in cls else "item"
            it = Interp(g)
            # module-level struct objects and their bound methods (ITEM_HEADER = Struct(">BxH"); UNPACK_X = ITEM_HEADER.unpack_from)
            for mm in (repo.mod("pdu"), repo.mod("pdu_items")):
                for a_ in mm.tree.body:
                    if isinstance(a_, ast.Assign) and len(a_.targets) == 1 and isinstance(a_.targets[0], ast.Name) and a_.targets[0].id not in it.globals:
                        v_ = a_.value
                        try:
                            if isinstance(v_, ast.Call) and norm(v_.func) in ("Struct", "struct.Struct") and v_.args and isinstance(v_.args[0], ast.Constant):
                                it.globals[a_.targets[0].id] = struct.Struct(v_.args[0].value)
                            elif isinstance(v_, ast.Attribute) and isinstance(v_.value, ast.Name) and isinstance(it.globals.get(v_.value.id), struct.Struct) and v_.attr in ("unpack", "unpack_from", "pack", "size"):
                                it.globals[a_.targets[0].id] = getattr(it.globals[v_.value.id], v_.attr)
                        except struct.error:
                            pass
            # the generators of the other codec classes, callable as `Cls._generate_items(b)`
            from .minipy import Obj as _Obj
            for mm in (repo.mod("pdu"), repo.mod("pdu_items")):
                for cn_, ci_ in mm.classes.items():
                    gfn = ci_.methods.get("_generate_items")
                    if gfn is not None and cn_ not in it.globals:
                        it.globals[cn_] = _Obj("class", {"@_generate_items": (lambda s_, b_, _g=gfn: it.call_function(_g, {_g.args.args[-1].arg: b_}))})
            params = [a.arg for a in fn.args.args]
            bad = None
            pts = 0
            try:
                big = [(b"\x41" * 40000,)] if kind != "uid" else []  # a 2-byte length with its top bit set
                for items in [it_ for cnt in range(0, 4) for it_ in itertools.product(payloads if kind != "uid" else payloads[1:], repeat=cnt)] + big:
                    if True:
                        stream, want = build(kind, items)
                        it.steps = 0
                        pts += 1
                        try:
                            got = it.call_function(fn, dict(zip(params[-1:], [stream])))
                        except Raised as r:
                            got = f"raises {r.kind}"
                        if got != want and bad is None:
                            bad = (items, got, want)
            except Unsupported as exc:
                if "does not terminate" in str(exc):
                    rep.fail(rule, f"{short}.{q}", "the evaluation of the generator on a well-formed byte string does not end", "the item loop does not advance past an item (a zero-length one, say): the decoder spins for ever on bytes a peer can send", mod=m, node=fn)
                    n += 1
                    continue
                rep.defer(f"{short}.{q}: the item generator could not be evaluated ({exc})")
                continue
            # malformed input: 1-3 stray bytes after the last item, or the last item cut short, is not something to skip
            # over - the PDU is invalid (Evt19), so the generator must raise
            bad_m = None
            try:
                for cnt in range(0, 3):
                    for items in itertools.product((payloads if kind != "uid" else payloads[1:])[:3], repeat=cnt):
                        stream, _w = build(kind, items)
                        variants = [stream + b"\x07" * k_ for k_ in ((1, 2, 3) if kind != "uid" else (1,))]
                        if stream:
                            variants.append(stream[:-1])
                        for bs in variants:
                            it.steps = 0
                            pts += 1
                            try:
                                got = it.call_function(fn, dict(zip(params[-1:], [bs])))
                            except Raised:
                                continue
                            if bad_m is None:
                                bad_m = (len(items), len(bs) - len(stream), got)
            except Unsupported as exc:
                rep.defer(f"{short}.{q}: the item generator could not be evaluated on malformed input ({exc})")
                continue
            if bad_m is not None:
                rep.fail(rule, f"{short}.{q}", f"{bad_m[0]} item(s) {'followed by ' + str(bad_m[1]) + ' stray byte(s)' if bad_m[1] > 0 else 'with the last one cut short by a byte'} -> {len(bad_m[2]) if isinstance(bad_m[2], list) else bad_m[2]} item(s), no error", "bytes that cannot be an item (1-3 left-over bytes, a truncated last item) are skipped silently instead of failing the decode: a malformed PDU is then accepted as if it were well-formed - an A-ASSOCIATE-RQ / -AC that PS3.8 makes an invalid PDU (Evt19: A-ABORT) is negotiated and accepted", mod=m, node=fn)
            n += 1
            if bad is None:
                rep.ok(rule, f"{short}.{q} :: {pts} byte strings of 0..3 items", "every item comes out once, in order, with its bytes")
            else:
                items, got, want = bad
                rep.fail(rule, f"{short}.{q}", f"{len(items)} item(s) with payload lengths {[len(p) for p in items]} -> {len(got) if isinstance(got, list) else got} yielded", f"a byte string holding {len(items)} item(s) with payloads of {[len(p) for p in items]} bytes must give back exactly those items; the generator gives {got if not isinstance(got, list) else str(len(got)) + ' item(s)'}: an item the peer sent is dropped, repeated or cut (a trailing PDV of 6 bytes - an empty last fragment - carries the 'last' bit of a message; a dropped negotiation item changes what was proposed)", mod=m, node=fn)
    return n


def contextmanagers_yield_once(repo: Repo, rep, rule: str) -> int:
    """A generator decorated with @contextmanager must yield exactly once on every path that does not
    raise: a path that returns before the yield makes `with f(..):` raise RuntimeError("generator didn't
    yield") in the caller - for Association.run() that ends the association thread before the reactor
    ever runs - and a second yield raises on exit."""
    from .cfg import CFG, typestate
    from .loader import body_nodoc, walk_no_nested

    n = 0
    for mname, m in sorted(repo.modules.items()):
        short = mname.replace("pynetdicom.", "")
        if short.startswith(("apps", "tests", "benchmarks")):
            continue
        for fn in [f for f in ast.walk(m.tree) if isinstance(f, ast.FunctionDef)]:
            if not any(norm(d).split(".")[-1] == "contextmanager" for d in fn.decorator_list):
                continue
            n += 1
            fq = f"{short}.{qualname(fn) or fn.name}"
            cfg = CFG(fn, body=body_nodoc(fn), may_raise=lambda node: False)

            def transfer(nd, st):
                if nd.kind == "stmt" and any(isinstance(x, (ast.Yield, ast.YieldFrom)) for x in walk_no_nested(nd.ast)):
                    return [(min(st + 1, 2), None)]
                return [(st, None)]

            ins, _ = typestate(cfg, 0, transfer)
            counts = sorted(ins.get(cfg.exit.id, set()))
            rep.check(counts == [1], rule, fq, f"yields per non-raising path: {counts}", f"the context manager yields {counts} times depending on the path: with 0 the `with` statement using it raises RuntimeError('generator didn't yield') and the caller's thread dies before doing its work, with 2 it raises on exit", mod=m, node=fn)
    return n


IO_CALLS = ("open", "dcmread", "read_dataset", "read", "stat", "exists", "listdir", "getsize", "recv", "get")


def no_memoised_state(repo: Repo, rep, rule: str, modules: tuple[str, ...], consequence: str) -> int:
    """A memoising decorator (cached_property, lru_cache, cache) on a member of a mutable value class: the
    member is computed from fields that decode() / from_primitive() / the setters assign later, so a second
    read returns what the first one saw. 0 expected today; a memoised member is accepted only when it reads
    no attribute of `self` at all."""
    n = 0
    for mname in modules:
        m = repo.mod(mname)
        for fn in [f for f in ast.walk(m.tree) if isinstance(f, ast.FunctionDef)]:
            n += 1
            for d in fn.decorator_list:
                dn = norm(d.func if isinstance(d, ast.Call) else d).split(".")[-1]
                if dn not in ("lru_cache", "cache", "cached_property"):
                    continue
                reads = [a for a in ast.walk(fn) if isinstance(a, ast.Attribute) and norm(a.value) == "self"]
                if reads or dn == "cached_property":
                    rep.fail(rule, f"{mname}.{qualname(fn) or fn.name}", fn, f"`{fn.name}` is memoised (@{dn}) but computed from {('self.' + reads[0].attr) if reads else 'the object'}, which is assigned after construction: {consequence}", mod=m, node=d)
    return n


def no_memoised_io(repo: Repo, rep, rule: str) -> int:
    """A memoising decorator (functools.lru_cache / cache, or a hand-made dict cache is not looked for) on a
    function whose result depends on something outside its arguments - a file's content, a socket, the
    clock, mutable configuration - returns the answer of an earlier call: the File Meta of a file that has
    since been rewritten, the contexts of an earlier association. No function of the package is memoised
    today (0 expected); a memoised function is accepted only if its body is free of I/O and of reads of
    module-level mutable configuration."""
    n = 0
    for mname, m in sorted(repo.modules.items()):
        short = mname.replace("pynetdicom.", "")
        if short.startswith(("tests", "benchmarks")) or ".tests" in short:
            continue
        for fn in [f for f in ast.walk(m.tree) if isinstance(f, ast.FunctionDef)]:
            n += 1
            for d in fn.decorator_list:
                dn = norm(d.func if isinstance(d, ast.Call) else d).split(".")[-1]
                if dn not in ("lru_cache", "cache", "cached_property"):
                    continue
                io = [c for c in ast.walk(fn) if isinstance(c, ast.Call) and (norm(c.func).split(".")[-1] in IO_CALLS or norm(c.func).startswith(("os.", "socket.", "time.")))]
                cfgread = [a for a in ast.walk(fn) if isinstance(a, ast.Attribute) and norm(a.value) == "_config"]
                if io or cfgread or dn == "cached_property":
                    why = f"calls {norm(io[0].func)}()" if io else "reads _config" if cfgread else "is cached per object"
                    rep.fail(rule, f"{short}.{qualname(fn) or fn.name}", fn, f"the function is memoised (@{dn}) but {why}: a later call with the same arguments gets the earlier answer although the file / configuration it depends on has changed - e.g. the transfer syntax of a file that was rewritten, so a data set is sent on a context chosen for the old one", mod=m, node=d)
    return n
