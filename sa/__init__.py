"""Static-analysis engine for the pynetdicom properties (stdlib only)."""
