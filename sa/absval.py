"""Finite-domain abstract exploration of a function's CFG.

An abstract environment maps normalised l-value text ("self.data_set", "n") to a small
abstract value (a string or tuple).  Branches whose test evaluates to a definite truth
value under the environment are followed one way only; unknown tests are followed both
ways.  The state space is finite (finite value domain x finite node set), so the
exploration terminates; loops are handled by the visited set."""

from __future__ import annotations

import ast
from typing import Callable

from .cfg import CFG, N, scope
from .loader import AnalysisError, norm, strip_cast

NONE = "None"
B_EMPTY = "BytesIO-empty"
B_FULL = "BytesIO-nonempty"
BY_EMPTY = "bytes-empty"
BY_FULL = "bytes-nonempty"
OBJ = "object"  # some non-None, truthy object


def truth(v):
    if v is None:
        return None
    if v == NONE or v == BY_EMPTY:
        return False
    if v in (B_EMPTY, B_FULL, BY_FULL, OBJ):
        return True  # a BytesIO object defines neither __bool__ nor __len__: always truthy
    if isinstance(v, tuple) and v[0] == "int":
        return bool(v[1])
    if isinstance(v, tuple) and v[0] == "bool":
        return v[1]
    if isinstance(v, tuple) and v[0] == "str":
        return bool(v[1])
    return None


class Explorer:
    def __init__(
        self,
        cfg: CFG,
        special: Callable[[ast.AST, dict], object] | None = None,
        on_stmt: Callable[[N, dict], None] | None = None,
        follow_exc: Callable[[N, dict], bool | None] | None = None,
    ):
        self.cfg = cfg
        self.special = special or (lambda e, env: None)
        self.on_stmt = on_stmt
        self.follow_exc = follow_exc  # True: only exc edge; False: never; None: both

    # -- expressions ------------------------------------------------------
    def value(self, e: ast.AST, env: dict):
        e = strip_cast(e)
        sp = self.special(e, env)
        if sp is not None:
            return sp
        if isinstance(e, ast.Constant):
            if e.value is None:
                return NONE
            if isinstance(e.value, bool):
                return ("bool", e.value)
            if isinstance(e.value, int):
                return ("int", e.value)
            if isinstance(e.value, bytes):
                return BY_FULL if e.value else BY_EMPTY
            if isinstance(e.value, str):
                return ("str", e.value)
            return None
        if isinstance(e, ast.Attribute) and e.attr == "nbytes":
            base = self.value(e.value, env)
            if base == BY_EMPTY:
                return ("int", 0)
            if base == BY_FULL:
                return ("int", 1)  # some positive size
            return None
        if isinstance(e, (ast.Name, ast.Attribute)):
            return env.get(norm(e))
        if isinstance(e, ast.Call):
            fn = e.func
            if isinstance(fn, ast.Name) and fn.id == "BytesIO":
                if not e.args:
                    return B_EMPTY
                a = self.value(e.args[0], env)
                if a == BY_EMPTY:
                    return B_EMPTY
                if a == BY_FULL:
                    return B_FULL
                return None
            # read() is NOT here: its result depends on the stream position, which this domain does not track
            if isinstance(fn, ast.Attribute) and fn.attr in ("getvalue", "getbuffer"):
                base = self.value(fn.value, env)
                if base == B_EMPTY:
                    return BY_EMPTY
                if base == B_FULL:
                    return BY_FULL
                return None
            if isinstance(fn, ast.Name) and fn.id == "len" and e.args:
                a = self.value(e.args[0], env)
                if a == BY_EMPTY:
                    return ("int", 0)
                if a == BY_FULL:
                    return ("int", 1)  # some positive length
                return None
            if isinstance(fn, ast.Name) and fn.id == "bool" and e.args:
                t = truth(self.value(e.args[0], env))
                return None if t is None else ("bool", t)
            return None
        if isinstance(e, ast.Attribute):
            return env.get(norm(e))
        if isinstance(e, ast.BoolOp):
            # value of `a and b` / `a or b`
            cur = None
            for i, sub in enumerate(e.values):
                v = self.value(sub, env)
                t = truth(v)
                if t is None:
                    return None
                cur = v
                if isinstance(e.op, ast.And) and not t:
                    return v
                if isinstance(e.op, ast.Or) and t:
                    return v
            return cur
        if isinstance(e, ast.UnaryOp) and isinstance(e.op, ast.Not):
            t = truth(self.value(e.operand, env))
            return None if t is None else ("bool", not t)
        if isinstance(e, ast.Compare) and len(e.ops) == 1:
            t = self.test(e, env)
            return None if t is None else ("bool", t)
        return None

    def test(self, e: ast.AST, env: dict):
        """True / False / None (unknown)."""
        e = strip_cast(e)
        if isinstance(e, ast.Compare) and len(e.ops) == 1:
            op = e.ops[0]
            l, r = self.value(e.left, env), self.value(e.comparators[0], env)
            if isinstance(op, (ast.Is, ast.IsNot)) and r == NONE:
                if l is None:
                    return None
                res = l == NONE
                return res if isinstance(op, ast.Is) else not res
            if isinstance(op, (ast.Eq, ast.NotEq)) and l is not None and r is not None:
                if isinstance(l, tuple) and isinstance(r, tuple) and l[0] == r[0]:
                    res = l[1] == r[1]
                    return res if isinstance(op, ast.Eq) else not res
                if l == NONE or r == NONE:
                    res = l == r
                    return res if isinstance(op, ast.Eq) else not res
            if isinstance(op, (ast.Gt, ast.GtE, ast.Lt, ast.LtE)) and isinstance(l, tuple) and isinstance(r, tuple) and l[0] == r[0] == "int":
                import operator as _o

                f = {ast.Gt: _o.gt, ast.GtE: _o.ge, ast.Lt: _o.lt, ast.LtE: _o.le}[type(op)]
                # ("int", 1) stands for "some positive length": only comparisons with 0 are definite
                if r[1] == 0 or l[1] == 0:
                    return f(l[1], r[1])
                return None
            return None
        if isinstance(e, ast.BoolOp):
            vals = [self.test(v, env) for v in e.values]
            if isinstance(e.op, ast.And):
                if any(v is False for v in vals):
                    return False
                if all(v is True for v in vals):
                    return True
                return None
            if any(v is True for v in vals):
                return True
            if all(v is False for v in vals):
                return False
            return None
        if isinstance(e, ast.UnaryOp) and isinstance(e.op, ast.Not):
            t = self.test(e.operand, env)
            return None if t is None else not t
        return truth(self.value(e, env))

    # -- statements -------------------------------------------------------
    def assign(self, st: ast.stmt, env: dict) -> dict:
        tgt = val = None
        if isinstance(st, ast.Assign) and len(st.targets) == 1:
            tgt, val = st.targets[0], st.value
        elif isinstance(st, ast.AnnAssign) and st.value is not None:
            tgt, val = st.target, st.value
        elif isinstance(st, ast.AugAssign):
            key = norm(st.target)
            if key in env:
                env = dict(env)
                del env[key]
            return env
        if tgt is None:
            return env
        if isinstance(tgt, (ast.Name, ast.Attribute)):
            v = self.value(val, env)
            env = dict(env)
            key = norm(tgt)
            # writing x invalidates x.* facts
            for k in [k for k in env if k.startswith(key + ".")]:
                del env[k]
            if v is None:
                env.pop(key, None)
            else:
                env[key] = v
        elif isinstance(tgt, (ast.Tuple, ast.List)):
            env = dict(env)
            for t in tgt.elts:
                env.pop(norm(t), None)
        return env

    def run(self, init_env: dict, max_states: int = 50000):
        """Returns list of (exit_kind, env) for every distinct way of leaving the function
        ('exit' or 'raise'), plus the set of visited (node id, env) pairs."""
        cfg = self.cfg
        start = (cfg.entry.id, frozenset(init_env.items()))
        seen = {start}
        work = [start]
        exits = []
        while work:
            nid, fenv = work.pop()
            n = cfg.nodes[nid]
            env = dict(fenv)
            if n is cfg.exit or n is cfg.raise_exit:
                exits.append(("exit" if n is cfg.exit else "raise", env))
                continue
            labels = None
            if n.kind == "stmt":
                if self.on_stmt is not None:
                    e2 = self.on_stmt(n, env)
                    if e2 is not None:
                        env = e2
                env_after = self.assign(n.ast, env)
            elif n.kind == "test":
                t = self.test(n.ast.test, env)
                env_after = env
                if t is True:
                    labels = {"true", "exc"}
                elif t is False:
                    labels = {"false", "exc"}
            elif n.kind == "iter":
                env_after = dict(env)
                for nm in ast.walk(n.ast.target):
                    if isinstance(nm, ast.Name):
                        env_after.pop(nm.id, None)
            else:
                env_after = env
            exc_pref = self.follow_exc(n, env) if self.follow_exc is not None else None
            for m, lab in n.succ:
                if labels is not None and lab not in labels:
                    continue
                if lab == "exc":
                    if exc_pref is False:
                        continue
                    nxt_env = env  # the statement did not complete
                else:
                    if exc_pref is True:
                        continue
                    nxt_env = env_after
                key = (m.id, frozenset(nxt_env.items()))
                if key not in seen:
                    seen.add(key)
                    if len(seen) > max_states:
                        raise AnalysisError(f"abstract exploration explosion in {cfg.fn.name}")
                    work.append(key)
        return exits, seen
