"""Length bookkeeping of a socket-reading function, decided symbolically.

AssociationSocket.recv(n) must hand back *exactly the bytes that were received*: a caller compares
len(result) with what it asked for to tell a complete PDU from a connection that closed part-way.
Whatever the loop looks like (append as you go, or a pre-allocated buffer filled with recv_into) the
invariant is

        len(returned buffer) == total number of bytes the socket delivered

The function body (assignments, if, while, return - anything else is refused) is interpreted over
linear forms in: the parameter n, one fresh atom per socket read, and the symbol T for 'total received
so far'. Loops are generalised from two passes: a tracked quantity either moves with T (q = T + k) or
does not move (q = k); anything else becomes unknown. On the edge that leaves `while c < n` the counter
is taken to equal n (the reads are bounded by the remaining count - a separate rule). An empty read
(`if not chunk` / `if not nr`) sets that read's atom to 0 on the true branch."""

from __future__ import annotations

import ast

from .lin import Lin
from .loader import AnalysisError, body_nodoc, dotted, norm, strip_cast


class Refused(AnalysisError):
    pass


T = "T"


class State:
    def __init__(self):
        self.ints: dict[str, Lin | None] = {}
        self.lens: dict[str, Lin | None] = {}
        self.alias: dict[str, str] = {}
        self.total: Lin = Lin()  # total received, as a linear form (T symbol + read atoms)
        self.reads: dict[str, str] = {}  # name -> read atom bound to it (for emptiness tests)
        self.nreads = 0  # socket reads made on this path so far: the k-th read of any path is the atom rd#k

    def copy(self):
        s = State()
        s.ints, s.lens, s.alias, s.total, s.reads = dict(self.ints), dict(self.lens), dict(self.alias), Lin(self.total), dict(self.reads)
        s.nreads = self.nreads
        return s

    def subst(self, atom, value: Lin):
        m = {atom: value}
        self.ints = {k: (v.subst(m) if v is not None else None) for k, v in self.ints.items()}
        self.lens = {k: (v.subst(m) if v is not None else None) for k, v in self.lens.items()}
        self.total = self.total.subst(m)

    def key(self):
        f = lambda d: tuple(sorted((k, None if v is None else tuple(sorted(v.items(), key=repr))) for k, v in d.items()))  # noqa: E731
        return (f(self.ints), f(self.lens), tuple(sorted(self.total.items(), key=repr)))


class RecvModel:
    def __init__(self, fn: ast.FunctionDef, size_param: str):
        self.fn = fn
        self.n = size_param
        self.k = 0
        self.returns: list[tuple[ast.Return, Lin | None, Lin]] = []  # (node, len(returned), total)
        self.counter_issues: list = []

    # -- expressions ---------------------------------------------------------------------------
    def is_read(self, e):
        e = strip_cast(e)
        return isinstance(e, ast.Call) and isinstance(e.func, ast.Attribute) and e.func.attr in ("recv", "recv_into") and "sock" in norm(e.func.value)

    def int_of(self, e, st: State) -> Lin | None:
        e = strip_cast(e)
        if isinstance(e, ast.Constant) and isinstance(e.value, int) and not isinstance(e.value, bool):
            return Lin.const(e.value)
        if isinstance(e, ast.Name):
            if e.id == self.n:
                return Lin.atom("n")
            return st.ints.get(e.id)
        if isinstance(e, ast.Call) and norm(e.func) == "len" and len(e.args) == 1:
            return self.len_of(e.args[0], st)
        if isinstance(e, ast.BinOp) and isinstance(e.op, (ast.Add, ast.Sub)):
            l, r = self.int_of(e.left, st), self.int_of(e.right, st)
            if l is None or r is None:
                return None
            return l.add(r, 1 if isinstance(e.op, ast.Add) else -1)
        if isinstance(e, ast.Call) and norm(e.func) == "min":
            return None
        return None

    def len_of(self, e, st: State) -> Lin | None:
        e = strip_cast(e)
        if isinstance(e, ast.Name):
            nm = st.alias.get(e.id, e.id)
            return st.lens.get(nm)
        if isinstance(e, ast.Constant) and isinstance(e.value, (bytes, str)):
            return Lin.const(len(e.value))
        if isinstance(e, ast.Call) and norm(e.func) in ("bytes", "bytearray", "memoryview") and len(e.args) == 1:
            a = strip_cast(e.args[0])
            if self.is_buffer_expr(a, st):
                return self.len_of(a, st)
            return self.int_of(a, st)  # bytearray(k): k zero bytes
        if isinstance(e, ast.Call) and norm(e.func) in ("bytes", "bytearray") and not e.args:
            return Lin.const(0)
        if isinstance(e, ast.Subscript) and isinstance(e.slice, ast.Slice) and e.slice.step is None:
            lo = Lin.const(0) if e.slice.lower is None else self.int_of(e.slice.lower, st)
            hi = self.len_of(e.value, st) if e.slice.upper is None else self.int_of(e.slice.upper, st)
            if lo is None or hi is None:
                return None
            return hi.add(lo, -1)  # assumes lo <= hi <= len(value): the slices in question are [:count] / [count:count+k]
        if isinstance(e, ast.BinOp) and isinstance(e.op, ast.Add):
            l, r = self.len_of(e.left, st), self.len_of(e.right, st)
            return None if l is None or r is None else l.add(r)
        return None

    # -- statements ----------------------------------------------------------------------------
    def fresh(self, node, st: "State | None" = None) -> str:
        # named by the order of the reads on the path, not by the site: two branches that each read once
        # (`recv(remaining)` for large reads, `recv(min(remaining, 4096))` otherwise) received "the k-th read's
        # bytes" either way, so their states can be joined
        if st is None:
            return f"rd@{getattr(node, 'lineno', 0)}:{getattr(node, 'col_offset', 0)}"
        st.nreads += 1
        return f"rd#{st.nreads}"

    def assign(self, tgt: str, val, st: State, node):
        val = strip_cast(val)
        st.reads.pop(tgt, None)
        st.alias.pop(tgt, None)
        if self.is_read(val):
            a = self.fresh(node, st)
            st.total = st.total.add(Lin.atom(a))
            st.reads[tgt] = a
            if val.func.attr == "recv":
                st.lens[tgt] = Lin.atom(a)
                st.ints.pop(tgt, None)
            else:
                st.ints[tgt] = Lin.atom(a)
                st.lens.pop(tgt, None)
            return
        if isinstance(val, ast.Call) and norm(val.func) == "memoryview" and len(val.args) == 1 and isinstance(val.args[0], ast.Name):
            st.alias[tgt] = st.alias.get(val.args[0].id, val.args[0].id)
            return
        if self.is_buffer_expr(val, st):
            st.lens[tgt] = self.len_of(val, st)
            st.ints.pop(tgt, None)
            return
        st.ints[tgt] = self.int_of(val, st)
        st.lens.pop(tgt, None)

    def is_buffer_expr(self, e, st: State) -> bool:
        e = strip_cast(e)
        if isinstance(e, ast.Call) and norm(e.func) in ("bytes", "bytearray", "memoryview"):
            return True
        if isinstance(e, ast.Constant) and isinstance(e.value, bytes):
            return True
        if isinstance(e, ast.Name):
            return st.alias.get(e.id, e.id) in st.lens
        if isinstance(e, ast.Subscript) and isinstance(e.slice, ast.Slice):
            return self.is_buffer_expr(e.value, st)
        if isinstance(e, ast.BinOp) and isinstance(e.op, ast.Add):
            return self.is_buffer_expr(e.left, st) or self.is_buffer_expr(e.right, st)
        return False

    def run_block(self, stmts, st: State):
        """-> list of (state, flow) with flow in next / return / break / continue"""
        states = [st]
        out = []
        for s in stmts:
            nxt = []
            for cur in states:
                for s2, flow in self.run_stmt(s, cur):
                    (nxt if flow == "next" else out).append(s2 if flow == "next" else (s2, flow))
            states = nxt
            if not states:
                break
        return [(s_, "next") for s_ in states] + out

    def run_stmt(self, s, st: State):
        st = st.copy()
        if isinstance(s, (ast.Assign, ast.AnnAssign)) and getattr(s, "value", None) is not None:
            tg = s.targets[0] if isinstance(s, ast.Assign) else s.target
            if isinstance(tg, ast.Name):
                self.assign(tg.id, s.value, st, s)
            elif isinstance(tg, ast.Attribute):
                pass  # self.socket = cast(..)
            elif isinstance(tg, ast.Subscript) and isinstance(tg.value, ast.Name):
                pass  # view[a:b] = chunk: length of the buffer unchanged
            else:
                raise Refused(f"assignment target {norm(tg)}")
            return [(st, "next")]
        if isinstance(s, ast.AugAssign) and isinstance(s.target, ast.Name) and isinstance(s.op, ast.Add):
            nm = s.target.id
            real = st.alias.get(nm, nm)
            if real in st.lens:
                add = self.len_of(s.value, st)
                st.lens[real] = None if add is None or st.lens[real] is None else st.lens[real].add(add)
            else:
                add = self.int_of(s.value, st)
                cur = st.ints.get(nm)
                st.ints[nm] = None if add is None or cur is None else cur.add(add)
            return [(st, "next")]
        if isinstance(s, ast.Expr):
            c = s.value
            if isinstance(c, ast.Call) and isinstance(c.func, ast.Attribute) and c.func.attr == "extend" and isinstance(c.func.value, ast.Name) and len(c.args) == 1:
                nm = st.alias.get(c.func.value.id, c.func.value.id)
                add = self.len_of(c.args[0], st)
                if self.is_read(c.args[0]):
                    a = self.fresh(s, st)
                    st.total = st.total.add(Lin.atom(a))
                    add = Lin.atom(a)
                cur = st.lens.get(nm)
                st.lens[nm] = None if add is None or cur is None else cur.add(add)
            elif self.is_read(c):
                a = self.fresh(s, st)
                st.total = st.total.add(Lin.atom(a))
            return [(st, "next")]
        if isinstance(s, ast.Return):
            L = self.len_of(s.value, st) if s.value is not None else None
            self.returns.append((s, L, Lin(st.total)))
            return [(st, "return")]
        if isinstance(s, ast.Pass):
            return [(st, "next")]
        if isinstance(s, ast.Break):
            return [(st, "break")]
        if isinstance(s, ast.Continue):
            return [(st, "continue")]
        if isinstance(s, ast.If):
            t = s.test
            neg = False
            while isinstance(t, ast.UnaryOp) and isinstance(t.op, ast.Not):
                t, neg = t.operand, not neg
            st_t, st_f = st.copy(), st.copy()
            if isinstance(t, ast.Name) and t.id in st.reads:
                # truth of a freshly read chunk / count: falsy <=> that read delivered 0 bytes
                (st_t if neg else st_f).subst(st.reads[t.id], Lin())
            return self.run_block(s.body, st_t) + (self.run_block(s.orelse, st_f) if s.orelse else [(st_f, "next")])
        if isinstance(s, ast.While):
            return self.run_while(s, st)
        raise Refused(f"statement {type(s).__name__} at line {s.lineno}")

    def counter_of(self, test):
        if isinstance(test, ast.Compare) and len(test.ops) == 1 and isinstance(test.ops[0], ast.Lt) and isinstance(test.left, ast.Name) and norm(test.comparators[0]) == self.n:
            return test.left.id
        if isinstance(test, ast.Compare) and len(test.ops) == 1 and isinstance(test.ops[0], ast.Gt) and norm(test.left) == self.n and isinstance(test.comparators[0], ast.Name):
            return test.comparators[0].id
        return None

    def generalise(self, s1: State, s2: State) -> State:
        """the loop-head state from the first two arrivals: each quantity moves with the total, or not at all"""
        g = s1.copy()
        dT = s2.total.add(s1.total, -1)
        base = s1.total

        def gen(q1, q2):
            if q1 is None or q2 is None:
                return None
            d = q2.add(q1, -1)
            if d == dT:
                return Lin.atom(T).add(q1.add(base, -1))
            if not d:
                return q1
            return None

        for k in set(s1.ints) | set(s2.ints):
            g.ints[k] = gen(s1.ints.get(k), s2.ints.get(k))
        for k in set(s1.lens) | set(s2.lens):
            g.lens[k] = gen(s1.lens.get(k), s2.lens.get(k))
        g.total = Lin.atom(T)
        g.reads = {}
        return g

    @staticmethod
    def join(states):
        """pointwise: a quantity the ways round the loop disagree on is unknown"""
        j = states[0].copy()
        for o in states[1:]:
            for d_, e_ in ((j.ints, o.ints), (j.lens, o.lens)):
                for k in set(d_) | set(e_):
                    if d_.get(k) != e_.get(k):
                        d_[k] = None
            if j.total != o.total:
                raise Refused("the ways round the loop disagree on how much was received")
        return j

    def run_while(self, w: ast.While, st: State):
        ctr = self.counter_of(w.test)
        if ctr is None:
            raise Refused(f"loop test `{norm(w.test)}` is not `<count> < {self.n}`")
        saved = list(self.returns)
        first = self.run_block(w.body, st.copy())
        again = [s_ for s_, fl in first if fl in ("next", "continue")]
        self.returns = saved
        if len(again) > 1:
            again = [self.join(again)]
        head = self.generalise(st, again[0]) if again else st.copy()
        # verify: one more pass from the generalised head reproduces it
        res = self.run_block(w.body, head.copy())
        outs = []
        for s_, fl in res:
            if fl in ("next", "continue"):
                back = s_.copy()
                # re-express relative to the new total
                dT = back.total.add(Lin.atom(T), -1)
                for d_ in (back.ints, back.lens):
                    for k, v in list(d_.items()):
                        if v is not None:
                            v2 = v.add(dT, -1) if T in v else v
                            d_[k] = v2
                for d_, h_ in ((back.ints, head.ints), (back.lens, head.lens)):
                    for k, v in h_.items():
                        if v is not None and d_.get(k) != v:
                            h_[k] = None  # not stable: unknown
            elif fl == "break":
                outs.append((s_, "next"))
            else:
                outs.append((s_, fl))
        # the loop is steered by the counter: it must be the number of bytes received, nothing else
        c0 = head.ints.get(ctr)
        if c0 is None or c0 != head.total:
            self.counter_issues.append((w, ctr, c0))
        # leaving through the test: count == n
        ex = head.copy()
        c = ex.ints.get(ctr)
        if c is not None and T in c and c[T] == 1:
            rest = Lin({a: v for a, v in c.items() if a != T})
            ex.subst(T, Lin.atom("n").add(rest, -1))
        if w.orelse:
            return self.run_block(w.orelse, ex) + outs
        return [(ex, "next")] + outs

    def run(self):
        st = State()
        try:
            self.run_block(body_nodoc(self.fn), st)
        except RecursionError:
            raise Refused("recursion")
        return self.returns
