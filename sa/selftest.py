"""Both-ways test of the checkers on scratch copies of the package (never /repo itself).

A mutant is a textual edit (find -> replace, `find` must be unique in the file) that still
compiles; `expect` is 'fire' (the check must exit 1, naming `rule` when given) or 'silent'
(a behaviour-preserving refactor, or the repaired twin of a known finding: exit 0 and, for
twins, no KNOWN-FINDING line for `rule`).  Scratch copies live under $TMPDIR (default
/var/tmp) and are removed as soon as the variant is judged."""

from __future__ import annotations

import json
import os
import py_compile
import shutil
import subprocess
import sys
import tempfile
from concurrent.futures import ThreadPoolExecutor
from pathlib import Path

VERIF = Path(__file__).resolve().parent.parent


def catalogue() -> list[dict]:
    out = []
    d = VERIF / "selftest"
    for p in sorted(d.glob("*.json")):
        ms = json.loads(p.read_text())
        for m in ms:
            m.setdefault("source", p.name)
            out.append(m)
        if ms:
            pid = ms[0]["property"]
            out.append({"id": f"{pid.lower()}-refactor-rename-all-locals", "property": pid, "expect": "silent", "transform": "rename-locals", "source": p.name})
            out.append({"id": f"{pid.lower()}-refactor-invert-all-ifs", "property": pid, "expect": "silent", "transform": "invert-ifs", "source": p.name})
            out.append({"id": f"{pid.lower()}-refactor-yoda-tuple-logging", "property": pid, "expect": "silent", "transform": "misc-rewrites", "source": p.name})
            out.append({"id": f"{pid.lower()}-refactor-introduce-locals", "property": pid, "expect": "silent", "transform": "extract-temps", "source": p.name})
            out.append({"id": f"{pid.lower()}-refactor-log-everywhere", "property": pid, "expect": "silent", "transform": "log-everywhere", "source": p.name})
            out.append({"id": f"{pid.lower()}-refactor-else-after-guard", "property": pid, "expect": "silent", "transform": "unflatten-guards", "source": p.name})
            out.append({"id": f"{pid.lower()}-refactor-annotate-locals", "property": pid, "expect": "silent", "transform": "annotate-locals", "source": p.name})
    # every kept seed (a change written by an independent sub-agent and confirmed to break its
    # property) must keep firing
    for mp in sorted((VERIF / "seeded").glob("*/meta.json")):
        meta = json.loads(mp.read_text())
        out.append({"id": f"seed-{meta['id']}", "property": meta["property"], "expect": "fire", "patch": f"seeded/{meta['id']}/patch.diff", "source": "seeded"})
        # the same change in a tree whose every local was renamed afterwards: the changed function is no longer
        # alpha-equivalent to the reference, only the best-effort rename (alpha.best_effort_rename) applies
        out.append({"id": f"seed-{meta['id']}+renamed", "property": meta["property"], "expect": "fire", "patch": f"seeded/{meta['id']}/patch.diff", "then": "rename-locals", "source": "seeded"})
    return out


def _copy_pkg(src_root: Path, dst_root: Path) -> None:
    def ignore(dirpath, names):
        return [n for n in names if n in ("tests", "benchmarks", "__pycache__")]

    shutil.copytree(src_root / "pynetdicom", dst_root / "pynetdicom", ignore=ignore)
    # the documentation tables are C21's oracle ("as documented")
    if (src_root / "docs" / "service_classes").is_dir():
        shutil.copytree(src_root / "docs" / "service_classes", dst_root / "docs" / "service_classes")


def apply_edits(root: Path, m: dict) -> str | None:
    edits = m.get("edits") or [{"file": m["file"], "find": m["find"], "replace": m["replace"], "nth": m.get("nth")}]
    for e in edits:
        f = root / e["file"]
        if not f.exists():
            return f"file missing: {e['file']}"
        text = f.read_text()
        cnt = text.count(e["find"])
        nth = e.get("nth")
        if nth is None and cnt != 1:
            return f"anchor occurs {cnt} times in {e['file']}: {e['find'][:50]!r}"
        if nth is not None:
            if cnt <= nth:
                return f"anchor occurrence {nth} missing in {e['file']}"
            idx = -1
            for _ in range(nth + 1):
                idx = text.index(e["find"], idx + 1)
            text = text[:idx] + e["replace"] + text[idx + len(e["find"]):]
        else:
            text = text.replace(e["find"], e["replace"])
        f.write_text(text)
        try:
            compile(text, str(f), "exec", dont_inherit=True)
        except SyntaxError as exc:
            return f"does not compile: {exc}"
    return None


def _tree_differs(src: Path, m: dict) -> bool:
    """does any file the variant touches differ from the tree the catalogue was written against
    (per-module source hashes in spec/alpha_reference.json)?"""
    import hashlib

    try:
        ref = json.loads((VERIF / "spec" / "alpha_reference.json").read_text())
    except Exception:
        return False
    files = set()
    if m.get("patch"):
        for line in (VERIF / m["patch"]).read_text().splitlines():
            if line.startswith("+++ b/"):
                files.add(line[6:].strip())
    else:
        for e in m.get("edits") or [m]:
            if e.get("file"):
                files.add(e["file"])
    for f in files:
        p = src / f
        if not f.endswith(".py") or not p.exists():
            continue
        name = ".".join(Path(f).with_suffix("").parts)
        if name.endswith(".__init__"):
            name = name[: -len(".__init__")]
        want = ref.get(name, {}).get("__sha__")
        if want is not None and hashlib.sha256(p.read_text(encoding="utf-8").encode()).hexdigest() != want:
            return True
    return False


def run_variant(m: dict) -> dict:
    src = Path(os.environ.get("VERIF_REPO", "/repo"))
    base = os.environ.get("TMPDIR") or "/var/tmp"
    tmp = Path(tempfile.mkdtemp(prefix="verif-st-", dir=base))
    res = {"id": m["id"], "property": m["property"], "expect": m["expect"]}
    try:
        if m.get("patch"):
            # a seeded change kept under /verif/seeded/<id>/patch.diff
            _copy_pkg(src, tmp)
            pr = subprocess.run(
                ["patch", "-p1", "-s", "-d", str(tmp), "-i", str(VERIF / m["patch"])],
                capture_output=True,
                text=True,
            )
            # patches may touch tests/docs that are not copied: tolerate those hunks
            err = None
            if pr.returncode != 0 and "pynetdicom/" in (pr.stdout + pr.stderr) and "FAILED" in (pr.stdout + pr.stderr):
                err = f"patch did not apply: {(pr.stdout + pr.stderr)[-200:]}"
            if err is None and m.get("then"):
                tool = {"rename-locals": "rename_locals.py", "invert-ifs": "invert_ifs.py", "misc-rewrites": "misc_rewrites.py", "extract-temps": "extract_temps.py", "log-everywhere": "log_everywhere.py", "unflatten-guards": "unflatten_guards.py", "annotate-locals": "annotate_locals.py"}[m["then"]]
                pr = subprocess.run(["/venv/bin/python", str(VERIF / "tools" / tool), str(tmp)], capture_output=True, text=True)
                err = None if pr.returncode == 0 else f"{tool} failed: {pr.stderr[-200:]}"
        elif m.get("transform") in ("rename-locals", "invert-ifs", "misc-rewrites", "extract-temps", "log-everywhere", "unflatten-guards", "annotate-locals"):
            # behaviour-preserving whole-tree rewrites: every local renamed / every if-else inverted, re-printed
            _copy_pkg(src, tmp)
            tool = {"rename-locals": "rename_locals.py", "invert-ifs": "invert_ifs.py", "misc-rewrites": "misc_rewrites.py", "extract-temps": "extract_temps.py", "log-everywhere": "log_everywhere.py", "unflatten-guards": "unflatten_guards.py", "annotate-locals": "annotate_locals.py"}[m["transform"]]
            pr = subprocess.run([sys.executable, str(VERIF / "tools" / tool), str(tmp)], capture_output=True, text=True)
            err = None if pr.returncode == 0 else f"{tool} failed: {pr.stderr[-200:]}"
        else:
            _copy_pkg(src, tmp)
            err = apply_edits(tmp, m)
        if err:
            # a variant is an edit of the reference tree: when the file it edits is no longer the reference
            # file (a later change moved or removed the anchor) the variant says nothing about the checker -
            # inapplicable, not broken. On the reference file a missing anchor means a stale catalogue.
            res.update(status="inapplicable" if _tree_differs(src, m) else "broken", why=err)
            return res
        env = dict(os.environ)
        env["VERIF_REPO"] = str(tmp)
        env["VERIF_EVIDENCE_DIR"] = str(tmp / "evidence")
        env["VERIF_NO_SELFTEST"] = "1"
        pr = subprocess.run(
            [str(VERIF / "check"), m["property"], "--tier", "quick"],
            capture_output=True,
            text=True,
            env=env,
            cwd=str(VERIF),
            timeout=600,
        )
        out = pr.stdout + pr.stderr
        res["exit"] = pr.returncode
        rule = m.get("rule")
        if m["expect"] == "fire":
            fired = pr.returncode == 1 and "VIOLATION property=" + m["property"] in out
            if fired and rule:
                fired = any(f"[{rule}]" in l for l in out.splitlines())
            res["status"] = "ok" if fired else "broken"
            if not fired:
                res["why"] = f"expected VIOLATION{' by rule ' + rule if rule else ''}; exit={pr.returncode}; tail={out[-400:]}"
        else:
            quiet = pr.returncode == 0
            if quiet and rule and m.get("twin"):
                quiet = not any(
                    l.startswith("KNOWN-FINDING") and f"rule={rule} " in l and (m.get("twin_function", "") in l)
                    for l in out.splitlines()
                )
            res["status"] = "ok" if quiet else "broken"
            if not quiet:
                res["why"] = f"expected silence; exit={pr.returncode}; tail={out[-400:]}"
        return res
    except subprocess.TimeoutExpired:
        res.update(status="broken", why="timeout")
        return res
    finally:
        shutil.rmtree(tmp, ignore_errors=True)


def run_for(pid: str | None, jobs: int = 16) -> dict:
    ms = [m for m in catalogue() if pid is None or m["property"] == pid]
    with ThreadPoolExecutor(max_workers=jobs) as ex:
        results = list(ex.map(run_variant, ms))
    broken = [r for r in results if r["status"] not in ("ok", "inapplicable")]
    return {
        "variants": len(results),
        "inapplicable": [r["id"] for r in results if r["status"] == "inapplicable"],
        "mutants_fired": sum(1 for r in results if r["expect"] == "fire" and r["status"] == "ok"),
        "refactors_silent": sum(1 for r in results if r["expect"] == "silent" and r["status"] == "ok"),
        "broken": [f"{r['id']}: {r.get('why', '')}" for r in broken],
        "ids": [r["id"] for r in results],
    }


if __name__ == "__main__":
    pid = sys.argv[1] if len(sys.argv) > 1 and sys.argv[1] != "all" else None
    r = run_for(pid)
    print(json.dumps(r, indent=1))
    sys.exit(2 if r["broken"] else 0)
