"""Escape analysis for the provider (reactor) thread: which explicit `raise` statements can
propagate, without an intervening handler, out of a function reachable from a given root.

Call resolution is syntactic and package-internal (no import of the repository):
  * `self.m(...)` / `self.p` (property)  -> the enclosing class's MRO
  * `Name(...)`                          -> module-level function, or Class.__init__
  * `v.m(...)`, `v.attr = e`, `v.attr`   -> when `v` is bound in the function by `v = Cls(...)`
                                            or annotated / isinstance-narrowed to a package class
  * explicit receiver classes supplied by the caller for named locals (e.g. the PDU class an
    action dequeues, derived from the transition table)
Unresolved calls are counted and listed in the evidence, never guessed."""

from __future__ import annotations

import ast

from .cfg import handler_types, CATCH_ALL
from .loader import AnalysisError, ClassInfo, Module, Repo, body_nodoc, dotted, norm, parent, strip_cast, walk_no_nested, qualname, enclosing

BUILTIN_EXC_PARENTS = {
    "ValueError": ["Exception"],
    "TypeError": ["Exception"],
    "KeyError": ["LookupError", "Exception"],
    "IndexError": ["LookupError", "Exception"],
    "AttributeError": ["Exception"],
    "RuntimeError": ["Exception"],
    "NotImplementedError": ["RuntimeError", "Exception"],
    "AssertionError": ["Exception"],
    "OSError": ["Exception"],
    "queue.Empty": ["Exception"],
    "Empty": ["Exception"],
    "struct.error": ["Exception"],
    "InvalidEventError": ["Exception"],
    "StopIteration": ["Exception"],
    "UnicodeError": ["ValueError", "Exception"],
}


def catches(handler_type_names: list[str], exc: str) -> bool:
    names = set(handler_type_names)
    if names & CATCH_ALL:
        return True
    if exc in names or exc.split(".")[-1] in {n.split(".")[-1] for n in names}:
        return True
    for p in BUILTIN_EXC_PARENTS.get(exc, ["Exception"]):
        if p in names and p != "Exception":
            return True
    return False


def enclosing_handlers(node: ast.AST, fn: ast.AST, suppressing=None):
    """list of handler-type-name lists of the try bodies (and suppressing withs) enclosing `node`"""
    out = []
    p, child = parent(node), node
    while p is not None and p is not fn:
        if isinstance(p, ast.Try) and child in p.body:
            for h in p.handlers:
                out.append(handler_types(h))
        if isinstance(p, ast.With) and suppressing is not None and any(suppressing(i) for i in p.items) and child in p.body:
            out.append(["Exception"])
        child, p = p, parent(p)
    return out


def raise_type(r: ast.Raise) -> str:
    if r.exc is None:
        return "<reraise>"
    e = r.exc
    if isinstance(e, ast.Call):
        e = e.func
    return dotted(e) or norm(e)


class Func:
    def __init__(self, mod: Module, node: ast.FunctionDef, cls: ClassInfo | None, kind: str = "method"):
        self.mod = mod
        self.node = node
        self.cls = cls
        self.kind = kind

    @property
    def fq(self) -> str:
        short = self.mod.name.replace("pynetdicom.", "")
        q = qualname(self.node)
        return f"{short}.{q}" + (":setter" if self.kind == "setter" else "")


class Escape:
    def __init__(self, repo: Repo, suppressing=None, max_depth: int = 6):
        self.repo = repo
        self.suppressing = suppressing
        self.max_depth = max_depth
        self.unresolved: dict[str, int] = {}
        self.visited_funcs: set[str] = set()
        # method name -> module whose classes are all candidate receivers when the receiver's
        # class cannot be resolved (e.g. `item.to_primitive()` over a heterogeneous item list)
        self.families: dict[str, str] = {}

    # -- resolution -------------------------------------------------------------
    def _class(self, name: str, mod: Module) -> ClassInfo | None:
        name = name.split(".")[-1]
        if name in mod.classes:
            return mod.classes[name]
        if name in mod.imports:
            src, attr = mod.imports[name]
            sm = self.repo.modules.get(src)
            if sm and attr in sm.classes:
                return sm.classes[attr]
        # function-local `from x import Cls`
        return self.repo.find_class(name)

    def _func(self, name: str, mod: Module) -> Func | None:
        if name in mod.funcs:
            return Func(mod, mod.funcs[name], None, "function")
        if name in mod.imports:
            src, attr = mod.imports[name]
            sm = self.repo.modules.get(src)
            if sm and attr in sm.funcs:
                return Func(sm, sm.funcs[attr], None, "function")
        return None

    def local_types(self, f: Func, extra: dict[str, list[str]] | None = None) -> dict[str, list[ClassInfo]]:
        """local name -> possible package classes"""
        out: dict[str, list[ClassInfo]] = {}
        for s in walk_no_nested(f.node):
            if isinstance(s, (ast.Assign, ast.AnnAssign)):
                tgt = s.targets[0] if isinstance(s, ast.Assign) else s.target
                v = strip_cast(s.value) if s.value is not None else None
                if isinstance(tgt, ast.Name) and isinstance(v, ast.Call) and isinstance(v.func, ast.Name):
                    ci = self._class(v.func.id, f.mod)
                    if ci is not None:
                        out.setdefault(tgt.id, [])
                        if ci not in out[tgt.id]:
                            out[tgt.id].append(ci)
            if isinstance(s, ast.Call) and isinstance(s.func, ast.Name) and s.func.id == "isinstance" and len(s.args) == 2 and isinstance(s.args[0], ast.Name):
                names = s.args[1].elts if isinstance(s.args[1], ast.Tuple) else [s.args[1]]
                for nm in names:
                    ci = self._class(dotted(nm) or "", f.mod)
                    if ci is not None:
                        out.setdefault(s.args[0].id, [])
                        if ci not in out[s.args[0].id]:
                            out[s.args[0].id].append(ci)
        for a in f.node.args.args:
            if a.annotation is not None:
                t = norm(a.annotation).strip("'\"")
                for part in t.replace("|", " ").split():
                    ci = self._class(part, f.mod)
                    if ci is not None and part not in ("None",):
                        out.setdefault(a.arg, []).append(ci)
        for k, v in (extra or {}).items():
            out[k] = [c for c in (self.repo.find_class(n) for n in v) if c is not None]
        return out

    def callees(self, f: Func, node: ast.AST, types) -> list[Func]:
        """functions that evaluating `node` (a Call, or an Attribute load/store) may enter"""
        res: list[Func] = []
        if isinstance(node, ast.Call):
            fn = node.func
            if isinstance(fn, ast.Name):
                g = self._func(fn.id, f.mod)
                if g is not None:
                    return [g]
                ci = self._class(fn.id, f.mod)
                if ci is not None and fn.id[0].isupper():
                    o, init = self.repo.lookup_method(ci, "__init__", "method")
                    return [Func(o.mod, init, o)] if init is not None else []
                return []
            if isinstance(fn, ast.Attribute):
                recv = strip_cast(fn.value)
                classes: list[ClassInfo] = []
                if isinstance(recv, ast.Name) and recv.id == "self" and f.cls is not None:
                    classes = [f.cls]
                elif isinstance(recv, ast.Name) and recv.id in types:
                    classes = types[recv.id]
                elif isinstance(recv, ast.Call) and isinstance(recv.func, ast.Name):
                    ci = self._class(recv.func.id, f.mod)
                    classes = [ci] if ci else []
                for ci in classes:
                    o, m = self.repo.lookup_method(ci, fn.attr, "method")
                    if m is not None:
                        res.append(Func(o.mod, m, o))
                if not classes and fn.attr in self.families:
                    fam = self.repo.mod(self.families[fn.attr])
                    for ci in fam.classes.values():
                        if fn.attr in ci.methods:
                            res.append(Func(ci.mod, ci.methods[fn.attr], ci))
                    return res
                if not classes:
                    key = norm(fn)[:60]
                    self.unresolved[key] = self.unresolved.get(key, 0) + 1
                return res
            return []
        if isinstance(node, ast.Attribute):
            recv = strip_cast(node.value)
            classes = []
            if isinstance(recv, ast.Name) and recv.id == "self" and f.cls is not None:
                classes = [f.cls]
            elif isinstance(recv, ast.Name) and recv.id in types:
                classes = types[recv.id]
            kind = "setter" if isinstance(node.ctx, ast.Store) else "getter"
            for ci in classes:
                o, m = self.repo.lookup_method(ci, node.attr, kind)
                if m is not None:
                    res.append(Func(o.mod, m, o, kind))
            return res
        return []

    # -- propagation ----------------------------------------------------------------
    def escaping(self, f: Func, extra_types=None, depth: int = 0, stack: tuple = ()) -> list[dict]:
        """raise sites that can leave `f` (transitively), each with its call path"""
        key = f.fq
        if depth > self.max_depth or key in stack:
            return []
        self.visited_funcs.add(key)
        types = self.local_types(f, extra_types)
        out = []
        body_root = f.node
        for n in walk_no_nested(body_root):
            if isinstance(n, ast.Raise):
                et = raise_type(n)
                if et == "<reraise>":
                    continue
                hs = enclosing_handlers(n, body_root, self.suppressing)
                if any(catches(h, et) for h in hs):
                    continue
                out.append({"exc": et, "site": n, "func": f, "path": [f.fq], "guard": _guard(n, body_root)})
            elif isinstance(n, ast.Assert):
                hs = enclosing_handlers(n, body_root, self.suppressing)
                if not any(catches(h, "AssertionError") for h in hs):
                    out.append({"exc": "AssertionError", "site": n, "func": f, "path": [f.fq], "guard": norm(n.test)})
            if isinstance(n, (ast.Call, ast.Attribute)):
                if isinstance(n, ast.Attribute) and isinstance(parent(n), ast.Call) and parent(n).func is n:
                    continue  # the method lookup of a call: handled with the Call
                for g in self.callees(f, n, types):
                    if g.node is f.node:
                        continue
                    hs = enclosing_handlers(n, body_root, self.suppressing)
                    for e in self.escaping(g, None, depth + 1, stack + (key,)):
                        if any(catches(h, e["exc"]) for h in hs):
                            continue
                        e2 = dict(e)
                        e2["path"] = [f.fq] + e["path"]
                        e2["call_site"] = e.get("call_site") or n
                        e2["top_call"] = n
                        out.append(e2)
        return out


def _guard(r: ast.Raise, fn: ast.AST) -> str:
    conds = []
    p, child = parent(r), r
    while p is not None and p is not fn:
        if isinstance(p, ast.If):
            t = norm(p.test)
            conds.append(t if child in p.body else f"not ({t})")
        if isinstance(p, ast.ExceptHandler):
            conds.append(f"except {norm(p.type) if p.type else ''}")
        child, p = p, parent(p)
    return " and ".join(reversed(conds))
