"""C26 - a failing notification handler never changes the protocol exchange."""

from __future__ import annotations

import ast

from ..cfg import CFG, typestate, witness, handler_types, CATCH_ALL
from ..consteval import Evaluator
from ..escape import enclosing_handlers, catches
from ..loader import AnalysisError, Repo, body_nodoc, dotted, norm, parent, walk_no_nested, enclosing, qualname, strip_cast
from ..report import Report

LEVEL = "other"
EXPLANATION = (
    "Containment decided from the shape of events.trigger() and of every place that triggers an "
    "intervention event. (notify-contained) every invocation of a bound handler inside trigger() sits "
    "in one try whose catch-all handler re-raises only under isinstance(event, InterventionEvent). "
    "(handler-total) inside that except body nothing can raise on a user-supplied object: attribute "
    "reads on the handler callable / its args must go through getattr(x, name, default), no user "
    "object is called. (abort-restored) a typestate over trigger()'s CFG, correlated with the "
    "notification/intervention test, shows that once abort was switched to the non-blocking variant "
    "every way out (normal or by handler exception) restores the blocking one. (pre-guard) the "
    "statements that run before the guard call only library code from a frozen list. "
    "(intervention-enclosed) every trigger() call site of an intervention event - the event kinds are "
    "read from events.py - is enclosed by try/except Exception that does not re-raise or by the "
    "suppressing `attempt` context manager (its __exit__ is read, not assumed). (generator-advance) a "
    "generator returned by an intervention handler is advanced only inside try/attempt or through "
    "_wrap_handler, whose own loop is inside try/except Exception. Not decided: that the exchange is "
    "byte-identical (handlers may call abort()/release() themselves), logging side effects."
    " Third session: (logging-total) logging filters installed by the package treat record.msg / record.args as opaque objects (the package logs caught handler exceptions as LOGGER.exception(exc); what a filter raises propagates out of the logging call inside the containment's except body); (lock-released) every <lock>.acquire() is followed by the matching release() on every exit of the function after a successful acquire, exceptional exits included (the standard logging handlers share one AE-wide non-reentrant lock and trigger() swallows what they raise)."
    " Fifth round (end): (subassociation-released) an association a service class opened itself is released or aborted on every return once established; (exception-opaque) where a handler's exception is caught it is only logged lazily, re-raised or identity-tested (read from the source as written)."
)

# the three events whose handlers are documented (docs/reference/events, _handlers.py) to be
# generators; every other intervention handler returns a value
GENERATOR_EVENTS = {"EVT_C_FIND", "EVT_C_GET", "EVT_C_MOVE"}
PRE_GUARD_ALLOWED = {"assoc.get_handlers", "setattr", "Event", "isinstance", "cast", "bool", "len"}


def event_kinds(repo: Repo) -> dict[str, str]:
    ev = repo.mod("events")
    kinds = {}
    for name, stmts in ev.assign_stmts.items():
        for s in stmts:
            v = getattr(s, "value", None)
            if isinstance(v, ast.Call) and isinstance(v.func, ast.Name) and v.func.id in ("NotificationEvent", "InterventionEvent"):
                kinds[name] = v.func.id
    return kinds


def suppressing(item: ast.withitem) -> bool:
    return isinstance(item.context_expr, ast.Call) and dotted(item.context_expr.func) == "attempt"


def eager_exception_uses(body, name):
    """uses of the caught exception `name` in `body` that run user code now: anything but handing it to
    LOGGER.<level>(exc) / exc_info=exc (logging formats inside Handler.emit, which contains formatting errors),
    re-raising it, `raise .. from exc`, or an identity test"""
    out = []
    for s in body:
        for x in ast.walk(s):
            if not (isinstance(x, ast.Name) and x.id == name and isinstance(x.ctx, ast.Load)):
                continue
            par = parent(x)
            lazy_log = isinstance(par, ast.Call) and x in par.args and isinstance(par.func, ast.Attribute) and norm(par.func.value).lower().endswith("logger") and par.func.attr in ("exception", "error", "warning", "info", "debug", "critical")
            kw_exc_info = isinstance(par, ast.keyword) and par.arg == "exc_info"
            reraised = isinstance(par, ast.Raise)
            identity = isinstance(par, ast.Compare) and all(isinstance(o, (ast.Is, ast.IsNot)) for o in par.ops)
            if lazy_log or kw_exc_info or reraised or identity:
                continue
            out.append((x, par))
    return out


def run(repo: Repo, rep: Report, tier: str) -> None:
    rep.rule("notify-contained", "trigger(): every bound-handler invocation is inside a try whose catch-all handler re-raises only for intervention events")
    rep.rule("handler-total", "trigger()'s except body cannot itself raise on user-supplied objects (getattr with default only, no calls on them)")
    rep.rule("abort-restored", "trigger(): after abort was switched to non-blocking, every exit restores the blocking abort")
    rep.rule("pre-guard", "trigger(): statements before the guard call only a frozen list of library functions")
    rep.rule("intervention-enclosed", "every intervention trigger site is enclosed by try/except Exception (no re-raise) or `with attempt(...)`")
    rep.rule("generator-advance", "generators returned by intervention handlers are advanced only inside try/attempt or via _wrap_handler")
    ev = repo.mod("events")
    tr = repo.func("events", "trigger")
    fq = "events.trigger"
    kinds = event_kinds(repo)
    rep.floor("notification events", sum(1 for k in kinds.values() if k == "NotificationEvent"), 17)
    rep.floor("intervention events", sum(1 for k in kinds.values() if k == "InterventionEvent"), 15)
    rep.counters["event kinds"] = len(kinds)

    # ---- which names hold user-supplied objects in trigger() ----------------------------
    params = [a.arg for a in tr.args.args]
    rep.need(params[:2] == ["assoc", "event"], f"{fq}: signature changed: {params}")
    hv = None
    for s in walk_no_nested(tr):
        if isinstance(s, ast.Assign) and isinstance(s.targets[0], ast.Name) and isinstance(s.value, ast.Call) and (dotted(s.value.func) or "").endswith("get_handlers"):
            hv = s.targets[0].id
    rep.need(hv is not None, f"{fq}: handlers are no longer fetched with get_handlers()")
    user_names = set()
    for s in walk_no_nested(tr):
        if isinstance(s, ast.For) and norm(strip_cast(s.iter)) == hv:
            for n in ast.walk(s.target):
                if isinstance(n, ast.Name):
                    user_names.add(n.id)

    def is_user_expr(e: ast.AST) -> bool:
        e = strip_cast(e)
        if isinstance(e, ast.Name) and e.id in user_names:
            return True
        if isinstance(e, ast.Subscript):
            b = strip_cast(e.value)
            # handlers[0], handlers[1], handlers[i][0]
            while isinstance(b, ast.Subscript):
                b = strip_cast(b.value)
            return isinstance(b, ast.Name) and b.id == hv
        return False

    invocations = [c for c in walk_no_nested(tr) if isinstance(c, ast.Call) and is_user_expr(c.func)]
    rep.floor("handler invocation sites in trigger()", len(invocations), 4)
    tries = {id(enclosing(c, (ast.Try,))): enclosing(c, (ast.Try,)) for c in invocations}
    ok = len(tries) == 1 and None not in tries.values()
    rep.check(ok, "notify-contained", fq, f"{len(invocations)} handler invocations in {len(tries)} try block(s)", "every invocation of a bound handler must be inside the guarding try", mod=ev, node=tr)
    if not ok:
        for c in invocations:
            if enclosing(c, (ast.Try,)) is None:
                rep.fail("notify-contained", fq, enclosing(c, (ast.stmt,)), "a bound handler is invoked outside any try: a raising notification handler escapes into the protocol machinery (DUL thread, ACSE, DIMSE)", mod=ev, node=c)
        return
    t: ast.Try = next(iter(tries.values()))
    for c in invocations:
        in_body = any(x is c for s in t.body for x in ast.walk(s))
        rep.check(in_body, "notify-contained", fq, enclosing(c, (ast.stmt,)), "the handler invocation is in a handler/else/finally part of the try, not in its guarded body", mod=ev, node=c)
    ca = [h for h in t.handlers if set(handler_types(h)) & CATCH_ALL]
    rep.check(len(ca) == 1, "notify-contained", fq, f"except clauses: {[handler_types(h) for h in t.handlers]}", "the guard must catch Exception: a notification handler may raise anything", mod=ev, node=t)
    if not ca:
        return
    h = ca[0]
    # narrower handlers listed before the catch-all must not re-raise either
    for h2 in t.handlers:
        for r in [x for s in h2.body for x in walk_no_nested(s) if isinstance(x, ast.Raise)] + [s for s in h2.body if isinstance(s, ast.Raise)]:
            g = enclosing(r, (ast.If,))
            guarded = False
            while g is not None and any(x is g for s in h2.body for x in ast.walk(s)):
                tt = norm(g.test)
                in_body = any(x is r for s in g.body for x in ast.walk(s))
                if (tt == "isinstance(event, InterventionEvent)" and in_body) or (tt in ("isinstance(event, NotificationEvent)",) and not in_body) or (tt == "not isinstance(event, NotificationEvent)" and in_body):
                    guarded = True
                g = enclosing(g, (ast.If,))
            rep.check(guarded, "notify-contained", fq, r, "the except body re-raises for a notification event: the handler's exception escapes into the caller (for EVT_FSM_TRANSITION / EVT_PDU_RECV that is the DUL thread)", mod=ev, node=r)
    n_raise = sum(1 for s in h.body for x in ast.walk(s) if isinstance(x, ast.Raise))
    rep.counters["raise statements in trigger()'s except body"] = n_raise
    if t.finalbody:
        for s in t.finalbody:
            for x in ast.walk(s):
                if isinstance(x, ast.Raise) or (isinstance(x, ast.Return)):
                    rep.fail("notify-contained", fq, x, "raise/return in the finally block changes what trigger() propagates", mod=ev, node=x)

    # ---- handler totality ---------------------------------------------------------------
    n_tot = 0
    for s in h.body:
        for x in ast.walk(s):
            if isinstance(x, ast.Attribute) and is_user_expr(x.value):
                n_tot += 1
                rep.fail("handler-total", fq, enclosing(x, (ast.stmt,)) or x, f"attribute '{x.attr}' is read directly from the user's handler object inside the except body: a callable without it (functools.partial, a callable instance) raises AttributeError out of trigger(), i.e. the notification handler's failure escapes after all", mod=ev, node=x)
            if isinstance(x, ast.Call) and is_user_expr(x.func):
                n_tot += 1
                rep.fail("handler-total", fq, enclosing(x, (ast.stmt,)) or x, "a user-supplied object is called inside the except body, outside any guard", mod=ev, node=x)
            if isinstance(x, ast.Call) and dotted(x.func) == "getattr" and x.args and is_user_expr(x.args[0]):
                n_tot += 1
                rep.check(len(x.args) == 3, "handler-total", fq, enclosing(x, (ast.stmt,)) or x, "getattr() on the user's handler object without a default raises AttributeError out of trigger()", mod=ev, node=x)
            if isinstance(x, ast.Subscript) and is_user_expr(x.value) and not is_user_expr(x):
                n_tot += 1
                rep.fail("handler-total", fq, enclosing(x, (ast.stmt,)) or x, "a user-supplied object is indexed inside the except body", mod=ev, node=x)
    def holds_user(e):
        return any(is_user_expr(x) for x in ast.walk(e) if isinstance(x, (ast.Name, ast.Subscript)))

    for s in h.body:
        for x in ast.walk(s):
            why = None
            if isinstance(x, ast.Compare) and any(isinstance(o, (ast.In, ast.NotIn, ast.Eq, ast.NotEq, ast.Lt, ast.Gt, ast.LtE, ast.GtE)) for o in x.ops) and (holds_user(x.left) or any(holds_user(c) for c in x.comparators)):
                why = "is compared / looked up in a container (calls the user's __eq__ / __hash__)"
            elif isinstance(x, ast.Call) and isinstance(x.func, ast.Attribute) and x.func.attr in ("add", "remove", "discard", "index", "count", "setdefault", "get", "pop", "append") and any(holds_user(a) for a in x.args) and x.func.attr != "append":
                why = f"is passed to .{x.func.attr}() of a set / dict / list (hashes or compares it)"
            elif isinstance(x, ast.Call) and dotted(x.func) == "hash" and any(holds_user(a) for a in x.args):
                why = "is hashed"
            elif isinstance(x, (ast.Set, ast.Dict)) and any(holds_user(k) for k in (x.elts if isinstance(x, ast.Set) else [k for k in x.keys if k is not None])):
                why = "is used as a set element / dict key (hashed)"
            elif isinstance(x, ast.Subscript) and not is_user_expr(x) and not is_user_expr(x.value) and holds_user(x.slice):
                why = "is used as a dictionary key (hashed)"
            if why:
                n_tot += 1
                rep.fail("handler-total", fq, enclosing(x, (ast.stmt,)) or x, f"inside the except body the user's handler object {why}: an unhashable callable (a dataclass instance with __call__, a callable with a raising __eq__) makes trigger() itself raise, so the notification handler's failure escapes into the protocol machinery", mod=ev, node=x)
    # the exception object itself was raised by user code: its __str__ / __repr__ / __bool__ / attributes are user
    # code too. Handing it to LOGGER.<level>(exc) is safe (logging formats the record inside Handler.emit, which
    # contains formatting errors); evaluating it here - f-string, str(), a formatting helper, a truth test - is not
    if h.name:
        for x, par in eager_exception_uses(h.body, h.name):
            rep.fail("handler-total", fq, enclosing(x, (ast.stmt,)) or x, f"the exception raised by the user's handler is evaluated inside the except body (`{norm(par)[:60]}`): str() / repr() / formatting / truth-testing it runs the user's __str__ / __repr__ / __bool__, and if that raises the failure of a notification handler leaves trigger() after all (only LOGGER.<level>({h.name}) defers the formatting to logging, which contains such errors)", mod=ev, node=x)
        n_tot += sum(1 for s in h.body for x in ast.walk(s) if isinstance(x, ast.Name) and x.id == h.name)
    rep.ok("handler-total", f"{fq} :: except body scanned", f"{n_tot} uses of user objects")

    # ---- abort restored -----------------------------------------------------------------------
    cfg = CFG(tr, body=body_nodoc(tr), local_exc_only=True)

    def swap_kind(n):
        if n.kind != "stmt":
            return None
        for c in [x for x in walk_no_nested(n.ast) if isinstance(x, ast.Call)]:
            if dotted(c.func) == "setattr" and len(c.args) == 3 and norm(c.args[0]) == "assoc" and isinstance(c.args[1], ast.Constant) and c.args[1].value == "abort":
                v = norm(c.args[2])
                if v.endswith("_abort_nonblocking"):
                    return "nb"
                if v.endswith("_abort_blocking"):
                    return "b"
                raise AnalysisError(f"{fq}: abort set to an unmodelled value {v}")
        return None

    n_swaps = sum(1 for n in cfg.nodes if swap_kind(n) == "nb")
    rep.need(n_swaps >= 1, f"{fq}: the non-blocking abort switch vanished")

    def transfer(n, st):
        kind, ab = st  # kind in {?, notif, interv}; ab in {b, nb}
        if n.kind == "test":
            tt = norm(n.ast.test)
            outs = []
            for pos, k_true, k_false in (("isinstance(event, NotificationEvent)", "notif", "interv"), ("isinstance(event, InterventionEvent)", "interv", "notif")):
                if tt == pos:
                    if kind in ("?", k_true):
                        outs.append(((k_true, ab), {"true"}))
                    if kind in ("?", k_false):
                        outs.append(((k_false, ab), {"false"}))
                    outs.append(((kind, ab), {"exc"}))
                    return outs
            return [((kind, ab), None)]
        sk = swap_kind(n)
        if sk is not None:
            other = {l for _, l in n.succ if l != "exc"}
            return [((kind, sk), other), (st, {"exc"})]
        return [((kind, ab), None)]

    def tr2(n, st):
        res = transfer(n, st)
        out = []
        for s2, labs in res:
            if labs is None:
                labs = {l for _, l in n.succ}
            out.append((s2, labs))
        return out

    ins, pred = typestate(cfg, ("?", "b"), tr2)
    bad = []
    for ex in (cfg.exit, cfg.raise_exit):
        for st in ins.get(ex.id, ()):
            if st[1] == "nb":
                bad.append((ex, st))
    for ex, st in bad:
        rep.fail("abort-restored", fq, f"leaves with abort still non-blocking ({'exception' if ex is cfg.raise_exit else 'return'}, event kind {st[0]})", "after a notification handler ran (or raised) Association.abort must be the blocking implementation again; otherwise later library aborts return before the A-ABORT is sent", mod=ev, node=tr, path=witness(cfg, pred, ex, st))
    if not bad:
        rep.ok("abort-restored", f"{fq} :: {sum(len(ins.get(e.id, ())) for e in (cfg.exit, cfg.raise_exit))} exit states", "blocking abort restored on every exit")

    # ---- pre-guard ----------------------------------------------------------------------------------
    n_pre = 0
    for s in body_nodoc(tr):
        if s is t:
            break
        for c in [x for x in walk_no_nested(s) if isinstance(x, ast.Call)]:
            nm = dotted(c.func) or norm(c.func)
            n_pre += 1
            okc = nm in PRE_GUARD_ALLOWED or nm.startswith("LOGGER.")
            rep.check(okc, "pre-guard", fq, enclosing(c, (ast.stmt,)), f"{nm}() runs before the guarding try: if it can raise or call user code the failure escapes trigger() for notification events too", mod=ev, node=c)
    rep.floor("calls before the guard", n_pre, 3)

    # ---- intervention sites ------------------------------------------------------------------------------
    _aci = repo.mod("service_class").classes.get("attempt")
    if _aci is None or "__exit__" not in _aci.methods:
        from .c20 import check_attempt_generator
        check_attempt_generator(repo, rep, "intervention-enclosed")
        at_exit = ast.parse("def __exit__(self, exc_type, exc_val, exc_tb):\n    return True").body[0]
    else:
        at_exit = repo.func("service_class", "attempt.__exit__")
    rets = [r for r in walk_no_nested(at_exit) if isinstance(r, ast.Return)]
    sup_ok = bool(rets) and isinstance(body_nodoc(at_exit)[-1], ast.Return) and norm(body_nodoc(at_exit)[-1].value) == "True" and not any(isinstance(x, ast.Raise) for x in walk_no_nested(at_exit))
    rep.check(sup_ok, "intervention-enclosed", "service_class.attempt.__exit__", "falls through to `return True`, never raises", "`with attempt(...)` only contains handler exceptions because __exit__ returns True", mod=repo.mod("service_class"), node=at_exit)
    # every other way out must be the "no exception" case: a falsy return lets the exception propagate
    for r in rets:
        v = r.value
        truthy = isinstance(v, ast.Constant) and v.value is True
        if truthy:
            continue
        g_ = enclosing(r, (ast.If,))
        no_exc = g_ is not None and norm(g_.test) in ("exc_type is None", "exc_val is None", "not exc_type") and any(x is r for x in g_.body)
        rep.check(no_exc, "intervention-enclosed", "service_class.attempt.__exit__", r, f"__exit__ returns a falsy value under `{norm(g_.test) if g_ is not None else 'no condition'}` although an exception is in flight: that exception (e.g. SystemExit / KeyboardInterrupt raised by a handler) propagates out of the SCP into the reactor thread, and no failure response is sent", mod=repo.mod("service_class"), node=r)
    n_int = n_not = 0
    sites = []
    for mname, m in sorted(repo.modules.items()):
        short = mname.replace("pynetdicom.", "")
        if short.startswith(("apps.", "tests.", "benchmarks.")) or short == "events":
            continue
        for c in ast.walk(m.tree):
            if not (isinstance(c, ast.Call) and (dotted(c.func) or "") in ("evt.trigger", "trigger") and len(c.args) >= 2):
                continue
            rep.consulted = getattr(rep, "consulted", None)
            e = dotted(c.args[1]) or norm(c.args[1])
            ename = e.split(".")[-1]
            k = kinds.get(ename)
            fn = enclosing(c, (ast.FunctionDef,))
            fqs = f"{short}.{qualname(c)}"
            if k is None:
                rep.fail("intervention-enclosed", fqs, enclosing(c, (ast.stmt,)), f"trigger() with an event the analysis cannot classify ({e})", mod=m, node=c)
                continue
            if k == "NotificationEvent":
                n_not += 1
                continue
            n_int += 1
            sites.append((m, short, fn, c, ename))
            hs = []
            p, ch = parent(c), c
            protected = None
            while p is not None and p is not fn:
                if isinstance(p, ast.Try) and any(ch is s for s in p.body):
                    for hh in p.handlers:
                        if set(handler_types(hh)) & CATCH_ALL:
                            protected = protected or ("try", hh)
                if isinstance(p, ast.With) and any(suppressing(i) for i in p.items) and any(ch is s for s in p.body):
                    protected = protected or ("attempt", p)
                ch, p = p, parent(p)
            if protected is None:
                rep.fail("intervention-enclosed", fqs, enclosing(c, (ast.stmt,)), f"the {ename} handler is invoked with no try/except Exception or attempt() around it: its exception escapes into the protocol machinery instead of becoming the documented failure response / rejection", mod=m, node=c)
                continue
            if protected[0] == "try":
                hh = protected[1]
                rr = [x for s in hh.body for x in ast.walk(s) if isinstance(x, ast.Raise)]
                rep.check(not rr, "intervention-enclosed", fqs, f"except {'/'.join(handler_types(hh))} after {ename}", f"the handler that catches the {ename} handler's exception raises again", mod=m, node=hh)
                # a narrower handler before it must not re-raise either (NotImplementedError is the "no handler bound" path)
                tnode = parent(hh)
                for h3 in tnode.handlers:
                    if h3 is hh:
                        continue
                    rr3 = [x for s in h3.body for x in ast.walk(s) if isinstance(x, ast.Raise)]
                    rep.check(not rr3, "intervention-enclosed", fqs, f"except {'/'.join(handler_types(h3))} after {ename}", "an except clause of the guard re-raises", mod=m, node=h3)
            else:
                rep.ok("intervention-enclosed", f"{fqs} :: {ename} inside with attempt(...)")
    rep.floor("intervention trigger sites", n_int, 17)
    rep.floor("notification trigger sites", n_not, 35)

    # ---- generator advance -------------------------------------------------------------------------------------
    wh = repo.func("service_class", "ServiceClass._wrap_handler")
    loops = [f for f in walk_no_nested(wh) if isinstance(f, ast.For) and norm(f.iter) == wh.args.args[1].arg]
    okw = False
    if len(loops) == 1:
        tw = enclosing(loops[0], (ast.Try,))
        if tw is not None and any(loops[0] is s for s in tw.body):
            cah = [hh for hh in tw.handlers if set(handler_types(hh)) & CATCH_ALL]
            okw = len(cah) == 1 and not any(isinstance(x, ast.Raise) for s in cah[0].body for x in ast.walk(s))
    rep.check(okw, "generator-advance", "service_class.ServiceClass._wrap_handler", "for result in handler: inside try/except Exception (no re-raise)", "_wrap_handler is what turns an exception raised while the user's generator runs into a (None, exc_info) item", mod=repo.mod("service_class"), node=wh)
    n_gen = 0
    for m, short, fn, c, ename in sites:
        if ename not in GENERATOR_EVENTS:
            continue
        st = enclosing(c, (ast.stmt,))
        if not (isinstance(st, ast.Assign) and isinstance(st.targets[0], ast.Name) and strip_cast(st.value) is c):
            continue
        var = st.targets[0].id
        aliases = {var}
        for s in walk_no_nested(fn):
            if isinstance(s, ast.Assign) and isinstance(s.targets[0], ast.Name) and isinstance(strip_cast(s.value), ast.Name) and strip_cast(s.value).id in aliases:
                aliases.add(s.targets[0].id)
        fqs = f"{short}.{qualname(c)}"
        for x in walk_no_nested(fn):
            if not (isinstance(x, ast.Name) and x.id in aliases and isinstance(x.ctx, ast.Load)):
                continue
            # climb through cast(...) / parentheses
            top = x
            while True:
                p = parent(top)
                if isinstance(p, ast.Call) and dotted(p.func) in ("cast", "typing.cast") and top in p.args:
                    top = p
                    continue
                break
            p = parent(top)
            if isinstance(p, ast.Assign) and p.value is top and all(isinstance(t_, ast.Name) for t_ in p.targets):
                continue  # alias binding
            if isinstance(p, ast.Compare) and all(isinstance(o, (ast.Is, ast.IsNot)) for o in p.ops):
                continue  # `generator is None`
            if isinstance(p, ast.Call) and (dotted(p.func) or "").endswith("._wrap_handler") and top in p.args:
                continue  # advanced by _wrap_handler, inside its own guard
            if isinstance(p, (ast.BoolOp, ast.UnaryOp, ast.If, ast.IfExp)) and not isinstance(p, ast.IfExp):
                continue  # truth test only
            n_gen += 1
            adv = enclosing(x, (ast.stmt,))
            if isinstance(adv, (ast.For, ast.While, ast.If, ast.With)) and not any(y is x for y in ast.walk(adv.iter if isinstance(adv, ast.For) else adv.test if isinstance(adv, (ast.While, ast.If)) else adv.items[0].context_expr)):
                adv = x
            prot = False
            pp, ch = parent(adv), adv
            while pp is not None and pp is not fn:
                if isinstance(pp, ast.Try) and any(ch is s_ for s_ in pp.body) and any(set(handler_types(hh)) & CATCH_ALL for hh in pp.handlers):
                    prot = True
                if isinstance(pp, ast.With) and any(suppressing(i) for i in pp.items) and any(ch is s_ for s_ in pp.body):
                    prot = True
                ch, pp = pp, parent(pp)
            rep.check(prot, "generator-advance", fqs, enclosing(x, (ast.stmt,)) or x, f"the generator returned by the {ename} handler is used ({norm(p)[:60]}) outside try/attempt and not through _wrap_handler: an exception raised inside the user's generator escapes the SCP", mod=m, node=x)
    rep.floor("direct generator advances", n_gen, 3)
    rep.extra["exhaustive"] = False
    check_exc_truth(repo, rep)
    rep.floor("uses of the handler's iterable in _wrap_handler", check_wrap_handler_uses(repo, rep), 1)
    check_logging_total(repo, rep)
    check_locks_released(repo, rep)
    check_subassociation_released(repo, rep)
    check_exception_not_formatted(repo, rep, kinds)
    from ..delegate import delegate
    rep.rule("identity-exception-rejects", "an exception raised by the EVT_USER_ID handler rejects the association; only 'no handler bound' (NotImplementedError) accepts (C13's identity-verdict)")
    delegate(repo, rep, tier, "C13", ("identity-verdict",), "identity-exception-rejects", "an exception the user-identity handler raises is turned into an acceptance instead of the documented A-ASSOCIATE-RJ (0x02, 0x02, 0x01): the association is established for a peer whose identity check failed")

def check_logging_total(repo: Repo, rep: Report) -> None:
    """The containment handlers log what a user handler raised as `LOGGER.exception(exc)`: the record's msg
    is the exception *object*. A logging.Handler's emit() is shielded (handleError), a *filter* is not: what
    a filter raises propagates out of the LOGGER call - out of trigger()'s except body, out of
    attempt.__exit__ - and replaces the contained exception by one that escapes into the protocol machinery.
    So every filter the package installs must treat record.msg / record.args as opaque objects: str(),
    repr(), isinstance(), record.getMessage() only, or an isinstance-guarded use."""
    rep.rule("logging-total", "filters the package installs on its loggers / handlers never apply a type-specific operation to record.msg (the package logs exception objects as msg)")
    from .c27 import pkg_modules

    n_obj = 0
    n_filters = 0
    for short, m in pkg_modules(repo):
        # on the source as written: the canonical tree has benign log lines dropped
        for h in ast.walk(ast.parse(m.src)):
            if isinstance(h, ast.ExceptHandler) and h.name:
                for c in ast.walk(h):
                    if isinstance(c, ast.Call) and isinstance(c.func, ast.Attribute) and isinstance(c.func.value, ast.Name) and c.func.value.id in ("LOGGER", "logger") and c.func.attr in ("exception", "error", "warning", "info", "debug") and c.args and isinstance(c.args[0], ast.Name) and c.args[0].id == h.name:
                        n_obj += 1
    rep.counters["log calls whose msg is a caught exception object"] = n_obj
    rep.floor("log calls whose msg is a caught exception object (the premise of the rule)", n_obj, 10)
    for short, m in pkg_modules(repo):
        for c in ast.walk(m.tree):
            if not (isinstance(c, ast.Call) and isinstance(c.func, ast.Attribute) and c.func.attr == "addFilter" and c.args):
                continue
            a = c.args[0]
            fns = []
            if isinstance(a, ast.Lambda):
                fns.append((a, a.args.args[0].arg if a.args.args else None, [a.body]))
            else:
                nm = a.func if isinstance(a, ast.Call) else a
                if isinstance(nm, ast.Name):
                    ci = m.classes.get(nm.id)
                    if ci is not None:
                        f = ci.methods.get("filter")
                        if f is not None and len(f.args.args) >= 2:
                            fns.append((f, f.args.args[1].arg, f.body))
                    elif nm.id in m.funcs:
                        f = m.funcs[nm.id]
                        fns.append((f, f.args.args[0].arg if f.args.args else None, f.body))
            if not fns:
                rep.defer(f"{short}: addFilter({norm(a)[:40]}) - the filter's code was not found")
                continue
            for f, rec, body in fns:
                n_filters += 1
                bad = []
                for st in body:
                    for x in ast.walk(st):
                        if not (isinstance(x, ast.Attribute) and x.attr in ("msg", "args") and norm(x.value) == rec and isinstance(x.ctx, ast.Load)):
                            continue
                        par = parent(x)
                        if isinstance(par, ast.Call) and x in par.args and dotted(par.func) in ("str", "repr", "isinstance", "type", "id"):
                            continue
                        if isinstance(par, ast.Compare) and all(isinstance(o, (ast.Is, ast.IsNot)) for o in par.ops):
                            continue
                        # guarded: `isinstance(record.msg, str) and <use>` / inside `if isinstance(record.msg, str):`
                        guarded = False
                        p_ = x
                        while p_ is not None and p_ is not f:
                            q_ = parent(p_)
                            if isinstance(q_, ast.BoolOp) and isinstance(q_.op, ast.And):
                                idx = [i for i, v in enumerate(q_.values) if v is p_]
                                if idx and any(isinstance(v, ast.Call) and dotted(v.func) == "isinstance" and v.args and norm(v.args[0]) == norm(x) for v in q_.values[: idx[0]]):
                                    guarded = True
                            if isinstance(q_, ast.If) and any(p_ is b for b in q_.body) and isinstance(q_.test, ast.Call) and dotted(q_.test.func) == "isinstance" and q_.test.args and norm(q_.test.args[0]) == norm(x):
                                guarded = True
                            p_ = q_
                        if not guarded:
                            bad.append(x)
                fq = f"{short}.{qualname(f) if not isinstance(f, ast.Lambda) else 'lambda'}"
                for x in bad[:3]:
                    rep.fail("logging-total", fq, enclosing(x, (ast.stmt,)) or x, f"a logging filter installed by the package applies `{norm(parent(x))[:60]}` to {norm(x)}, which is whatever object was logged: the package logs caught handler exceptions as LOGGER.exception(exc) ({n_obj} sites), for those the filter raises (AttributeError / TypeError), the error propagates out of the logging call inside trigger()'s / attempt's except body and the handler's exception escapes into the DUL / service code instead of being contained", mod=m, node=x)
                if not bad:
                    rep.ok("logging-total", fq, "record.msg / record.args only through str() / repr() / isinstance() / getMessage()")
    rep.counters["logging filters installed by the package"] = n_filters
    if not n_filters:
        rep.ok("logging-total", "pynetdicom :: no logging filter installed", f"{n_obj} log calls carry an exception object as msg")


def check_locks_released(repo: Repo, rep: Report) -> None:
    """The AE-wide lock is taken by the standard (notification) logging handlers and by bind()/unbind().
    A handler that raises is swallowed by trigger() - but only a `with` block (or try/finally) gives the
    lock back on that path. A bare acquire() ... release() pair leaves the non-reentrant lock held after
    the first exception, and every later handler of any association of the AE blocks for ever."""
    rep.rule("lock-released", "every <lock>.acquire() in the package is followed by the matching release() on every exit of the function, the exceptional ones included")
    from ..cfg import CFG
    from .c27 import pkg_modules

    n = 0
    n_with = 0
    for short, m in pkg_modules(repo):
        for w in ast.walk(m.tree):
            if isinstance(w, ast.With) and any("lock" in norm(i.context_expr).lower() for i in w.items):
                n_with += 1
        for c in ast.walk(m.tree):
            if not (isinstance(c, ast.Call) and isinstance(c.func, ast.Attribute) and c.func.attr == "acquire" and "lock" in norm(c.func.value).lower()):
                continue
            fn = enclosing(c, (ast.FunctionDef,))
            if fn is None:
                continue
            n += 1
            recv = norm(c.func.value)
            fq = f"{short}.{qualname(c)}"
            cfg = CFG(fn)
            srcs = cfg.nodes_containing(c)
            if not srcs:
                rep.defer(f"{fq}: acquire() not placed in the control-flow graph")
                continue
            st = enclosing(c, (ast.stmt,))
            res = st.targets[0].id if isinstance(st, ast.Assign) and isinstance(st.targets[0], ast.Name) else None
            may_fail = bool(c.args) or any(k.arg in ("timeout", "blocking") and not (k.arg == "blocking" and isinstance(k.value, ast.Constant) and k.value.value is True) for k in c.keywords)
            if may_fail and isinstance(st, ast.Expr) and st.value is c:
                rep.fail("lock-released", fq, st, f"`{norm(c)}` can return without the lock (timeout / non-blocking) but its result is discarded: the release() that follows then releases a lock this thread does not hold - it is taken away from the thread that does (whose own `with` exit raises RuntimeError('release unlocked lock') in the middle of its work) and mutual exclusion on the AE-wide lock is gone", mod=m, node=c)
                continue

            def via(nd, recv=recv, res=res):
                a = nd.ast
                if a is None:
                    return False
                if nd.kind == "test" and res is not None and isinstance(a, ast.If) and res in norm(a.test) and any(isinstance(r, ast.Call) and norm(r.func) == f"{recv}.release" for b in a.body for r in ast.walk(b)):
                    return True  # `if locked: lock.release()` - the release for the case the acquire succeeded
                roots = [a.test] if nd.kind == "test" and hasattr(a, "test") else [a]
                return nd.kind in ("stmt", "finally") and any(isinstance(r, ast.Call) and norm(r.func) == f"{recv}.release" for rt in roots for r in ast.walk(rt))

            # from the statements that follow a successful acquire (what acquire() itself raises leaves nothing held)
            ok, path = True, []
            for nxt, lab in srcs[0].succ:
                if lab == "exc":
                    continue
                if via(nxt):
                    continue
                if nxt.id in (cfg.exit.id, cfg.raise_exit.id):
                    ok, path = False, [srcs[0], nxt]
                    break
                ok, path = cfg.must_pass(nxt, via, {cfg.exit.id, cfg.raise_exit.id})
                if not ok:
                    path = [srcs[0]] + path
                    break
            where = " -> ".join(f"{p.line}" for p in path[:8] if p.line)
            rep.check(ok, "lock-released", fq, st, f"{recv} is acquired and there is a way out of {fn.name}() that does not release it (lines {where}{' -> raise' if path and path[-1] is cfg.raise_exit else ''}): when the code in between raises - trigger() swallows what a notification handler raises - the lock stays held and every later handler, bind() or unbind() of any association sharing it blocks for ever, so the association outcome changes", mod=m, node=c)
    rep.counters["bare lock.acquire() sites"] = n
    rep.counters["`with <lock>` blocks"] = n_with
    rep.floor("`with <lock>` blocks in the package", n_with, 8)
    if not n:
        rep.ok("lock-released", f"pynetdicom :: {n_with} `with <lock>` blocks, no bare acquire()", "the context manager releases on every exit")


def check_exc_truth(repo: Repo, rep: Report) -> None:
    """_wrap_handler reports what a user's generator raised as the second element of what it yields, and
    its consumers branch on it. As long as that element is sys.exc_info() (a 3-tuple: always true) a
    truth test is harmless; once it is the exception *instance*, `if exc:` runs the user exception's
    __bool__ / __len__ - a falsy (or raising) exception takes the 'no exception' branch or raises out
    of the service class, and the handler's failure escapes into the protocol machinery. An instance
    must be tested with `is not None`."""
    rep.rule("exc-truth", "what _wrap_handler yields for a raised exception is never truth-tested unless it is the sys.exc_info() tuple")
    sc = repo.mod("service_class")
    wh = repo.func("service_class", "ServiceClass._wrap_handler")
    kinds = set()
    for y in walk_no_nested(wh):
        if isinstance(y, ast.Yield) and enclosing(y, (ast.ExceptHandler,)) is not None and isinstance(y.value, ast.Tuple) and len(y.value.elts) == 2:
            v = y.value.elts[1]
            h = enclosing(y, (ast.ExceptHandler,))
            if isinstance(v, ast.Call) and dotted(v.func) == "sys.exc_info":
                kinds.add("exc_info")
            elif isinstance(v, ast.Name) and h.name and v.id == h.name:
                kinds.add("instance")
            elif isinstance(v, ast.Name):
                b_ = [s_ for s_ in walk_no_nested(wh) if isinstance(s_, ast.Assign) and norm(s_.targets[0]) == v.id]
                if b_ and all(isinstance(s_.value, ast.Call) and dotted(s_.value.func) == "sys.exc_info" for s_ in b_):
                    kinds.add("exc_info")
                else:
                    kinds.add("other")
            else:
                kinds.add("other")
    if not kinds:
        rep.defer("service_class.ServiceClass._wrap_handler: no yield in an except handler found")
        return
    n = 0
    for fn in [f for f in ast.walk(sc.tree) if isinstance(f, ast.FunctionDef)]:
        for lp in walk_no_nested(fn):
            if not isinstance(lp, ast.For):
                continue
            it, tg = lp.iter, lp.target
            if isinstance(it, ast.Call) and norm(it.func) == "enumerate" and it.args and isinstance(tg, ast.Tuple) and len(tg.elts) == 2:
                it, tg = it.args[0], tg.elts[1]
            if not (isinstance(it, ast.Call) and norm(it.func) == "self._wrap_handler" and isinstance(tg, ast.Tuple) and len(tg.elts) == 2 and isinstance(tg.elts[1], ast.Name)):
                continue
            ev_name = tg.elts[1].id
            fq = f"service_class.{qualname(fn)}"
            for x in ast.walk(lp):
                tests = []
                if isinstance(x, (ast.If, ast.While, ast.IfExp, ast.Assert)):
                    tests = [x.test]
                for t in tests:
                    atoms = []
                    stack = [t]
                    while stack:
                        a = stack.pop()
                        if isinstance(a, ast.BoolOp):
                            stack.extend(a.values)
                        elif isinstance(a, ast.UnaryOp) and isinstance(a.op, ast.Not):
                            stack.append(a.operand)
                        else:
                            atoms.append(a)
                    for a in atoms:
                        if isinstance(a, ast.Compare) and len(a.ops) == 1 and isinstance(a.ops[0], (ast.Is, ast.IsNot)) and norm(a.left) == ev_name and norm(a.comparators[0]) == "None":
                            n += 1
                            rep.ok("exc-truth", f"{fq} :: `{norm(a)}`", "identity test: runs no user code")
                        if isinstance(a, ast.Name) and a.id == ev_name:
                            n += 1
                            ok = kinds == {"exc_info"}
                            rep.check(ok, "exc-truth", fq, x if isinstance(x, ast.stmt) else enclosing(x, (ast.stmt,)), f"`{ev_name}` is truth-tested, but _wrap_handler yields {sorted(kinds)} for a raised exception: on an exception instance this runs the user's __bool__ / __len__ - a falsy exception is taken for 'no exception' (the loop then unpacks None and the TypeError aborts the association instead of the documented failure response)", mod=sc, node=a)
    rep.floor("truth tests on _wrap_handler's exception slot", n, 3)


def check_wrap_handler_uses(repo: Repo, rep: Report, rule: str = "generator-advance") -> int:
    """_wrap_handler receives whatever the user's C-FIND / C-GET / C-MOVE handler returned: a generator, but
    equally a list, a zip or any other iterable. The only thing it may do with it is iterate it, inside the
    try whose `except Exception` reports a failure as a result. Anything else - a method call such as
    .close() / .send() / .throw(), an attribute read, an operation in a finally / else clause - assumes a
    generator and raises AttributeError (outside the try) for other iterables: the exception leaves the
    service class, the association is aborted and the request gets no final response."""
    sc = repo.mod("service_class")
    wh = repo.func("service_class", "ServiceClass._wrap_handler")
    fq = "service_class.ServiceClass._wrap_handler"
    p = wh.args.args[1].arg
    n = 0
    for x in walk_no_nested(wh):
        if not (isinstance(x, ast.Name) and x.id == p and isinstance(x.ctx, ast.Load)):
            continue
        n += 1
        par = parent(x)
        t = enclosing(x, (ast.Try,))
        in_guarded_body = t is not None and any(x in list(ast.walk(s_)) for s_ in t.body) and any(h.type is None or norm(h.type) in ("Exception", "BaseException") for h in t.handlers)
        iterates = (isinstance(par, ast.For) and par.iter is x) or (isinstance(par, ast.Call) and norm(par.func) in ("next", "iter") and x in par.args) or isinstance(par, ast.YieldFrom)
        ok = iterates and in_guarded_body
        rep.check(ok, rule, fq, enclosing(x, (ast.stmt,)) or x, f"`{norm(par)[:50]}` uses the object the user's handler returned for something other than iterating it inside the guarded try: for a handler that returns a list / zip / map instead of a generator this raises (AttributeError) outside the `except Exception`, so the handler's outcome is not reported as a result - the association is aborted instead of answering", mod=sc, node=x)
    return n


def check_subassociation_released(repo: Repo, rep: Report) -> None:
    """An SCP that opens an association of its own for an operation (C-MOVE: the association with the move
    destination) owns it: once it is established, every way the function returns - the final response after a
    handler exception included - passes its release() or abort(). Otherwise what the destination sees (released
    vs. left to time out) depends on whether the user's handler raised."""
    from ..cfg import CFG
    from .c27 import pkg_modules

    rep.rule("subassociation-released", "an association a service class opened itself (ae.associate) is released or aborted on every return once it is established")
    n = 0
    for short, m in pkg_modules(repo):
        if not short.startswith("service_class"):
            continue
        for a in ast.walk(m.tree):
            if not (isinstance(a, ast.Assign) and len(a.targets) == 1 and isinstance(a.targets[0], ast.Name) and isinstance(a.value, ast.Call) and isinstance(a.value.func, ast.Attribute) and a.value.func.attr == "associate"):
                continue
            fn = enclosing(a, (ast.FunctionDef,))
            if fn is None:
                continue
            name = a.targets[0].id
            fq = f"{short}.{qualname(a)}"
            cfg = CFG(fn)
            tests = [nd for nd in cfg.nodes if nd.kind == "test" and isinstance(nd.ast, ast.If) and norm(nd.ast.test) in (f"not {name}.is_established", f"{name}.is_established")]
            if len(tests) != 1:
                rep.defer(f"{fq}: {len(tests)} tests of {name}.is_established after associate() - the established branch is not identified")
                continue
            n += 1
            tnode = tests[0]
            want = "false" if norm(tnode.ast.test).startswith("not ") else "true"

            def via(nd, name=name):
                x = nd.ast
                if x is None or nd.kind not in ("stmt", "finally"):
                    return False
                return any(isinstance(c, ast.Call) and norm(c.func) in (f"{name}.release", f"{name}.abort") for c in walk_no_nested(x))

            ok, path = True, []
            for nxt, lab in tnode.succ:
                if lab != want:
                    continue
                if via(nxt):
                    continue
                ok, path = cfg.must_pass(nxt, via, {cfg.exit.id}, labels_excluded=("exc",)) if nxt.id != cfg.exit.id else (False, [nxt])
                if not ok:
                    break
            where = " -> ".join(f"{p_.line}" for p_ in path[-6:] if p_.line)
            rep.check(ok, "subassociation-released", fq, enclosing(path[-2].ast, (ast.stmt,)) if len(path) >= 2 and path[-2].ast is not None and not isinstance(path[-2].ast, ast.stmt) else (path[-2].ast if len(path) >= 2 and path[-2].ast is not None else a), f"{fn.name}() returns (lines {where}) with the association `{name}` it opened still established: neither {name}.release() nor {name}.abort() is on that path, so the peer of that association is left to time out - on the path taken after a handler exception this makes the exchange depend on whether the handler raised", mod=m, node=path[-2].ast if len(path) >= 2 and path[-2].ast is not None else a)
    rep.floor("associations opened by a service class", n, 1)


def check_exception_not_formatted(repo: Repo, rep: Report, kinds: dict) -> None:
    """The exception a user's handler raised is a user object: its __str__ / __repr__ / __format__ / __bool__ are
    user code. Where the library catches it - trigger()'s except body, the catch-all around an intervention
    trigger, attempt.__exit__ - it may hand the object to LOGGER.<level>(exc) (logging formats it later, inside
    Handler.emit, which contains errors), re-raise it or test its identity; formatting it there (f-string, str(),
    %) runs user code *before* the documented failure response is sent, and if that raises the exception escapes
    into the protocol machinery after all. Read from the module source as written (logging statements are not part
    of the canonical tree the other rules see)."""
    from .c27 import pkg_modules

    rep.rule("exception-opaque", "where a handler's exception is caught it is only logged lazily, re-raised or identity-tested - never formatted or truth-tested before the failure response")
    n = 0
    for short, m in pkg_modules(repo):
        if short.startswith(("apps.", "tests.", "benchmarks.")):
            continue
        raw = ast.parse(m.src)
        for p_ in ast.walk(raw):
            for c_ in ast.iter_child_nodes(p_):
                c_._parent = p_  # type: ignore[attr-defined]
        for t in ast.walk(raw):
            if isinstance(t, ast.FunctionDef) and t.name == "__exit__" and len(t.args.args) >= 3 and any(isinstance(c, ast.Call) and (dotted(c.func) or "").endswith("send_msg") for c in ast.walk(t)):
                n += 1
                for x_, par_ in eager_exception_uses(t.body, t.args.args[2].arg):
                    rep.fail("exception-opaque", f"{short}.{t.name}", enclosing(x_, (ast.stmt,)) or x_, f"the exception an intervention handler raised is evaluated in __exit__ (`{norm(par_)[:60]}`): that runs the user's __str__ / __repr__ / __bool__, and if it raises no failure response is sent and the exception escapes the with block", mod=m, node=x_)
            if not isinstance(t, ast.Try):
                continue
            fn = enclosing(t, (ast.FunctionDef,))
            user = short == "events" and fn is not None and fn.name == "trigger"
            what = "a bound handler"
            for c in [c for s_ in t.body for c in ast.walk(s_) if isinstance(c, ast.Call)]:
                if (dotted(c.func) or "") in ("evt.trigger", "trigger") and len(c.args) >= 2:
                    ename = (dotted(c.args[1]) or norm(c.args[1])).split(".")[-1]
                    if kinds.get(ename) == "InterventionEvent":
                        user, what = True, f"the {ename} handler"
            if not user:
                continue
            for h in t.handlers:
                if not h.name or not (set(handler_types(h)) & CATCH_ALL):
                    continue
                n += 1
                fq = f"{short}.{fn.name if fn is not None else '<module>'}"
                for x_, par_ in eager_exception_uses(h.body, h.name):
                    rep.fail("exception-opaque", fq, enclosing(x_, (ast.stmt,)) or x_, f"the exception {what} raised is evaluated inside the except body (`{norm(par_)[:60]}`): formatting / str() / truth-testing it runs the user's __str__ / __repr__ / __bool__ before the documented failure response is sent, and if that raises the exception escapes into the protocol machinery after all (LOGGER.<level>({h.name}) defers the formatting to logging, which contains such errors)", mod=m, node=x_)
    rep.floor("except bodies that receive a handler's exception", n, 10)
    if n:
        rep.ok("exception-opaque", f"pynetdicom :: {n} except bodies / __exit__ receiving a handler's exception", "only lazy logging, re-raise, identity tests")
