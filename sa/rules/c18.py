"""C18 - outgoing messages use an accepted context compatible with their content."""

from __future__ import annotations

import ast

from ..loader import AnalysisError, Repo, body_nodoc, dotted, norm, parent, walk_no_nested, enclosing, qualname, strip_cast
from ..report import Report

LEVEL = "other"
EXPLANATION = (
    "One selector plus sibling def-use. (selector) Association._get_valid_context is decided structurally: "
    "candidates come only from the accepted-context table, are filtered by abstract syntax (with the four "
    "documented UPS substitutions and nothing else), by `as_scu is True` / `as_scp is True` for the role "
    "asked, an exact transfer-syntax match returns at once, a candidate is dropped when either syntax is "
    "compressed or the byte orders differ, a convertible match is returned only when conversion is allowed, "
    "and every return hands out a candidate. (siblings) each of the twelve send_* request functions and "
    "_c_store_scp is reduced to a record: which SOP class selects the context, which role, which object the "
    "codec flags are read from, which context id the message is sent on; every record must say: context "
    "from _get_valid_context(<the SOP class put in the request, or meta_uid or it>, .., <role the operation "
    "needs>), flags from that context's transfer_syntax[0], sent on that context's context_id. The records "
    "are also compared with each other and the odd one out is reported. (scp-side) every encode/decode in "
    "the service classes reads its flags from the SCP's own `context` parameter. (responses) the SCU's "
    "response decoders get the request context's transfer syntax. Not decided: pydicom's conversion "
    "between transfer syntaxes; what user code passes as SOP class."
    " Second session: the matching loop of _get_valid_context is evaluated for one candidate over the finite space of what it can look at (requested syntax absent / same / different x is_compressed, is_little_endian, is_deflated, is_implicit_VR of both: 288 points) and compared with the conversion rule; role-source borrows C11's every-context / normalisation rules."
    " Fifth round: (role-source) borrows C11's iteration-independent evaluation; (message-direction) borrowed from C20."
    ' Fifth round (end): (scp-side) a helper that is handed the transfer syntax is checked at its callers.'
    " Sixth round: (same-byte-order) the declared-versus-actual encoding block of send_c_store is evaluated for all 16 combinations; (role-source) borrows C11's setter evaluation."
)

UPS_EXPECTED = {"UnifiedProcedureStepPull", "UnifiedProcedureStepWatch", "UnifiedProcedureStepEvent", "UnifiedProcedureStepQuery"}

# the role the local side must hold to *send* the request (PS3.7: every DIMSE request except
# N-EVENT-REPORT is issued by the SCU; N-EVENT-REPORT is issued by the SCP)
ROLE_NEEDED = {
    "send_c_cancel": "scu", "send_c_echo": "scu", "send_c_find": "scu", "send_c_get": "scu", "send_c_move": "scu",
    "send_c_store": "scu", "send_n_action": "scu", "send_n_create": "scu", "send_n_delete": "scu",
    "send_n_event_report": "scp", "send_n_get": "scu", "send_n_set": "scu",
}


def run(repo: Repo, rep: Report, tier: str) -> None:
    rep.rule("selector", "_get_valid_context: accepted contexts only, abstract-syntax / role / transfer-syntax filters as documented, every return is a candidate")
    rep.rule("context-source", "every send_* takes its context from _get_valid_context with the SOP class it puts in the request and the role the operation needs")
    rep.rule("sent-on", "the message is sent on the selected context's id")
    rep.rule("encoded-with", "the data set is encoded / responses decoded with the selected context's transfer_syntax[0]")
    rep.rule("scp-side", "service classes encode/decode with the transfer syntax of the SCP's own context parameter")
    am = repo.mod("association")
    ci = repo.cls("association", "Association")
    gv = ci.methods.get("_get_valid_context")
    rep.need(gv is not None, "Association._get_valid_context vanished")
    fq = "association.Association._get_valid_context"
    params = [a.arg for a in gv.args.args]
    rep.need(params[:6] == ["self", "ab_syntax", "tr_syntax", "role", "context_id", "allow_conversion"], f"{fq}: signature changed {params}")

    # ---- selector ------------------------------------------------------------------
    cand = "possible_contexts"
    binds = [s for s in walk_no_nested(gv) if isinstance(s, ast.Assign) and norm(s.targets[0]) == cand]
    rep.need(binds, f"{fq}: candidate list vanished")
    for s in binds:
        v = s.value
        txt = norm(v)
        ok = False
        if txt in ("[self._accepted_cx[context_id]]", "self.accepted_contexts", "list(self._accepted_cx.values())"):
            ok = True
        elif isinstance(v, ast.ListComp) and len(v.generators) == 1 and norm(v.generators[0].iter) in (cand, "self.accepted_contexts", "self._accepted_cx.values()") and norm(v.elt) == norm(v.generators[0].target):
            ok = True  # a filter of the candidates
        rep.check(ok, "selector", fq, s, "candidates must come from the accepted-context table (or be a filter of the candidates): anything else can select a context that was not accepted", mod=am, node=s)
    # other mutations of the candidate list
    for c in walk_no_nested(gv):
        if isinstance(c, ast.Call) and isinstance(c.func, ast.Attribute) and norm(c.func.value) == cand and c.func.attr in ("extend", "append", "insert"):
            a = c.args[0]
            ok = False
            inner = a
            if isinstance(inner, ast.ListComp) and len(inner.generators) == 1 and norm(inner.generators[0].iter) in ("self._accepted_cx.values()", "self.accepted_contexts") and norm(inner.elt) == norm(inner.generators[0].target):
                conds = inner.generators[0].ifs
                ok = len(conds) == 1 and isinstance(conds[0], ast.Compare) and isinstance(conds[0].ops[0], ast.In) and norm(conds[0].left).endswith(".abstract_syntax")
                lst = norm(conds[0].comparators[0]) if ok else ""
            g = enclosing(c, (ast.If,))
            okg = g is not None and "ab_syntax == UnifiedProcedureStepPush" in norm(g.test) and f"not {cand}" in norm(g.test)
            rep.check(ok and okg, "selector", fq, enclosing(c, (ast.stmt,)), "the only documented substitution is UPS Push -> Pull/Watch/Event/Query when no exact context exists; candidates may be extended only by accepted contexts with one of those abstract syntaxes", mod=am, node=c)
            if ok:
                ld = [s for s in walk_no_nested(gv) if isinstance(s, ast.Assign) and norm(s.targets[0]) == lst]
                names = {norm(e) for e in ld[0].value.elts} if len(ld) == 1 and isinstance(ld[0].value, (ast.List, ast.Tuple, ast.Set)) else set()
                rep.check(names == UPS_EXPECTED, "selector", fq, f"UPS substitution list {sorted(names)}", "the substitution list must be exactly the four UPS SOP classes", mod=am, node=ld[0] if ld else c)
    # abstract syntax filter
    flt = [s for s in binds if isinstance(s.value, ast.ListComp) and s.value.generators[0].ifs]
    ab = [s for s in flt if norm(s.value.generators[0].ifs[0]) in ("ab_syntax == cx.abstract_syntax", "cx.abstract_syntax == ab_syntax")]
    rep.check(len(ab) == 1, "selector", fq, "candidates filtered by ab_syntax == cx.abstract_syntax", "the context's abstract syntax must be the message's SOP class", mod=am, node=gv)
    for r, attr in (("scu", "as_scu"), ("scp", "as_scp")):
        g = [i for i in walk_no_nested(gv) if isinstance(i, ast.If) and norm(i.test) in (f"role == '{r}'", f"'{r}' == role")]
        ok = len(g) == 1 and len(g[0].body) == 1 and isinstance(g[0].body[0], ast.Assign) and norm(g[0].body[0].targets[0]) == cand and isinstance(g[0].body[0].value, ast.ListComp) and norm(g[0].body[0].value.generators[0].ifs[0]) == f"cx.{attr} is True" and norm(g[0].body[0].value.generators[0].iter) == cand
        rep.check(ok, "selector", fq, g[0] if g else f"role == '{r}'", f"for role '{r}' only contexts with {attr} is True may remain", mod=am, node=g[0] if g else gv)
    # order: the abstract-syntax and role filters precede the matching loop
    loops = [f for f in walk_no_nested(gv) if isinstance(f, ast.For) and norm(f.iter) == cand]
    rep.need(len(loops) == 1, f"{fq}: matching loop vanished")
    lp = loops[0]
    okord = all(s.lineno < lp.lineno for s in binds)
    # candidates may only be *added* before the role filters run: anything added later is never role-checked
    adds = [c for c in walk_no_nested(gv) if isinstance(c, ast.Call) and isinstance(c.func, ast.Attribute) and norm(c.func.value) == cand and c.func.attr in ("extend", "append", "insert")]
    role_ifs = [i for i in walk_no_nested(gv) if isinstance(i, ast.If) and norm(i.test) in ("role == 'scu'", "role == 'scp'", "'scu' == role", "'scp' == role")]
    rebinds_after = [s for s in binds if role_ifs and s.lineno > max(i.lineno for i in role_ifs) and not (isinstance(s.value, ast.ListComp) and norm(s.value.generators[0].iter) == cand)]
    for c in adds:
        okadd = bool(role_ifs) and all(c.lineno < i.lineno for i in role_ifs)
        rep.check(okadd, "selector", fq, enclosing(c, (ast.stmt,)), "candidates are added after the role filter ran: the added contexts (the UPS substitutions) are never checked for as_scu / as_scp, so a request can go out on a context where the local side does not hold the role", mod=am, node=c)
    rep.check(not rebinds_after, "selector", fq, f"candidate list rebuilt after the role filter: {[norm(s)[:60] for s in rebinds_after]}", "the role filter must be the last restriction before matching", mod=am, node=gv)
    rep.check(okord, "selector", fq, "all candidate filters precede the matching loop", "a filter applied after the loop does not constrain what the loop returns", mod=am, node=lp)
    lv = norm(lp.target)
    tsdef = [s for s in lp.body if isinstance(s, ast.Assign) and norm(s.value) == f"{lv}.transfer_syntax[0]"]
    rep.need(len(tsdef) == 1, f"{fq}: cx_syntax binding vanished")
    cxs = norm(tsdef[0].targets[0])
    _check_matching_loop(rep, am, fq, lp, lv, cxs)
    rets = [r for r in walk_no_nested(gv) if isinstance(r, ast.Return)]
    for r in rets:
        v = norm(r.value)
        ok = v == lv or v == "matches[0]"
        if v == "matches[0]":
            g = enclosing(r, (ast.If,))
            ok = g is not None and sorted(norm(x) for x in (g.test.values if isinstance(g.test, ast.BoolOp) and isinstance(g.test.op, ast.And) else [g.test])) == ["allow_conversion", "matches"]
        rep.check(ok, "selector", fq, r, "every return must hand out a candidate: the exact match, or the first convertible match when conversion is allowed", mod=am, node=r)
    tail = body_nodoc(gv)[-1]
    rep.check(isinstance(tail, ast.Raise), "selector", fq, "no candidate -> raise ValueError", "without a matching accepted context nothing may be returned", mod=am, node=tail)

    # ---- siblings ------------------------------------------------------------------------------
    records = {}
    for name in sorted(ROLE_NEEDED):
        fn = ci.methods.get(name)
        rep.need(fn is not None, f"Association.{name} vanished")
        fqn = f"association.Association.{name}"
        calls = [c for c in walk_no_nested(fn) if isinstance(c, ast.Call) and norm(c.func) == "self._get_valid_context"]
        sends = [c for c in walk_no_nested(fn) if isinstance(c, ast.Call) and norm(c.func) == "self.dimse.send_msg"]
        rep.check(len(calls) == 1 and len(sends) == 1, "context-source", fqn, f"{len(calls)} _get_valid_context call(s), {len(sends)} send_msg call(s)", "one context selection and one request per call", mod=am, node=fn)
        if len(calls) != 1 or len(sends) != 1:
            continue
        gc, sm = calls[0], sends[0]
        st = enclosing(gc, (ast.stmt,))
        cvar = norm(st.targets[0]) if isinstance(st, ast.Assign) else None
        aliases = {cvar} if cvar else set()
        for _ in range(3):
            for s_ in walk_no_nested(fn):
                if isinstance(s_, ast.Assign) and isinstance(s_.targets[0], ast.Name) and isinstance(strip_cast(s_.value), ast.Name) and strip_cast(s_.value).id in aliases:
                    aliases.add(s_.targets[0].id)
        role = gc.args[2] if len(gc.args) > 2 else next((k.value for k in gc.keywords if k.arg == "role"), None)
        role_v = role.value if isinstance(role, ast.Constant) else norm(role) if role is not None else None
        sop = norm(strip_cast(gc.args[0]))
        # which request attribute carries the SOP class
        req_var = norm(sm.args[0])
        sop_sets = [s for s in walk_no_nested(fn) if isinstance(s, ast.Assign) and norm(s.targets[0]) in (f"{req_var}.AffectedSOPClassUID", f"{req_var}.RequestedSOPClassUID")]
        def unwrap(e):
            e = strip_cast(e)
            while isinstance(e, ast.Call) and dotted(e.func) == "UID" and len(e.args) == 1:
                e = strip_cast(e.args[0])
            return e
        sop_in_req = norm(unwrap(sop_sets[0].value)) if len(sop_sets) == 1 else None
        sent_on = norm(strip_cast(sm.args[1]))
        tsd = [s for s in walk_no_nested(fn) if isinstance(s, ast.Assign) and norm(s.targets[0]) == "transfer_syntax"]
        ts_src = norm(tsd[0].value) if len(tsd) == 1 else None
        codec_objs = set()
        for c in walk_no_nested(fn):
            if isinstance(c, ast.Call) and isinstance(c.func, ast.Name) and c.func.id in ("encode", "decode") and len(c.args) > 1:
                for a_ in list(c.args[1:4]) + [k.value for k in c.keywords]:
                    a_ = strip_cast(a_)
                    if isinstance(a_, ast.Attribute):
                        codec_objs.add(norm(a_.value))
                    elif not isinstance(a_, ast.Constant):
                        codec_objs.add(norm(a_))
        wraps = [c for c in walk_no_nested(fn) if isinstance(c, ast.Call) and norm(c.func) in ("self._wrap_find_responses", "self._wrap_get_move_responses", "self._check_received_status")]
        records[name] = dict(cvar=cvar, role=role_v, sop=sop, sop_in_req=sop_in_req, sent_on=sent_on, ts_src=ts_src, codec=sorted(codec_objs))
        # role
        need = ROLE_NEEDED[name]
        rep.check(role_v == need, "context-source", fqn, f"_get_valid_context(.., role={role_v!r})", f"{name.replace('send_', '').upper().replace('_', '-')} is sent by the {need.upper()}: the context must be one on which the local side holds that role (role={role_v!r} lets the message go out on a context where it does not)", mod=am, node=gc)
        # SOP class
        if name == "send_c_echo":
            oksop = sop == "Verification"
        elif name == "send_c_cancel":
            oksop = sop == "query_model"
        else:
            oksop = sop_in_req is not None and (sop == sop_in_req or sop == f"meta_uid or {sop_in_req}")
        rep.check(oksop, "context-source", fqn, f"context selected by {sop}; request carries {sop_in_req}", "the context's abstract syntax must be the SOP class the message names (or the documented meta SOP class given by the caller)", mod=am, node=gc)
        # sent on
        oks = cvar is not None and sent_on in {f"{a}.context_id" for a in aliases}
        rep.check(oks, "sent-on", fqn, f"send_msg(.., {sent_on})", f"the request must be sent on the id of the context _get_valid_context returned ({cvar}.context_id); an id from elsewhere is not checked against the accepted contexts", mod=am, node=sm)
        # encoded with
        if codec_objs or tsd:
            okt = ts_src in {f"{a}.transfer_syntax[0]" for a in aliases} and codec_objs <= {"transfer_syntax"}
            rep.check(okt, "encoded-with", fqn, f"transfer_syntax = {ts_src}; codec flags from {sorted(codec_objs)}", "data sets must be encoded with the selected context's transfer syntax", mod=am, node=tsd[0] if tsd else fn)
        for w in wraps:
            if norm(w.func) != "self._check_received_status":
                rep.check(bool(w.args) and norm(w.args[0]) == "transfer_syntax" and ts_src in {f"{a}.transfer_syntax[0]" for a in aliases}, "encoded-with", fqn, w, "the response decoder must be given the request context's transfer syntax", mod=am, node=w)
    rep.floor("send_* siblings", len(records), 12)
    rep.extra["sibling_records"] = records
    # odd one out: (role == needed) already checked individually; compare the shapes
    shapes = {}
    for n, r in records.items():
        shapes.setdefault((r["sent_on"].replace(r["cvar"] or "?", "<cx>"),), []).append(n)
    rep.extra["sent_on_shapes"] = {k[0]: v for k, v in shapes.items()}

    # ---- _c_store_scp -----------------------------------------------------------------------------
    cs = ci.methods["_c_store_scp"]
    fqc = "association.Association._c_store_scp"
    gc = [c for c in walk_no_nested(cs) if isinstance(c, ast.Call) and norm(c.func) == "self._get_valid_context"]
    rep.need(len(gc) == 1, f"{fqc}: context selection vanished")
    role = gc[0].args[2]
    rep.check(isinstance(role, ast.Constant) and role.value == "scp", "context-source", fqc, gc[0], "answering a C-STORE sub-operation needs the SCP role on the context", mod=am, node=gc[0])
    cvar = norm(enclosing(gc[0], (ast.stmt,)).targets[0])
    for sm in [c for c in walk_no_nested(cs) if isinstance(c, ast.Call) and norm(c.func) == "self.dimse.send_msg"]:
        so = norm(strip_cast(sm.args[1]))
        rep.check(so in (f"{cvar}.context_id", "req._context_id"), "sent-on", fqc, enclosing(sm, (ast.stmt,)), f"the response is sent on {so}: it must travel on the request's own context, not on a fixed id that may not even have been accepted", mod=am, node=sm)

    # ---- service classes --------------------------------------------------------------------------------
    n_scp = 0
    for mname, m in sorted(repo.modules.items()):
        short = mname.replace("pynetdicom.", "")
        if not short.startswith("service_class"):
            continue
        for c in ast.walk(m.tree):
            if isinstance(c, ast.Call) and isinstance(c.func, ast.Name) and c.func.id in ("encode", "decode") and len(c.args) > 1 and isinstance(strip_cast(c.args[1]), ast.Attribute):
                fn = enclosing(c, (ast.FunctionDef,))
                if fn is None:
                    continue
                n_scp += 1
                obj = norm(strip_cast(c.args[1]).value)
                ps = [a.arg for a in fn.args.args]
                defs = [s for s in walk_no_nested(fn) if isinstance(s, ast.Assign) and norm(s.targets[0]) == obj]
                ok = "context" in ps and len(defs) == 1 and norm(defs[0].value) == "context.transfer_syntax[0]"
                rebound = [s for s in walk_no_nested(fn) if isinstance(s, ast.Assign) and norm(s.targets[0]) == "context"]
                if not defs and obj in ps[1:] and ps[:1] == ["self"]:
                    # a helper that is handed the transfer syntax: every caller must hand it its own request context's
                    idx = ps.index(obj) - 1
                    callers = [k for k in ast.walk(m.tree) if isinstance(k, ast.Call) and norm(k.func) == f"self.{fn.name}"]
                    ok, rebound = bool(callers), []
                    for k in callers:
                        kf = enclosing(k, (ast.FunctionDef,))
                        arg = k.args[idx] if idx < len(k.args) else next((kw.value for kw in k.keywords if kw.arg == obj), None)
                        kdefs = [s_ for s_ in walk_no_nested(kf) if isinstance(s_, ast.Assign) and arg is not None and norm(s_.targets[0]) == norm(arg)] if kf is not None else []
                        okk = kf is not None and "context" in [a.arg for a in kf.args.args] and len(kdefs) == 1 and norm(kdefs[0].value) == "context.transfer_syntax[0]" and not [s_ for s_ in walk_no_nested(kf) if isinstance(s_, ast.Assign) and norm(s_.targets[0]) == "context"]
                        if not okk:
                            ok = False
                            rep.fail("scp-side", f"{short}.{qualname(k)}", enclosing(k, (ast.stmt,)), f"{fn.name}() encodes with the transfer syntax it is handed, and this caller hands it `{norm(arg) if arg is not None else '?'}`, which is not the transfer syntax of the context the request arrived on", mod=m, node=k)
                    if not ok:
                        continue
                    rep.ok("scp-side", f"{short}.{qualname(c)} :: helper", f"{len(callers)} callers hand it context.transfer_syntax[0]")
                    continue
                rep.check(ok and not rebound, "scp-side", f"{short}.{qualname(c)}", enclosing(c, (ast.stmt,)), f"codec flags read from {obj} = {norm(defs[0].value) if defs else '?'}: an SCP must encode/decode with the transfer syntax of the context the request arrived on (its `context` parameter)", mod=m, node=c)
    rep.floor("service-class codec sites", n_scp, 15)

    check_declared_encoding_mismatch(repo, rep, "same-byte-order")
    # ---- the role the selector filters on is the negotiated one ---------------------------------------
    from ..delegate import delegate
    rep.rule("codec-flags", "every encode / decode call takes all three flags from one transfer-syntax object (C25's rule)")
    rep.rule("message-direction", "a response is sent as a response message whatever its Message ID (C20's response-direction / none-not-falsy)")
    delegate(repo, rep, tier, "C20", ("response-direction", "none-not-falsy"), "message-direction", "the response to a request with Message ID 0 is encoded with the *request* message class: an SCP-only acceptor sends C-ECHO-RQ / C-STORE-RQ / C-FIND-RQ on a context where it does not hold the SCU role")
    delegate(repo, rep, tier, "C25", ("codec-flags",), "codec-flags", "the data set is not encoded with the transfer syntax of the context it is sent on")
    rep.rule("role-source", "as_scu / as_scp of every accepted context come from the role negotiation of that context (C11's every-context and normalisation rules)")
    delegate(repo, rep, tier, "C11", ("iteration-independent", "complementary", "requestor-view"), "role-source", "the acceptor records a role on a context that the negotiation of that context did not give it (a value left over from the previous context): _get_valid_context then offers the context for sending although pynetdicom is not the SCU on it - a C-STORE sub-operation goes out on a context where the peer is not the SCP")
    delegate(repo, rep, tier, "C11", ("every-context", "normalisation"), "role-source", "_get_valid_context filters on as_scu / as_scp: with the proposed roles missing on a context the requestor believes it is SCU there, and a request goes out on a context where the local side does not hold the role")

    from ..lints import no_memoised_io
    rep.rule("no-stale-meta", "no function whose result depends on a file or on configuration is memoised (the File Meta that selects the context is read from the file on every send)")
    rep.floor("functions scanned for memoising decorators", no_memoised_io(repo, rep, "no-stale-meta"), 500)

def _check_matching_loop(rep, am, fq, lp, lv, cxs):
    """The body of the matching loop, evaluated for one candidate over the finite space of what it can look at:
    transfer syntax requested or not, the same as the candidate's or not, and for both syntaxes the
    flags is_compressed / is_little_endian / is_deflated / is_implicit_VR. Required outcome (the documented
    rule): no syntax requested -> convertible match; same syntax -> returned at once; otherwise a
    convertible match exactly when neither side is compressed and the byte orders agree, else skipped."""
    import itertools

    from ..absval import NONE, Explorer
    from ..cfg import CFG

    body_src = "\n".join(ast.unparse(s_) for s_ in lp.body)
    fn = ast.parse("def _one():\n" + "\n".join("    " + l for l in body_src.split("\n")) + "\n    return '__end__'\n").body[0]

    class _K(ast.NodeTransformer):
        def visit_Continue(self, n):
            return ast.copy_location(ast.Return(value=ast.Constant(value="__skip__")), n)

        def visit_For(self, n):
            return n  # a nested loop's continue is its own

        visit_While = visit_For

    fn = ast.fix_missing_locations(_K().visit(fn))
    cfg = CFG(fn, body=fn.body, may_raise=lambda node: False)
    FLAGS = ("is_compressed", "is_little_endian", "is_deflated", "is_implicit_VR")
    n_pts = 0
    bad = []

    def run(tr_tag, flags):
        def tag_of(e, env):
            t = norm(e)
            if t == f"{lv}.transfer_syntax[0]":
                return "C"
            v = env.get(t)
            if isinstance(v, tuple) and v[0] == "str" and v[1] in ("T", "C"):
                return v[1]
            return None

        def special(e, env):
            if norm(e) == f"{lv}.transfer_syntax[0]":
                return ("str", "C")
            if isinstance(e, ast.Attribute) and e.attr in FLAGS:
                tg = tag_of(e.value, env)
                if tg is not None:
                    # 'same syntax': the requested one *is* the candidate's
                    key = "C" if (tr_tag == "same" and tg == "T") else tg
                    return ("bool", flags[(key, e.attr)])
            return None

        def on_stmt(n, env):
            st = n.ast
            if isinstance(st, ast.Expr) and isinstance(st.value, ast.Call) and norm(st.value.func) == "matches.append":
                env = dict(env)
                env["@app"] = ("str", norm(st.value.args[0]) if st.value.args else "?")
                return env
            if isinstance(st, ast.Return):
                env = dict(env)
                env["@ret"] = ("str", norm(st.value) if st.value is not None else "None")
                return env
            return None

        init = {"tr_syntax": NONE if tr_tag == "none" else ("str", "C" if tr_tag == "same" else "T")}
        exits, _ = Explorer(cfg, special=special, on_stmt=on_stmt).run(init)
        outs = set()
        for kind, env in exits:
            if kind != "exit":
                outs.add("raise")
                continue
            r = env.get("@ret", ("str", "?"))[1]
            appended = env.get("@app", ("str", ""))[1] == lv
            if r in ("'__skip__'", "'__end__'"):
                outs.add("match" if appended else "skip")
            elif r == lv:
                outs.add("return")
            else:
                outs.add(f"return {r}")
        return outs

    keys = [(t, f) for t in ("T", "C") for f in FLAGS]
    for tr_tag in ("none", "same", "diff"):
        for vals in itertools.product((False, True), repeat=len(keys)):
            flags = dict(zip(keys, vals))
            if tr_tag != "diff" and any(flags[("T", f)] for f in FLAGS):
                continue  # T's flags are irrelevant: one representative
            n_pts += 1
            want = "match" if tr_tag == "none" else "return" if tr_tag == "same" else ("match" if not flags[("T", "is_compressed")] and not flags[("C", "is_compressed")] and flags[("T", "is_little_endian")] == flags[("C", "is_little_endian")] else "skip")
            got = run(tr_tag, flags)
            if got != {want}:
                bad.append((tr_tag, flags, want, got))
    if not bad:
        rep.ok("selector", f"{fq} :: matching loop over {n_pts} abstract (requested, candidate) transfer-syntax points", "exact match returned first; convertible match iff both uncompressed and same byte order; else skipped")
    else:
        tr_tag, flags, want, got = bad[0]
        desc = "no transfer syntax requested" if tr_tag == "none" else "requested syntax is the candidate's" if tr_tag == "same" else "requested: " + ", ".join(f"{f}={flags[('T', f)]}" for f in FLAGS) + " / candidate: " + ", ".join(f"{f}={flags[('C', f)]}" for f in FLAGS)
        rep.fail("selector", fq, f"matching loop: {desc} -> {sorted(got)} (must be {want})", f"for {len(bad)} of {n_pts} combinations of requested and candidate transfer syntax the loop does not do what the conversion rule says (a data set may only be sent as it is, or converted between uncompressed syntaxes of the same byte order); first: {desc}: the candidate is {sorted(got)}, it must be '{want}'", mod=am, node=lp)
    rep.floor("abstract transfer-syntax points", n_pts, 100)


def check_declared_encoding_mismatch(repo, rep, rule: str) -> None:
    """send_c_store(): when the data set's actual encoding differs from what its File Meta declares, the transfer
    syntax the context is chosen by (and conversions start from) is corrected - or the call refuses. The block
    that does it is evaluated (sa/minipy.py) for all 16 combinations of (implicit VR?, little endian?) of the data
    set and of the declared syntax: when it does not raise, the syntax it leaves has the byte order the data set
    is really encoded in - otherwise the data set is converted across byte orders (element values, pixel data keep
    the old order inside a stream labelled with the new one)."""
    from ..minipy import Interp, Obj, Raised, Unsupported

    rep.rule(rule, "send_c_store: a data set whose encoding differs from its File Meta is sent from a syntax of its real byte order, or refused (16 combinations evaluated)")
    am = repo.mod("association")
    fn = repo.func("association", "Association.send_c_store")
    fq = "association.Association.send_c_store"
    blocks = [i for i in walk_no_nested(fn) if isinstance(i, ast.If) and "ds_encoding" in norm(i.test) and "ts_encoding" in norm(i.test)]
    blocks = [b for b in blocks if not any(o is not b and any(x is b for x in ast.walk(o)) for o in blocks)]  # outermost
    if len(blocks) != 1:
        rep.defer(f"{fq}: the declared-versus-actual encoding test was not found ({len(blocks)} candidates)")
        return
    blk = blocks[0]
    named = {}
    for nm in {n.id for n in ast.walk(blk) if isinstance(n, ast.Name)}:
        if nm.endswith("Endian") or nm.endswith("LittleEndian") or nm.endswith("BigEndian"):
            named[nm] = Obj("UID", {"name": nm, "is_implicit_VR": nm.startswith("Implicit"), "is_little_endian": "Little" in nm, "is_deflated": "Deflated" in nm})
    n = 0
    for ds_imp in (True, False):
        for ds_le in (True, False):
            for ts_imp in (True, False):
                for ts_le in (True, False):
                    declared = Obj("UID", {"name": "declared", "is_implicit_VR": ts_imp, "is_little_endian": ts_le, "is_deflated": False})
                    env = {"ds_encoding": (ds_imp, ds_le), "ts_encoding": (ts_imp, ts_le), "tsyntax": declared, "dataset": Obj("Dataset", {}), "self": Obj("Association", {})}
                    it = Interp(dict(named))
                    inst = f"data set {'implicit' if ds_imp else 'explicit'} VR {'little' if ds_le else 'big'} endian, File Meta declares {'implicit' if ts_imp else 'explicit'} VR {'little' if ts_le else 'big'} endian"
                    try:
                        it.run([blk], env)
                    except Unsupported as exc:
                        rep.defer(f"{fq}: the encoding mismatch block is not evaluable ({exc})")
                        return
                    except Raised:
                        n += 1
                        continue
                    n += 1
                    ts = env["tsyntax"]
                    le = ts.attrs.get("is_little_endian") if isinstance(ts, Obj) else None
                    rep.check(le == ds_le, rule, fq, f"[{inst}] -> continues with {ts.attrs.get('name') if isinstance(ts, Obj) else ts!r}", f"the data set is {'little' if ds_le else 'big'} endian but send_c_store goes on with a {'little' if le else 'big'} endian syntax as its source: it is re-encoded across byte orders (PS3.5: only the VR form may change between uncompressed syntaxes of one byte order) - multi-byte values keep the old order inside a stream labelled with the new one", mod=am, node=blk)
    rep.floor("declared / actual encoding combinations evaluated", n, 16)
