"""C08 - no peer behaviour keeps pynetdicom blocked past its configured timeouts."""

from __future__ import annotations

import ast

from ..cfg import CFG, typestate, witness, calls_at
from ..loader import AnalysisError, Repo, body_nodoc, dotted, norm, parent, walk_no_nested, enclosing, qualname, strip_cast
from ..report import Report

LEVEL = "other"
EXPLANATION = (
    "Elapsed time is not statically bounded; what is decided is that every place where a library thread "
    "can block on the peer carries a configured bound. (recv-bounded) a typestate over every construction "
    "path of the socket AssociationSocket.recv()/send() operate on shows which timeout class it carries "
    "when the connection is marked open: it must be the network timeout (None only when that is "
    "configured as None). (queue-waits) every blocking get on the provider-to-user queue and on the "
    "DIMSE message queue passes a timeout that resolves to acse_timeout / dimse_timeout, and the caller's "
    "None branch ends the wait (abort / return). (event-waits) every Event.wait() without a timeout is "
    "in a frozen table, each entry discharged structurally: the matching set() sits on every exit "
    "(C24's checkpoint rule), in a finally, or ahead of the first blocking call of the setter thread. "
    "(spin-waits) every sleep-polling loop is in a frozen table with the condition it depends on; a "
    "new one is a violation until read. (idle) the association reactor polls the network idle timer and "
    "ends the association when it expires; the timer is restarted only by transport activity. Not "
    "decided: elapsed time, 'plus a small margin', user handlers that block."
    ' Second session: borrowed rules - artim-every-pass (C05 reactor-order and artim-progress) and reactor-resumed (C24 checkpoint); connect() analysed with the path-sensitive ConnectModel, one recv-bounded instance per timeout class that can be on the socket when it is marked open.'
    ' Fourth session: (timers-measure) borrowed from C09: the timers enforcing the timeouts measure elapsed time for every order of start / stop / set-timeout.'
    " Fifth round: the DIMSE / ACSE provider timeout getters must hand out the association's own timeout attribute (`self.assoc.<timeout>`), never a cached or transformed copy."
)

# Event.wait() sites without a timeout: function -> (event, how its set() is guaranteed)
WAIT_TABLE = {
    ("association.Association._run_reactor", "self._reactor_checkpoint"): "set() on every exit of every send_* / response generator (C24 checkpoint rule) and in kill()",
    ("association.Association.run_reactor", "self._dul_ready"): "set() at the top of DULServiceProvider.run_reactor's first iteration, before any blocking call",
    ("association.Association.request", "self._dul_ready"): "same event, requestor side",
    ("acse.ACSE._negotiate_as_requestor", "socket._ready"): "set() in the finally of AssociationSocket.connect(), whose connect() call runs under connection_timeout",
}

# sleep-polling loops: function -> condition, what bounds it
SPIN_TABLE = {
    "association.Association.kill": "dul.is_alive() and not dul.stop_dul(): ends when the provider thread leaves its loop - bounded only if recv() is (rule recv-bounded)",
    "dul.DULServiceProvider.stop_dul": "self.is_alive(): same as kill()",
    "association.Association._run_reactor": "main loop: `while not self._kill`, 1 ms poll",
    "dul.DULServiceProvider.run_reactor": "main loop: `while True`, polls with _run_loop_delay",
    "association.Association.request": "waits for the reactor to pause before ACSE negotiation (local thread, not the peer)",
}


def classify_timeout(arg: ast.AST) -> str:
    t = norm(strip_cast(arg))
    if t == "None":
        return "none"
    if t.endswith("network_timeout"):
        return "network"
    if t.endswith("connection_timeout"):
        return "connection"
    return f"other:{t}"


def run(repo: Repo, rep: Report, tier: str) -> None:
    rep.rule("recv-bounded", "the connected association socket carries the network timeout on both roles")
    rep.rule("queue-waits", "blocking queue gets pass acse_timeout / dimse_timeout and the None outcome ends the wait")
    rep.rule("event-waits", "every untimed Event.wait() is a known site whose set() is structurally guaranteed")
    rep.rule("spin-waits", "every sleep-polling loop is a known site")
    rep.rule("idle", "the reactor ends the association when the network idle timer expires; only transport activity restarts it")
    tr = repo.mod("transport")
    am = repo.mod("association")
    ac = repo.mod("acse")
    dul = repo.mod("dul")

    # ---- recv-bounded ------------------------------------------------------------------
    from ..sock_model import ConnectModel
    cm = ConnectModel(repo)
    co, cfg = cm.fn, cm.cfg
    marks = cm.marks
    rep.need(len(marks) == 1, "transport.connect: `self._is_connected = True` not found")
    # a TLS handshake on an already connected socket talks to the peer: it needs the connection timeout too
    for n in cfg.nodes:
        if n.kind == "stmt" and any(isinstance(c.func, ast.Attribute) and c.func.attr in ("wrap_socket", "do_handshake") for c in calls_at(n)):
            bad = sorted({s_[0][0] for s_ in cm.ins.get(n.id, ()) if s_[0][1] and s_[0][0] != "connection" and not cm.unconfigured(s_[1])})
            rep.check(not bad, "event-waits", "transport.AssociationSocket.connect", n.ast, f"the TLS handshake runs on a connected socket whose timeout class is {bad}: a peer that accepts the TCP connection and never answers the handshake blocks connect() - and AE.associate() behind it - for ever (wrap before connect(), or keep the connection timeout until the handshake is done)", mod=tr, node=n.ast)
    states = cm.classes(marks[0])
    rep.need(bool(states), "transport.connect: no state reaches `self._is_connected = True`")
    for cls_ in states:
        # one instance per timeout class that can be on the socket when it is marked open
        rep.check(cls_ == "network", "recv-bounded", "transport.AssociationSocket.connect", f"requestor socket timeout when marked open: ['{cls_}']", "the requestor's connected socket does not carry the network timeout: a peer that stops part-way through a PDU and keeps the connection open leaves the provider thread in recv() for ever, and the association thread spinning in kill()", mod=tr, node=marks[0].ast)
    # acceptor: the accepted socket must be given the network timeout somewhere on the path
    # get_request -> RequestHandler -> AssociationSocket(client_socket=...)
    ini = repo.func("transport", "AssociationSocket.__init__")
    gr = repo.func("transport", "AssociationServer.get_request")
    acc_sets = []
    for fn in (ini, gr):
        for c in walk_no_nested(fn):
            if isinstance(c, ast.Call) and isinstance(c.func, ast.Attribute) and c.func.attr == "settimeout" and norm(c.func.value) in ("client_socket", "self.socket") and c.args:
                g = enclosing(c, (ast.If,))
                acc_sets.append(classify_timeout(c.args[0]))
    rep.check("network" in acc_sets, "recv-bounded", "transport.AssociationSocket.__init__", f"accepted socket: settimeout classes {acc_sets or 'none set'}", "a socket returned by accept() is blocking and is never given the network timeout (the listening socket's timeout is not inherited): a peer that connects, sends part of a PDU and stays silent blocks the acceptor's provider thread in recv() indefinitely", mod=tr, node=ini)

    # ---- queue waits -------------------------------------------------------------------------
    rp = repo.func("dul", "DULServiceProvider.receive_pdu")
    g = [c for c in walk_no_nested(rp) if isinstance(c, ast.Call) and norm(c.func) == "self.to_user_queue.get"]
    ok = len(g) == 1 and {k.arg: norm(k.value) for k in g[0].keywords} == {"block": "wait", "timeout": "timeout"}
    rep.check(ok, "queue-waits", "dul.DULServiceProvider.receive_pdu", g[0] if g else "to_user_queue.get(..)", "the wait on the provider-to-user queue must use the caller's block/timeout", mod=dul, node=rp)
    n_wait = 0
    for short, m in [(n.replace("pynetdicom.", ""), mm) for n, mm in sorted(repo.modules.items())]:
        if short.startswith(("apps.", "tests.", "benchmarks.")):
            continue
        for c in ast.walk(m.tree):
            if isinstance(c, ast.Call) and isinstance(c.func, ast.Attribute) and c.func.attr == "receive_pdu":
                kw = {k.arg: k.value for k in c.keywords}
                wait = kw.get("wait")
                if wait is None and c.args:
                    wait = c.args[0]
                blocking = wait is not None and not (isinstance(wait, ast.Constant) and wait.value is False)
                if not blocking:
                    continue
                n_wait += 1
                to = kw.get("timeout") or (c.args[1] if len(c.args) > 1 else None)
                okt = to is not None and norm(to) in ("self.acse_timeout", "self.assoc.acse_timeout", "self.acse.acse_timeout")
                fq = f"{short}.{qualname(c)}"
                rep.check(okt, "queue-waits", fq, enclosing(c, (ast.stmt,)), "a blocking wait for the peer's ACSE answer without the ACSE timeout: a peer that never answers blocks the caller for ever", mod=m, node=c)
                # the None outcome must end the wait
                st = enclosing(c, (ast.stmt,))
                fn = enclosing(c, (ast.FunctionDef,))
                if isinstance(st, ast.Assign):
                    v = norm(st.targets[0])
                    tests = [i for i in walk_no_nested(fn) if isinstance(i, ast.If) and norm(i.test) in (f"{v} is None", f"not {v}") and i.lineno > st.lineno]
                    in_loop = enclosing(c, (ast.While, ast.For))
                    ends = bool(tests) and isinstance(tests[0].body[-1], (ast.Return, ast.Raise, ast.Break))
                    gives_up = bool(tests) and any(isinstance(x, ast.Call) and norm(x.func).split(".")[-1] in ("abort", "send_abort", "kill", "kill_dul") for b in tests[0].body for x in ast.walk(b))
                    # outside a loop nothing retries the wait: giving up (abort / kill) is enough
                    okn = ends or (in_loop is None and gives_up)
                    rep.check(okn, "queue-waits", fq, tests[0] if tests else f"`{v} is None` not tested", "after the timeout the wait must end (abort / return), not be retried", mod=m, node=st)
    rep.floor("blocking receive_pdu call sites", n_wait, 2)
    gm = repo.func("dimse", "DIMSEServiceProvider.get_msg")
    g = [c for c in walk_no_nested(gm) if isinstance(c, ast.Call) and norm(c.func) == "self.msg_queue.get"]
    ok = len(g) == 1 and {k.arg: norm(k.value) for k in g[0].keywords} == {"block": "block", "timeout": "self.dimse_timeout"}
    rep.check(ok, "queue-waits", "dimse.DIMSEServiceProvider.get_msg", g[0] if g else "msg_queue.get(..)", "the wait for a DIMSE message must use the DIMSE timeout", mod=repo.mod("dimse"), node=gm)
    loops_g = [w for w in walk_no_nested(gm) if isinstance(w, (ast.While, ast.For))]
    rep.check(not loops_g, "queue-waits", "dimse.DIMSEServiceProvider.get_msg", loops_g[0] if loops_g else "no loop around msg_queue.get", "the wait is retried in a loop: a peer that keeps something trickling in (small never-last fragments) extends the wait beyond the DIMSE timeout without bound", mod=repo.mod("dimse"), node=loops_g[0] if loops_g else gm)
    hs_g = [h for t_ in walk_no_nested(gm) if isinstance(t_, ast.Try) for h in t_.handlers if h.type is not None and "Empty" in norm(h.type)]
    okh = len(hs_g) == 1 and len(hs_g[0].body) == 1 and isinstance(hs_g[0].body[0], ast.Return) and norm(hs_g[0].body[0].value) in ("(None, None)", "None, None")
    rep.check(okh, "queue-waits", "dimse.DIMSEServiceProvider.get_msg", hs_g[0] if hs_g else "except queue.Empty", "when the DIMSE timeout expires get_msg must report (None, None) at once, unconditionally", mod=repo.mod("dimse"), node=hs_g[0] if hs_g else gm)
    dt = repo.cls("dimse", "DIMSEServiceProvider").getters.get("dimse_timeout")
    okd = dt is not None and any(isinstance(r, ast.Return) and norm(r.value) == "self.assoc.dimse_timeout" for r in walk_no_nested(dt))
    rep.check(okd, "queue-waits", "dimse.DIMSEServiceProvider.dimse_timeout", "returns the association's dimse_timeout", "the bound must be the configured one", mod=repo.mod("dimse"), node=dt or gm)
    # every other queue get in the package is non-blocking
    for short, m in [(n.replace("pynetdicom.", ""), mm) for n, mm in sorted(repo.modules.items())]:
        if short.startswith(("apps.", "tests.", "benchmarks.")):
            continue
        for c in ast.walk(m.tree):
            if isinstance(c, ast.Call) and isinstance(c.func, ast.Attribute) and c.func.attr == "get" and norm(c.func.value).split(".")[-1] in ("event_queue", "to_provider_queue", "_recv_pdu", "to_user_queue", "msg_queue", "provider_queue"):
                q = f"{short}.{qualname(c)}"
                if q in ("dul.DULServiceProvider.receive_pdu", "dimse.DIMSEServiceProvider.get_msg"):
                    continue
                nb = (c.args and isinstance(c.args[0], ast.Constant) and c.args[0].value is False) or any(k.arg == "block" and isinstance(k.value, ast.Constant) and k.value.value is False for k in c.keywords)
                rep.check(nb, "queue-waits", q, enclosing(c, (ast.stmt,)), "a blocking queue get with no timeout in a library thread", mod=m, node=c)

    # ---- event waits ----------------------------------------------------------------------------
    n_ev = 0
    for short, m in [(n.replace("pynetdicom.", ""), mm) for n, mm in sorted(repo.modules.items())]:
        if short.startswith(("apps.", "tests.", "benchmarks.")):
            continue
        for c in ast.walk(m.tree):
            if isinstance(c, ast.Call) and isinstance(c.func, ast.Attribute) and c.func.attr == "wait" and not c.args and not c.keywords:
                n_ev += 1
                key = (f"{short}.{qualname(c)}", norm(c.func.value))
                rep.check(key in WAIT_TABLE, "event-waits", key[0], enclosing(c, (ast.stmt,)), f"an untimed wait on {key[1]} that is not in the table of waits whose set() was confirmed: if the setter depends on the peer this blocks for ever", mod=m, node=c)
    rep.floor("untimed Event.wait() sites", n_ev, 4)
    # discharge: _dul_ready.set() precedes every blocking call in the provider loop
    rr = repo.func("dul", "DULServiceProvider.run_reactor")
    loop = [w for w in walk_no_nested(rr) if isinstance(w, ast.While)]
    rep.need(len(loop) == 1, "dul.run_reactor: main loop not found")
    first = loop[0].body[0]
    ok = isinstance(first, ast.If) and "_dul_ready.is_set()" in norm(first.test) and any("_dul_ready.set()" in norm(s) for s in first.body)
    rep.check(ok, "event-waits", "dul.DULServiceProvider.run_reactor", "first statement of the loop sets _dul_ready", "the association thread waits for the provider thread without a timeout: the provider must signal before it can block", mod=dul, node=first)
    # discharge: _ready.set() in connect()'s finally; connect() runs under the connection timeout
    tries = [t for t in walk_no_nested(co) if isinstance(t, ast.Try)]
    ok = len(tries) == 1 and any(norm(s) == "self._ready.set()" for s in tries[0].finalbody)
    rep.check(ok, "event-waits", "transport.AssociationSocket.connect", "finally: self._ready.set()", "the ACSE thread waits for the connection attempt without a timeout: whatever happens in connect() the event must be set", mod=tr, node=tries[0] if tries else co)
    cn = cm.connects
    rep.need(len(cn) == 1, "transport.connect: socket.connect call not found")
    # on a path where the connection timeout is known to be None (not configured) there is nothing to run under
    st_conn = sorted({s_[0][0] for s_ in cm.ins.get(cn[0].id, ()) if not cm.unconfigured(s_[1])})
    rep.check(st_conn == ["connection"], "event-waits", "transport.AssociationSocket.connect", f"socket timeout during connect(): {st_conn}", "the TCP connection attempt must run under the configured connection timeout", mod=tr, node=cn[0].ast)
    # discharge: kill() sets the checkpoint (the reactor can always be woken locally)
    kl = repo.func("association", "Association.kill")
    rep.check(any(norm(s) == "self._reactor_checkpoint.set()" for s in walk_no_nested(kl) if isinstance(s, ast.stmt)), "event-waits", "association.Association.kill", "kill() sets _reactor_checkpoint", "a paused reactor must be released when the association is killed", mod=am, node=kl)
    # every flag some code spins on (`while not self.<flag>: sleep`) with no other bound must be raised by kill():
    # the thread that would have raised it (the reactor) is gone once the association is killed
    spun = set()
    for w_ in ast.walk(am.tree):
        if isinstance(w_, ast.While):
            t_ = w_.test
            if isinstance(t_, ast.UnaryOp) and isinstance(t_.op, ast.Not) and isinstance(t_.operand, ast.Attribute) and norm(t_.operand.value) == "self" and qualname(w_).startswith("Association."):
                spun.add(t_.operand.attr)
    for flag in sorted(spun):
        okk = any(isinstance(s_, ast.Assign) and norm(s_.targets[0]) == f"self.{flag}" and norm(s_.value) == "True" for s_ in walk_no_nested(kl))
        rep.check(okk, "spin-waits", "association.Association.kill", f"kill() sets self.{flag} = True", f"send_* / release() spin on `while not self.{flag}` with no time limit; the reactor that raises the flag stops when the association is killed (abort or close by the peer, a network timeout), so kill() must raise it itself - otherwise a call that was about to pause the reactor spins for ever and no timeout ever starts", mod=am, node=kl)
    rep.floor("flags spun on in Association", len(spun), 1)

    # ---- spin waits --------------------------------------------------------------------------------
    n_spin = 0
    for short, m in [(n.replace("pynetdicom.", ""), mm) for n, mm in sorted(repo.modules.items())]:
        if short.startswith(("apps.", "tests.", "benchmarks.")):
            continue
        for w in [w for w in ast.walk(m.tree) if isinstance(w, ast.While)]:
            sleeps = [c for s in w.body for c in ast.walk(s) if isinstance(c, ast.Call) and dotted(c.func) == "time.sleep"]
            direct = [c for c in sleeps if enclosing(c, (ast.While,)) is w]
            if not direct:
                continue
            n_spin += 1
            q = f"{short}.{qualname(w)}"
            cond = norm(w.test)
            if cond == "not self._is_paused":
                # the send_* idiom: clear the checkpoint, wait for the reactor to park
                prev_ok = any(norm(s) == "self._reactor_checkpoint.clear()" for s in walk_no_nested(enclosing(w, (ast.FunctionDef,))) if isinstance(s, ast.stmt) and s.lineno < w.lineno)
                rep.check(prev_ok, "spin-waits", q, w, "waits for the reactor to pause without having asked it to (no _reactor_checkpoint.clear() before)", mod=m, node=w)
                continue
            rep.check(q in SPIN_TABLE, "spin-waits", q, w, f"a sleep-polling loop on `{cond}` that is not in the table of known waits: if the condition depends on the peer it never ends", mod=m, node=w)
    rep.floor("sleep-polling loops", n_spin, 15)
    rep.extra["spin_table"] = SPIN_TABLE
    rep.extra["wait_table"] = {f"{k[0]} on {k[1]}": v for k, v in WAIT_TABLE.items()}

    # ---- idle timer --------------------------------------------------------------------------------------
    ar = repo.func("association", "Association._run_reactor")
    idle = [i for i in walk_no_nested(ar) if isinstance(i, ast.If) and norm(i.test) == "self.dul.idle_timer_expired()"]
    ok = len(idle) == 1 and any(isinstance(c, ast.Call) and norm(c.func) in ("self.abort", "self.release") for c in ast.walk(idle[0])) and isinstance(idle[0].body[-1], ast.Return) and any(norm(s) == "self.kill()" for s in idle[0].body)
    rep.check(ok, "idle", "association.Association._run_reactor", idle[0] if idle else "if self.dul.idle_timer_expired():", "when the network idle timer expires the association must be ended (abort or release), killed, and the reactor must return", mod=am, node=idle[0] if idle else ar)
    main = [w for w in walk_no_nested(ar) if isinstance(w, ast.While) and norm(w.test) == "not self._kill"]
    rep.check(len(main) == 1 and bool(idle) and any(x is idle[0] for x in ast.walk(main[0])), "idle", "association.Association._run_reactor", "idle test inside the reactor loop", "the idle timer must be polled on every iteration", mod=am, node=ar)
    # the idle timer's period is the configured network timeout: written by Association.network_timeout's
    # setter, which __init__ runs after the provider exists
    nts = repo.cls("association", "Association").setters.get("network_timeout")
    rep.need(nts is not None, "Association.network_timeout setter vanished")
    varg = nts.args.args[1].arg
    ok = any(isinstance(s_, ast.Assign) and norm(s_.targets[0]) == "self.dul._idle_timer.timeout" and norm(s_.value) == varg for s_ in walk_no_nested(nts))
    rep.check(ok, "idle", "association.Association.network_timeout:setter", "self.dul._idle_timer.timeout = value", "the idle timer's period must follow the configured network timeout", mod=am, node=nts)
    ai = repo.func("association", "Association.__init__")
    sets = [s_ for s_ in walk_no_nested(ai) if isinstance(s_, (ast.Assign, ast.AnnAssign)) and norm(s_.targets[0] if isinstance(s_, ast.Assign) else s_.target) == "self.network_timeout"]
    duls = [s_ for s_ in walk_no_nested(ai) if isinstance(s_, (ast.Assign, ast.AnnAssign)) and norm(s_.targets[0] if isinstance(s_, ast.Assign) else s_.target) == "self.dul"]
    ok = len(sets) == 1 and len(duls) == 1 and norm(sets[0].value) == "self.ae.network_timeout" and duls[0].lineno < sets[0].lineno
    rep.check(ok, "idle", "association.Association.__init__", sets[0] if sets else "self.network_timeout = self.ae.network_timeout", "a new association must take the AE's network timeout, after its provider (and idle timer) exists", mod=am, node=ai)
    restarts = [c for c in ast.walk(dul.tree) if isinstance(c, ast.Call) and norm(c.func) in ("self._idle_timer.restart", "self._idle_timer.start")]
    for c in restarts:
        q = qualname(c)
        ok = q == "DULServiceProvider.run_reactor"
        if ok and norm(c.func).endswith("restart"):
            g_ = enclosing(c, (ast.If,))
            ok = g_ is not None and "_is_transport_event()" in norm(g_.test)
        rep.check(ok, "idle", f"dul.{q}", enclosing(c, (ast.stmt,)), "the idle timer may only be (re)started when the reactor starts and on transport activity: anything else lets a silent peer keep the association open", mod=dul, node=c)
    rep.floor("idle timer (re)starts", len(restarts), 2)

    # ---- borrowed: the two reactors keep evaluating their timers --------------------------------------
    from ..delegate import delegate
    rep.rule("artim-every-pass", "the provider's loop tests the ARTIM timer on every pass, ahead of and independent of transport activity (C05's reactor-order rule)")
    delegate(repo, rep, tier, "C05", ("reactor-order", "artim-progress"), "artim-every-pass", "a peer that keeps the transport busy (streams PDUs after an abort / reject / release response) starves the ARTIM test: the provider thread, kill() and the socket outlive the ACSE timeout")
    rep.rule("reactor-resumed", "every DIMSE exchange that paused the association reactor resumes it before surfacing its final result (C24's checkpoint rule)")
    rep.rule("timers-measure", "the timers that enforce the configured timeouts measure elapsed time from start() for every order of start / stop / set-timeout (C09's timer rules)")
    delegate(repo, rep, tier, "C09", ("field-updates", "state-machine", "expired-semantics", "clock-source"), "timers-measure", "the idle / ARTIM timer that enforces a configured timeout does not expire when it should (a timeout set after the timer was started, a restart that does not read the clock): a silent peer keeps the association, its threads and its socket past the configured timeout")
    delegate(repo, rep, tier, "C24", ("checkpoint",), "reactor-resumed", "while the reactor is paused the network (idle) timeout is not enforced and a silent peer keeps the association, its provider thread and the socket alive indefinitely")

    rep.rule("socket-ops", "every method called on a socket in transport.py is non-waiting or one of the waiting operations bounded by the other rules")
    check_socket_ops(repo, rep)
    rep.rule("timeout-propagation", "acse_timeout / network_timeout reach dul.artim_timer / dul._idle_timer: single writer (the setter), field and timer written together, initialiser goes through the property")
    check_timeout_propagation(repo, rep)

def check_timeout_propagation(repo: Repo, rep: Report, rule: str = "timeout-propagation") -> int:
    """The timers that bound the waits live in the provider (dul.artim_timer, dul._idle_timer); the
    configured values live in Association.acse_timeout / network_timeout. They stay equal because the
    backing field has a single writer - the property setter - and the setter writes the timer whenever it
    writes the field. A direct write of `_acse_timeout` / `_network_timeout` elsewhere (an initialiser
    'pre-declaring' the field, a shortcut around the property) leaves the timer at the provider's
    temporary default (30 s / 60 s): the configured timeout - including None, 'never' - is not the one
    that expires."""
    am = repo.mod("association")
    ci = am.classes.get("Association")
    pairs = {"acse_timeout": ("_acse_timeout", "self.dul.artim_timer.timeout"), "network_timeout": ("_network_timeout", "self.dul._idle_timer.timeout")}
    n = 0
    # the waits of the ACSE / DIMSE providers read their timeout through a getter: it must hand out the value
    # configured on *this association* (assoc.acse_timeout is a public, per-association setting), not the AE's
    for mname_, cname_, prop_ in (("acse", "ACSE", "acse_timeout"), ("dimse", "DIMSEServiceProvider", "dimse_timeout")):
        m_ = repo.mod(mname_)
        ci_ = m_.classes.get(cname_)
        g_ = ci_.getters.get(prop_) if ci_ is not None else None
        if g_ is None:
            continue
        n += 1
        rets_ = [r_ for r_ in walk_no_nested(g_) if isinstance(r_, ast.Return) and r_.value is not None]
        ok_ = bool(rets_) and all(norm(strip_cast(r_.value)) in (f"self.assoc.{prop_}", f"self._assoc.{prop_}") for r_ in rets_)
        rep.check(ok_, rule, f"{mname_}.{cname_}.{prop_}", rets_[0] if rets_ else g_, f"the waits of {cname_} take their timeout from `{norm(rets_[0].value) if rets_ else '?'}` instead of the association's own {prop_}: a value set on one association (assoc.{prop_} = 1) is ignored, the wait runs for the AE-wide value (30 s, or for ever with None) - a peer that never answers a release blocks the caller past the configured timeout, and the reactor is paused meanwhile", mod=m_, node=g_)
    for prop, (field, timer) in pairs.items():
        st = ci.setters.get(prop)
        fq = f"association.Association.{prop}"
        if st is None:
            rep.defer(f"{fq}: setter vanished")
            continue
        param = st.args.args[1].arg
        w_field = [s_ for s_ in walk_no_nested(st) if isinstance(s_, ast.Assign) and norm(s_.targets[0]) == f"self.{field}"]
        w_timer = [s_ for s_ in walk_no_nested(st) if isinstance(s_, ast.Assign) and norm(s_.targets[0]) == timer]
        n += 1
        ok = len(w_field) == 1 and len(w_timer) == 1 and norm(w_field[0].value) == param and norm(w_timer[0].value) == param and parent(w_field[0]) is parent(w_timer[0])
        rep.check(ok, rule, fq, w_timer[0] if w_timer else st, f"the setter must write the configured value to both self.{field} and {timer}, together (same block): a path that updates one without the other leaves the provider's timer running with a different timeout than the association reports", mod=am, node=st)
        # any early exit before the pair must be an 'unchanged' test against the backing field
        for r in [r for r in walk_no_nested(st) if isinstance(r, ast.Return)]:
            g = enclosing(r, (ast.If,))
            txt = norm(g.test).replace(" ", "") if g is not None else ""
            okr = txt in (f"{param}==self.{field}", f"self.{field}=={param}")
            rep.check(okr, rule, fq, r, "the setter returns without touching the timer on a path that is not 'value unchanged'", mod=am, node=r)
        # single writer of the backing field
        for fn_ in [f for f in ast.walk(ci.node) if isinstance(f, ast.FunctionDef) and f is not st]:
            for s_ in walk_no_nested(fn_):
                tg = s_.targets[0] if isinstance(s_, ast.Assign) else s_.target if isinstance(s_, (ast.AnnAssign, ast.AugAssign)) and getattr(s_, "value", None) is not None else None
                if tg is not None and norm(tg) == f"self.{field}":
                    n += 1
                    rep.fail(rule, f"association.Association.{fn_.name}", s_, f"self.{field} is written outside the `{prop}` setter: {timer} is not updated with it and keeps the provider's temporary default, so the timeout that actually expires (ARTIM / network idle) is not the configured one - with `None` configured it still expires", mod=am, node=s_)
        # the initialiser configures the timer through the property, after the provider exists
        init = ci.methods.get("__init__")
        via = [s_ for s_ in walk_no_nested(init) if isinstance(s_, (ast.Assign, ast.AnnAssign)) and norm(s_.targets[0] if isinstance(s_, ast.Assign) else s_.target) == f"self.{prop}"]
        mk = [s_ for s_ in walk_no_nested(init) if isinstance(s_, (ast.Assign, ast.AnnAssign)) and norm(s_.targets[0] if isinstance(s_, ast.Assign) else s_.target) == "self.dul"]
        n += 1
        rep.check(bool(via) and bool(mk) and via[0].lineno > mk[0].lineno, rule, "association.Association.__init__", via[0] if via else f"self.{prop} = ..", f"the initialiser must set self.{prop} through the property after the provider was created: that is what gives the provider's timer the AE's configured timeout", mod=am, node=via[0] if via else init)
    rep.floor("timeout propagation obligations", n, 4)
    return n


# socket methods that can wait for the peer, and where each may be used
PEER_WAITING = {
    "recv": "bounded by the socket timeout (recv-bounded rule)",
    "recv_into": "as recv",
    "connect": "runs under the connection timeout (event-waits rule)",
    "accept": "the listening socket carries the network timeout",
    "send": "a full send buffer: C08 does not claim the write direction (documented)",
}
NON_WAITING = {"bind", "close", "getsockname", "getpeername", "setsockopt", "settimeout", "gettimeout", "shutdown", "pending", "fileno", "listen", "__str__", "setblocking", "getsockopt", "detach", "family", "cipher", "version"}


def check_socket_ops(repo: Repo, rep: Report) -> int:
    """every method called on a socket object in transport.py is either known not to wait for the peer or
    one of the waiting operations the other rules bound. Anything else - unwrap() (waits for the peer's TLS
    close_notify), do_handshake(), sendall(), makefile().read ... - is a new way for a silent peer to hold
    a thread: it must come with its own timeout argument here before it is accepted."""
    tr = repo.mod("transport")
    n = 0
    for c in ast.walk(tr.tree):
        if not (isinstance(c, ast.Call) and isinstance(c.func, ast.Attribute)):
            continue
        b = norm(c.func.value)
        if not (b in ("sock", "self.socket", "client_socket", "self.request", "ssl_sock") or b.endswith(".socket") or b.endswith("_socket") or b == "sock"):
            continue
        if b == "socket" or b.startswith("socket."):
            continue
        m = c.func.attr
        n += 1
        fq = f"transport.{qualname(c)}"
        if m in NON_WAITING:
            rep.ok("socket-ops", f"{fq} :: {b}.{m}()", "does not wait for the peer")
        elif m in PEER_WAITING:
            rep.ok("socket-ops", f"{fq} :: {b}.{m}()", PEER_WAITING[m])
        else:
            rep.fail("socket-ops", fq, enclosing(c, (ast.stmt,)) or c, f"{b}.{m}() is not one of the socket operations whose waiting is bounded by the other rules: if it waits for the peer (unwrap() waits for the TLS close_notify, do_handshake() / sendall() for the peer to read) a silent peer keeps this thread - and whoever joins it - past every configured timeout", mod=tr, node=c)
    rep.floor("socket method calls in transport.py", n, 15)
    return n
