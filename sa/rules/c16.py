"""C16 - every DIMSE message sent is completely receivable: CommandDataSetType announces a
data set exactly when data-set fragments are sent."""

from __future__ import annotations

import ast

from ..absval import Explorer, NONE, B_EMPTY, B_FULL, OBJ, truth
from ..cfg import CFG, typestate, witness
from ..consteval import Evaluator
from ..loader import AnalysisError, Repo, body_nodoc, dotted, norm, walk_no_nested, qualname, enclosing, strip_cast
from ..report import Report

LEVEL = "proof"
EXPLANATION = (
    "All sent messages pass through one writer (DIMSEMessage.primitive_to_message) and one "
    "fragment emitter (DIMSEMessage.encode_msg) - shown by who-calls / who-writes queries. Both "
    "functions are explored abstractly over the finite domain data-set parameter in {None, empty "
    "BytesIO, non-empty BytesIO} x chunked-send path in {None, set} x message kind {may carry a "
    "data set, never}; predicate A (CommandDataSetType != 0x0101) and predicate B (at least one "
    "data-set fragment is yielded) must coincide on every reachable point. Reachability of the "
    "points is itself a checked structural premise (who writes _dataset_path)."
    ' Second session: when the announcement for one abstract point has more than one outcome (it depends on something outside the abstraction, e.g. a file size) the sender must agree with each outcome.'
    ' Third session: (completion-marker) every yield of the fragment generator for a limited maximum is dominated by the overhead subtraction, so generator and fragment count use the same payload size; (write-complete) AssociationSocket.send advances its counter by what socket.send() returned and by nothing else, resumes at the counter and ends only at the length of the stream - a short write must not lose the tail of a PDU.'
    ' Fifth round: (write-complete) the send loop is a structural rule over what is written from the stream (`written_from_stream`), whatever the slice is called; the presence predicate is computed by evaluating encode_msg on stand-ins of the abstract point; the blocking-socket premise of the loop comes from the connect model; P-DATA-TF layout borrowed from C01.'
    ' Fifth round (end): (path-premise, second half) every primitive handed to send_msg is built by a dimse_primitives constructor in that function - never a received primitive or a copy of one, which would carry _dataset_path / DataSet into the response.'
)


def _contains(node, pred):
    return any(pred(n) for n in walk_no_nested(node))


def run(repo: Repo, rep: Report, tier: str) -> None:
    rep.rule("presence-agreement", "CommandDataSetType says 'data set present' <=> encode_msg yields >= 1 data-set fragment, on every reachable abstract point")
    rep.rule("single-writer", "CommandDataSetType is written only by primitive_to_message; encode_msg/primitive_to_message are called only from DIMSEServiceProvider.send_msg")
    rep.rule("path-premise", "_dataset_path is set on a primitive only for C_STORE with DataSet left None (chunked send)")
    rep.rule("reader", "decode_msg treats exactly 0x0101 as 'no data set'")
    mod = repo.mod("dimse_messages")
    p2m = repo.func("dimse_messages", "DIMSEMessage.primitive_to_message")
    enc = repo.func("dimse_messages", "DIMSEMessage.encode_msg")
    fq_a = "dimse_messages.DIMSEMessage.primitive_to_message"
    fq_b = "dimse_messages.DIMSEMessage.encode_msg"
    kw_tab = Evaluator(repo, mod, True).name("_DATASET_KEYWORDS")
    rep.need(isinstance(kw_tab, dict) and "C_STORE_RQ" in kw_tab, "_DATASET_KEYWORDS vanished / C_STORE_RQ not in it")

    # ---- predicate A --------------------------------------------------------
    def is_kw_lookup(n):
        return isinstance(n, ast.Subscript) and isinstance(n.value, ast.Name) and n.value.id == "_DATASET_KEYWORDS"

    cfg_a = CFG(p2m, body=body_nodoc(p2m), may_raise=lambda node: _contains(node, is_kw_lookup))
    rep.need(any(_contains(n.ast, is_kw_lookup) for n in cfg_a.nodes if n.ast is not None and n.kind == "stmt"), f"{fq_a}: _DATASET_KEYWORDS lookup vanished")

    def run_a(has_kw: bool, ds, path):
        def special(e, env):
            if isinstance(e, ast.Call) and dotted(e.func) == "getattr" and len(e.args) >= 2:
                a1 = e.args[1]
                if isinstance(a1, ast.Constant) and a1.value == "_dataset_path":
                    return path
                if isinstance(a1, ast.Name):
                    return ds
            return None

        def follow_exc(n, env):
            if n.kind == "stmt" and _contains(n.ast, is_kw_lookup):
                return not has_kw  # KeyError exactly when the message kind has no data-set keyword
            return False

        exits, _ = Explorer(cfg_a, special=special, follow_exc=follow_exc).run({})
        outs = set()
        for kind, env in exits:
            if kind != "exit":
                continue
            cdt = env.get("self.command_set.CommandDataSetType")
            if cdt is None:
                raise AnalysisError(f"{fq_a}: CommandDataSetType not definitely assigned on a path")
            outs.add((cdt[1], env.get("self.data_set"), env.get("self._data_set_path")))
        if not outs:
            raise AnalysisError(f"{fq_a}: no normal exit for an input point")
        # more than one outcome: the announcement depends on something the abstraction does not model (a
        # file size, a length ...); the sender must then agree with *each* of them
        return sorted(outs, key=repr)

    # ---- predicate B --------------------------------------------------------
    cfg_b = CFG(enc, body=body_nodoc(enc), may_raise=lambda node: False)
    n_appends = 0
    for n in cfg_b.nodes:
        if n.kind == "stmt" and _pdv_header(n.ast) is not None:
            n_appends += 1
    rep.counters["PDV append sites in encode_msg"] = n_appends

    def run_b_eval(ds_val, path_val):
        """predicate B by evaluating encode_msg (sa/minipy.py) on concrete stand-ins of the abstract point"""
        from ..minipy import Unsupported as _U
        from .c15 import eval_encode_msg

        if path_val not in (None, NONE) and ds_val in (None, NONE):
            cases = [("file", b"abcdefghij"), ("file", b"")]
        elif ds_val == B_FULL:
            cases = [("memory", b"abcdefghij"), ("memory", b"a")]
        elif ds_val == B_EMPTY:
            cases = [("memory", b"")]
        elif ds_val in (None, NONE) and path_val in (None, NONE):
            cases = [("none", b"")]
        else:
            return None
        res = set()
        try:
            for mode, data in cases:
                for mx in (0, 8, 16):
                    got, problem = eval_encode_msg(repo, b"CMD0", data, mode, mx)
                    if problem is not None:
                        return None
                    res.add(any(len(f_) >= 1 and f_[0] & 1 == 0 for f_ in got))
        except _U:
            return None
        return res.pop() if len(res) == 1 else None

    def run_b(ds_val, path_val):
        ev_ = run_b_eval(ds_val, path_val)
        if ev_ is not None:
            return ev_
        def on_stmt(n, env):
            h = _pdv_header(n.ast)
            if isinstance(h, tuple):
                kinds = {x & 1 for x in h[1]}
                if len(kinds) != 1:
                    raise AnalysisError(f"{fq_b}: a PDV header chosen at run time may be command or data (line {n.ast.lineno})")
                h = min(h[1])
            if h is not None and h & 1 == 0:
                env = dict(env)
                env["@data"] = ("bool", True)
                return env
            return None

        init = {}
        if ds_val is not None:
            init["self.data_set"] = ds_val
        if path_val is not None:
            init["self._data_set_path"] = path_val
        exits, _ = Explorer(cfg_b, on_stmt=on_stmt).run(init)
        res = {bool(env.get("@data")) for kind, env in exits if kind == "exit"}
        if len(res) != 1:
            rep.defer(f"{fq_b}: whether data-set fragments are emitted is not determined by the abstract point ({ds_val}, {path_val}) (loop may run zero times)")
            return None
        return res.pop()

    # ---- both predicates measure the whole buffer ---------------------------------
    rep.rule("position-independent", "the data-set stream is measured (announce) and read (send) through whole-buffer accessors only (getvalue / getbuffer), never relative to the stream position")
    n_acc = 0
    for fn_, fq_ in ((p2m, fq_a), (enc, fq_b)):
        for c in walk_no_nested(fn_):
            if isinstance(c, ast.Call) and isinstance(c.func, ast.Attribute):
                base = norm(strip_cast(c.func.value))
                if base in ("self.data_set", "data_set", "dataset"):
                    n_acc += 1
                    okk = c.func.attr in ("getvalue", "getbuffer", "close")
                    rep.check(okk, "position-independent", fq_, enclosing(c, (ast.stmt,)) or c, f"the data set stream is accessed with .{c.func.attr}(), which depends on the current stream position: whether a data set is announced is decided from the whole buffer, so with the stream not at 0 (an EVT_DIMSE_SENT handler read it, a user-built BytesIO that was written and not rewound) a data set is announced and fewer or no data-set fragments are sent - the peer never completes the message", mod=mod, node=c)
    rep.floor("data-set stream accessors", n_acc, 2)

    # ---- premise: who writes _dataset_path ------------------------------------
    path_only_with_none_ds = _check_path_premise(repo, rep)
    rep.floor("functions that build and send a primitive", check_sent_primitives_fresh(repo, rep), 30)

    points = []
    for has_kw in (True, False):
        for ds in ((NONE, B_EMPTY, B_FULL) if has_kw else (None,)):
            for path in (NONE, OBJ):
                points.append((has_kw, ds, path))
    n_reach = 0
    for has_kw, ds, path in points:
        reachable = True
        why = ""
        if path == OBJ and not has_kw:
            reachable, why = False, "chunked-send path is only set on C_STORE, which may carry a data set"
        if path == OBJ and has_kw and ds != NONE and path_only_with_none_ds:
            reachable, why = False, "chunked send leaves the data-set parameter None (premise checked)"
        outcomes = run_a(has_kw, ds, path)
        for cdt, ds_after, path_after in outcomes:
            a = cdt != 0x0101
            b = run_b(ds_after, path_after)
            if b is None:
                n_reach += 1  # analysed, verdict deferred
                continue
            inst = f"kind={'may-carry' if has_kw else 'never'}, data_set={ds or '-'}, path={'set' if path == OBJ else 'None'}" + (f", outcome 0x{cdt:04X} of {len(outcomes)}" if len(outcomes) > 1 else "")
            rep.sample({"point": inst, "CommandDataSetType": hex(cdt), "announces": a, "fragments_sent": b, "reachable": reachable})
            if not reachable:
                rep.ok("presence-agreement", f"[unreachable] {inst}", why)
                continue
            n_reach += 1
            if a == b:
                rep.ok("presence-agreement", inst, f"CommandDataSetType=0x{cdt:04X}, data fragments={b}")
            else:
                rep.fail("presence-agreement", fq_a, f"point {inst}: announces={a}, sends={b}", f"command set announces {'a' if a else 'no'} data set (CommandDataSetType=0x{cdt:04X}) but encode_msg sends {'data-set fragments' if b else 'none'}: the peer never completes (or mis-frames) the message", mod=mod, node=p2m)
    rep.floor("reachable abstract points", n_reach, 5)
    rep.extra["exhaustive"] = True
    rep.extra["points"] = len(points)

    # ---- completion marker: borrowed from C15's fragment rules -------------------
    rep.rule("completion-marker", "each part that is sent ends with exactly one fragment marked last, and the fragment count is ceil(length / payload): otherwise the receiver never completes the message")
    from . import c15
    c15.run(repo, rep, tier, only_completion=True, names={"overhead-count": "completion-marker", "overhead": "completion-marker", "order-flags": "completion-marker", "one-pdv": "completion-marker"})

    # ---- every fragment the DIMSE layer emits reaches the wire: the P-DATA-TF codec moves each PDV (C01) ------------
    from ..delegate import delegate as _delegate16
    _delegate16(repo, rep, tier, "C01", ("primitive-pairs", "decoder-complete"), "completion-marker", "a PDV is dropped between the P-DATA primitive and the P-DATA-TF PDU (an empty last fragment - only its control header - is a PDV too): the fragment flagged 'last' never reaches the peer and the message is never completed", only=lambda f: "P_DATA_TF" in (f.get("function") or "") + str(f.get("key")))
    # ---- the transport writes every byte of every fragment ------------------------------------
    check_send_loop(repo, rep, "write-complete")

    # ---- single writer / single caller -----------------------------------------
    n_w = 0
    for m in repo.modules.values():
        for n in ast.walk(m.tree):
            if isinstance(n, ast.Attribute) and n.attr == "CommandDataSetType" and isinstance(n.ctx, (ast.Store, ast.Del)):
                n_w += 1
                q = qualname(n)
                rep.check(m is mod and q == "DIMSEMessage.primitive_to_message", "single-writer", f"{m.name.replace('pynetdicom.', '')}.{q}", enclosing(n, (ast.stmt,)) or n, "CommandDataSetType written outside primitive_to_message", mod=m, node=n)
            if isinstance(n, ast.Call) and isinstance(n.func, ast.Attribute) and n.func.attr in ("primitive_to_message", "encode_msg"):
                q = qualname(n)
                rep.check(m.name == "pynetdicom.dimse" and q == "DIMSEServiceProvider.send_msg", "single-writer", f"{m.name.replace('pynetdicom.', '')}.{q}", n, f"{n.func.attr} called outside DIMSEServiceProvider.send_msg: a second send path is not covered by the agreement", mod=m, node=n)
            if isinstance(n, ast.Call) and dotted(n.func) == "setattr" and len(n.args) >= 2 and isinstance(n.args[1], ast.Constant) and n.args[1].value == "CommandDataSetType":
                rep.fail("single-writer", f"{m.name}.{qualname(n)}", n, "setattr on CommandDataSetType", mod=m, node=n)
    rep.floor("CommandDataSetType writers", n_w, 2)
    # send_msg: primitive_to_message precedes encode_msg on the same object
    sm = repo.func("dimse", "DIMSEServiceProvider.send_msg")
    calls = sorted((n.lineno, n.func.attr, norm(n.func.value)) for n in walk_no_nested(sm) if isinstance(n, ast.Call) and isinstance(n.func, ast.Attribute) and n.func.attr in ("primitive_to_message", "encode_msg"))
    ok = len(calls) == 2 and calls[0][1] == "primitive_to_message" and calls[1][1] == "encode_msg" and calls[0][2] == calls[1][2]
    rep.check(ok, "single-writer", "dimse.DIMSEServiceProvider.send_msg", f"{calls}", "send_msg must convert then encode the same message object", mod=repo.mod("dimse"), node=sm)

    # ---- reader ------------------------------------------------------------------
    dec = repo.func("dimse_messages", "DIMSEMessage.decode_msg")
    check_reader_presence(repo, rep, "reader")


def written_from_stream(fn: ast.FunctionDef, call: ast.Call) -> bool:
    """the argument of this socket write is the stream parameter, a view of it, or a slice of either"""
    bp = fn.args.args[1].arg
    views = {bp}
    for s_ in walk_no_nested(fn):
        if isinstance(s_, ast.Assign) and isinstance(s_.targets[0], ast.Name) and isinstance(s_.value, ast.Call) and dotted(s_.value.func) in ("memoryview", "bytes", "bytearray") and s_.value.args and norm(s_.value.args[0]) in views:
            views.add(s_.targets[0].id)
    arg = call.args[0] if call.args else None
    if isinstance(arg, ast.Name) and arg.id not in views:
        defs = [a for a in walk_no_nested(fn) if isinstance(a, ast.Assign) and norm(a.targets[0]) == arg.id]
        arg = defs[0].value if len(defs) == 1 else None
    if isinstance(arg, ast.Name):
        return arg.id in views
    return isinstance(arg, ast.Subscript) and norm(arg.value) in views


def check_send_loop(repo: Repo, rep: Report, rule: str) -> None:
    """AssociationSocket.send(): socket.send() may accept fewer bytes than it was given (a socket with a
    timeout, a signal, a full send buffer). The loop must go on from where the socket stopped: the progress
    counter advances by the value send() returned and by nothing else, the next write starts at the counter,
    and the loop ends only when the counter reaches the length of the stream."""
    rep.rule(rule, "AssociationSocket.send advances by what socket.send() returned and resumes there until the whole stream is written")
    tr = repo.mod("transport")
    fn = repo.func("transport", "AssociationSocket.send")
    fq = "transport.AssociationSocket.send"
    bp = fn.args.args[1].arg
    sends = [c for c in walk_no_nested(fn) if isinstance(c, ast.Call) and isinstance(c.func, ast.Attribute) and c.func.attr in ("send", "sendall") and norm(c.func.value) in ("self.socket", "sock", "self.socket.socket")]
    rep.need(len(sends) >= 1, f"{fq}: no socket write found")
    # names that are the stream or a view of it
    views = {bp}
    for s_ in walk_no_nested(fn):
        if isinstance(s_, ast.Assign) and isinstance(s_.targets[0], ast.Name) and isinstance(s_.value, ast.Call) and dotted(s_.value.func) in ("memoryview", "bytes", "bytearray") and s_.value.args and norm(s_.value.args[0]) in views:
            views.add(s_.targets[0].id)
    lens = {f"len({v})" for v in views}
    for s_ in walk_no_nested(fn):
        if isinstance(s_, ast.Assign) and isinstance(s_.targets[0], ast.Name) and norm(s_.value) in lens:
            lens.add(s_.targets[0].id)
    n = 0
    for c in sends:
        n += 1
        st = enclosing(c, (ast.stmt,))
        if c.func.attr == "sendall":
            ok = c.args and norm(c.args[0]) in views
            rep.check(ok, rule, fq, st, "sendall() must be given the whole stream", mod=tr, node=c)
            continue
        loop = enclosing(c, (ast.While,))
        if loop is None or enclosing(loop, (ast.FunctionDef,)) is not fn:
            rep.fail(rule, fq, st, "socket.send() outside a loop: a short write leaves the rest of the stream unsent and the peer never completes the message", mod=tr, node=c)
            continue
        # the counter: the name compared with the stream's length in the loop test
        t = loop.test
        counter = None
        if isinstance(t, ast.Compare) and len(t.ops) == 1:
            l_, r_ = norm(t.left), norm(t.comparators[0])
            if isinstance(t.ops[0], (ast.Lt, ast.NotEq)) and r_ in lens and isinstance(t.left, ast.Name):
                counter = l_
            elif isinstance(t.ops[0], (ast.Gt, ast.NotEq)) and l_ in lens and isinstance(t.comparators[0], ast.Name):
                counter = r_
        if counter is None:
            rep.defer(f"{fq}: the send loop's test `{norm(t)}` is not `<counter> < <length of the stream>`")
            continue
        # what send() returned
        result = None
        direct = False
        if isinstance(st, ast.Assign) and st.value is c and isinstance(st.targets[0], ast.Name):
            result = st.targets[0].id
        elif isinstance(st, ast.AugAssign) and st.value is c and norm(st.target) == counter and isinstance(st.op, ast.Add):
            direct = True
        else:
            rep.fail(rule, fq, st, "the number of bytes socket.send() accepted is not kept: after a short write the loop cannot know where the socket stopped, the rest of that block never reaches the peer and the message is never completed", mod=tr, node=c)
            continue
        # every update of the counter inside the loop adds exactly that value
        ups = [u for u in ast.walk(loop) if (isinstance(u, ast.AugAssign) and norm(u.target) == counter) or (isinstance(u, ast.Assign) and any(norm(x) == counter for x in u.targets))]
        good = bool(ups)
        for u in ups:
            if isinstance(u, ast.AugAssign) and isinstance(u.op, ast.Add) and ((direct and u.value is c) or (result is not None and norm(u.value) == result)):
                continue
            if isinstance(u, ast.Assign) and result is not None and norm(u.value) in (f"{counter} + {result}", f"{result} + {counter}"):
                continue
            good = False
            rep.fail(rule, fq, u, f"the progress counter is advanced by `{norm(u.value)}` and not by the number of bytes socket.send() returned: after a short write the unsent tail of the block is skipped - part of a PDU never reaches the peer, no exception is raised and the peer never completes the message", mod=tr, node=u)
        if not ups:
            rep.fail(rule, fq, loop, "the send loop never advances its counter", mod=tr, node=loop)
        # the write resumes at the counter
        arg = c.args[0] if c.args else None
        if isinstance(arg, ast.Name) and arg.id not in views:
            defs = [a for a in ast.walk(loop) if isinstance(a, ast.Assign) and norm(a.targets[0]) == arg.id]
            arg = defs[0].value if len(defs) == 1 else None
        resumes = isinstance(arg, ast.Subscript) and norm(arg.value) in views and isinstance(arg.slice, ast.Slice) and arg.slice.lower is not None and norm(arg.slice.lower) == counter and arg.slice.step is None
        if resumes and arg.slice.upper is not None:
            up = arg.slice.upper
            resumes = isinstance(up, ast.BinOp) and isinstance(up.op, ast.Add) and counter in (norm(up.left), norm(up.right))
        rep.check(bool(resumes), rule, fq, f"send({norm(c.args[0]) if c.args else ''}) resumes at {counter}", "each write must start at the first byte the socket has not accepted yet (a slice of the stream from the counter on)", mod=tr, node=c)
        if good and resumes:
            rep.ok(rule, f"{fq} :: counter {counter}", "advanced by send()'s return value only")
    rep.floor("socket writes in AssociationSocket.send", n, 1)
    # the loop relies on a *blocking* socket: with a timeout on the connected socket, send() raises as soon as the
    # peer does not read for that long - in the middle of a PDU whose first bytes are already on the wire
    from ..sock_model import ConnectModel

    cm = ConnectModel(repo)
    if len(cm.marks) == 1:
        states = cm.classes(cm.marks[0])
        rep.check(bool(states) and all(s_ == "none" for s_ in states), rule, "transport.AssociationSocket.connect", f"socket timeout once the connection is marked open: {states}", f"the requestor's connected socket keeps a timeout ({[s_ for s_ in states if s_ != 'none']}): a large message is announced and partly written, the peer stalls for longer than that timeout (it is busy in a handler), send() raises TimeoutError, the loop gives up (Evt17) and the rest of the message is never sent - a blocking socket would simply have waited", mod=tr, node=cm.marks[0].ast)
    else:
        rep.defer("transport.AssociationSocket.connect: the point where the connection is marked open was not found")


def _pdv_header(st: ast.AST):
    """`X.presentation_data_value_list.append((cx, b'\\x0N' + ...))` -> N;
    when the header is a local name bound to `<lit> if <cond> else <lit>` -> ('dyn', {N1, N2});
    not an append -> None."""
    if not (isinstance(st, ast.Expr) and isinstance(st.value, ast.Call)):
        return None
    c = st.value
    if not (isinstance(c.func, ast.Attribute) and c.func.attr == "append" and norm(c.func.value).endswith("presentation_data_value_list")):
        return None
    if not (c.args and isinstance(c.args[0], ast.Tuple) and len(c.args[0].elts) == 2):
        raise AnalysisError(f"encode_msg: PDV append shape not recognised at line {st.lineno}")
    payload = c.args[0].elts[1]

    def lit(e):
        return e.value[0] if isinstance(e, ast.Constant) and isinstance(e.value, bytes) and len(e.value) == 1 else None

    if isinstance(payload, ast.BinOp) and isinstance(payload.op, ast.Add):
        h = lit(payload.left)
        if h is not None:
            return h
        if isinstance(payload.left, ast.Name):
            fn = enclosing(st, (ast.FunctionDef,))
            defs = [a for a in ast.walk(fn) if isinstance(a, ast.Assign) and norm(a.targets[0]) == payload.left.id]
            alts = set()
            for a in defs:
                v = a.value
                if isinstance(v, ast.IfExp) and lit(v.body) is not None and lit(v.orelse) is not None:
                    alts |= {lit(v.body), lit(v.orelse)}
                elif lit(v) is not None:
                    alts.add(lit(v))
                else:
                    alts = None
                    break
            if alts:
                return ("dyn", frozenset(alts))
    raise AnalysisError(f"encode_msg: PDV control header not a 1-byte literal at line {st.lineno}")


def _check_path_premise(repo: Repo, rep: Report) -> bool:
    """Every store `<x>._dataset_path = ...` outside DIMSEMessage.message_to_primitive is in a
    function where, on every path through that store, `<x>.DataSet` is never assigned."""
    all_ok = True
    n = 0
    for m in repo.modules.values():
        for node in ast.walk(m.tree):
            if not (isinstance(node, ast.Attribute) and node.attr == "_dataset_path" and isinstance(node.ctx, ast.Store)):
                continue
            q = qualname(node)
            if m.name == "pynetdicom.dimse_messages" and q == "DIMSEMessage.message_to_primitive":
                continue  # receive side
            if isinstance(node.value, ast.Name) and node.value.id == "self":
                continue  # the primitive's own __init__
            n += 1
            fn = enclosing(node, (ast.FunctionDef,))
            obj = norm(node.value)
            fq = f"{m.name.replace('pynetdicom.', '')}.{q}"
            # the object must be a C_STORE()
            ctor = [s for s in walk_no_nested(fn) if isinstance(s, ast.Assign) and norm(s.targets[0]) == obj and isinstance(s.value, ast.Call)]
            is_store = bool(ctor) and all(dotted(c.value.func) == "C_STORE" for c in ctor)
            rep.check(is_store, "path-premise", fq, enclosing(node, (ast.stmt,)), "_dataset_path set on something other than a fresh C_STORE primitive", mod=m, node=node)
            cfg = CFG(fn, body=body_nodoc(fn), may_raise=lambda x: False)
            # typestate: (path_set, ds_set, dsvar_none) ; dsvar = the local tested by the guard of the DataSet store
            guards = set()
            for s in walk_no_nested(fn):
                if isinstance(s, ast.Assign) and norm(s.targets[0]) == f"{obj}.DataSet":
                    iff = enclosing(s, (ast.If,))
                    while iff is not None:
                        if isinstance(iff.test, ast.Name):
                            guards.add(iff.test.id)
                        iff = enclosing(iff, (ast.If,))

            def transfer(nd, st):
                path_set, ds_set, nones = st
                labels = None
                if nd.kind == "stmt" and isinstance(nd.ast, ast.Assign):
                    t = norm(nd.ast.targets[0])
                    if t == f"{obj}._dataset_path":
                        path_set = True
                    elif t == f"{obj}.DataSet":
                        ds_set = True
                    elif t in guards:
                        v = strip_cast(nd.ast.value)
                        if isinstance(v, ast.Constant) and v.value is None:
                            nones = nones | {t}
                        else:
                            nones = nones - {t}
                if nd.kind == "test" and isinstance(nd.ast.test, ast.Name) and nd.ast.test.id in nones:
                    labels = {"false"}
                return [((path_set, ds_set, nones), labels)]

            ins, pred = typestate(cfg, (False, False, frozenset()), transfer)
            bad = [s for s in ins.get(cfg.exit.id, ()) if s[0] and s[1]]
            ok = not bad
            if not ok:
                all_ok = False
            rep.check(ok, "path-premise", fq, f"{obj}._dataset_path with {obj}.DataSet", "a path sets both the chunked-send path and the in-memory data set on one primitive", mod=m, node=node, path=(witness(cfg, pred, cfg.exit, bad[0]) if bad else None))
    rep.floor("_dataset_path writers (send side)", n, 1)
    return all_ok


def check_reader_presence(repo: Repo, rep: Report, rule: str) -> None:
    """decode_msg ends a message at its last command fragment exactly when the command set says that no data
    set follows: Command Data Set Type == 0x0101 (PS3.7 E.1: 'any other value' means a data set is present).
    The completion test - with the local bindings it uses - is evaluated (sa/minipy.py) for 0x0101 and for
    values that announce a data set (0x0001, 0x0000, 0x0102, 0xFFFF), whatever its spelling."""
    from ..minipy import Interp, Obj, Raised, Unsupported

    mod = repo.mod("dimse_messages")
    dec = repo.func("dimse_messages", "DIMSEMessage.decode_msg")
    fq = "dimse_messages.DIMSEMessage.decode_msg"
    cands = []
    for i in walk_no_nested(dec):
        if isinstance(i, ast.If) and any("CommandDataSetType" in norm(x) for x in ast.walk(i.test)) or (isinstance(i, ast.If) and i.body and isinstance(i.body[-1], ast.Return) and isinstance(i.body[-1].value, ast.Constant) and i.body[-1].value.value is True and _uses_cdst(i, dec)):
            cands.append(i)
    cands = [i for i in cands if any(isinstance(s_, ast.Return) and isinstance(s_.value, ast.Constant) and s_.value.value is True for s_ in i.body + i.orelse)]
    if len(cands) != 1:
        rep.defer(f"{fq}: the 'no data set follows' completion test was not found ({len(cands)} candidates)")
        return
    iff = cands[0]
    blk = _block_of(dec, iff)
    pre = [s_ for s_ in blk[: blk.index(iff)] if isinstance(s_, ast.Assign) and isinstance(s_.targets[0], ast.Name) and any(isinstance(x, ast.Name) and x.id == s_.targets[0].id for x in ast.walk(iff.test))]
    true_completes = any(isinstance(s_, ast.Return) for s_ in iff.body)
    n = 0
    for v, want in ((0x0101, True), (0x0001, False), (0x0000, False), (0x0102, False), (0xFFFF, False)):
        cs = Obj("Dataset", {"CommandDataSetType": v})
        cs.attrs["@get"] = lambda self_, key, default=None: self_.attrs.get(key, default)
        env = {"self": Obj("DIMSEMessage", {"command_set": cs})}
        it = Interp({})
        try:
            for s_ in pre:
                it.stmt(s_, env)
            t = bool(it.ev(iff.test, env))
        except (Unsupported, Raised) as exc:
            rep.defer(f"{fq}: completion test not evaluable ({getattr(exc, 'kind', exc)})")
            return
        n += 1
        completes = t if true_completes else not t
        rep.check(completes == want, rule, fq, f"CommandDataSetType = 0x{v:04X} -> message {'complete' if completes else 'waits for a data set'}", f"with Command Data Set Type 0x{v:04X} the message must {'be complete at its last command fragment' if want else 'wait for its data-set fragments (only 0x0101 means none follow)'}: otherwise {'the receiver waits for fragments that never come' if want else 'the data-set fragments that follow land in a fresh, untyped message and the association is aborted'}", mod=mod, node=iff)
    rep.floor("Command Data Set Type values evaluated", n, 5)


def _uses_cdst(iff: ast.If, fn: ast.AST) -> bool:
    """the test reads a local bound from the command set's CommandDataSetType"""
    names = {x.id for x in ast.walk(iff.test) if isinstance(x, ast.Name)}
    for s_ in walk_no_nested(fn):
        if isinstance(s_, ast.Assign) and isinstance(s_.targets[0], ast.Name) and s_.targets[0].id in names and "CommandDataSetType" in norm(s_.value):
            return True
    return False


def _block_of(fn: ast.AST, st: ast.stmt) -> list:
    for p in ast.walk(fn):
        for f_ in ("body", "orelse", "finalbody"):
            b = getattr(p, f_, None)
            if isinstance(b, list) and any(x is st for x in b):
                return b
    return []


def check_sent_primitives_fresh(repo: Repo, rep: Report, rule: str = "path-premise") -> int:
    """The other half of the premise: the receive side *does* set _dataset_path (and DataSet) on request primitives,
    so a primitive that is sent must never be a received one or a copy of one - every primitive handed to
    send_msg is built in that function by a dimse_primitives constructor (validate_status(.., rsp) hands the same
    object back). `rsp = copy(req)` carries the request's private data-set state into the response: the command
    set then announces a data set that is never sent."""
    prim = set(repo.mod("dimse_primitives").classes)
    n = 0
    for mname in ("service_class", "service_class_n", "association"):
        m = repo.mod(mname)
        for c in ast.walk(m.tree):
            if not (isinstance(c, ast.Call) and (dotted(c.func) or "").endswith("dimse.send_msg") and c.args and isinstance(c.args[0], ast.Name)):
                continue
            fn = enclosing(c, (ast.FunctionDef,))
            if fn is None:
                continue
            x = c.args[0].id
            binds = [a for a in walk_no_nested(fn) if isinstance(a, ast.Assign) and any(norm(t) == x for t in a.targets)]
            binds += [a for a in walk_no_nested(fn) if isinstance(a, ast.AnnAssign) and a.value is not None and norm(a.target) == x]
            if not binds:
                continue  # handed in (a send helper): its callers are checked where they bind it
            n += 1
            fq = f"{mname}.{qualname(c)}"
            for a in binds:
                v = strip_cast(a.value)
                ok = isinstance(v, ast.Call) and ((isinstance(v.func, ast.Name) and v.func.id in prim and not v.args and not v.keywords) or ((dotted(v.func) or "").endswith("validate_status") and v.args and norm(v.args[-1]) == x))
                rep.check(ok, rule, fq, a, f"`{x}` is sent with send_msg but bound from `{norm(a.value)[:60]}`: a primitive that is sent must be built by a dimse_primitives constructor - one derived from a received primitive keeps that primitive's private data-set state (_dataset_path / DataSet), so the command set announces a data set the sender never transmits and the peer never completes the message", mod=m, node=a)
    return n
