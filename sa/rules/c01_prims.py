"""C01 rule 5: from_primitive / to_primitive move the same parameters, mirrored."""

from __future__ import annotations

import ast

from ..loader import AnalysisError, body_nodoc, dotted, norm, strip_cast, walk_no_nested

METHOD_WRITES = {"add_transfer_syntax": "transfer_syntax"}


def _unwrap(e):
    """int(x) / bool(x) / cast(T, x) -> x"""
    while True:
        e = strip_cast(e)
        if isinstance(e, ast.Call) and isinstance(e.func, ast.Name) and e.func.id in ("int", "bool") and len(e.args) == 1:
            e = e.args[0]
            continue
        return e


def check_primitive_pairs(repo, rep, pm):
    n = 0
    for name, ci in pm.classes.items():
        fp, tp = ci.methods.get("from_primitive"), ci.methods.get("to_primitive")
        if fp is None or tp is None:
            continue
        mod = ci.mod
        fq = f"{mod.name.replace('pynetdicom.', '')}.{name}"
        params = [a.arg for a in fp.args.args if a.arg != "self"]
        if not params:
            continue  # static no-op pair (A-RELEASE)
        p = params[0]
        if not body_nodoc(fp) or all(isinstance(s, ast.Pass) for s in body_nodoc(fp)):
            continue
        n += 1
        reads = set()
        from_pairs = set()
        for node in walk_no_nested(fp):
            if isinstance(node, ast.Attribute) and isinstance(node.value, ast.Name) and node.value.id == p and isinstance(node.ctx, ast.Load):
                reads.add(node.attr.lstrip("_"))
            if isinstance(node, ast.Assign) and len(node.targets) == 1:
                t, v = node.targets[0], _unwrap(node.value)
                if isinstance(t, ast.Attribute) and norm(t.value) == "self" and isinstance(v, ast.Attribute) and isinstance(v.value, ast.Name) and v.value.id == p:
                    from_pairs.add((t.attr, v.attr.lstrip("_")))
        if not reads and any(isinstance(x, ast.For) and norm(x.iter) == p for x in walk_no_nested(fp)):
            # container of items, each converted by its own pair (UserInformationItem)
            ok = any(isinstance(c, ast.Call) and isinstance(c.func, ast.Attribute) and c.func.attr == "from_primitive" for c in walk_no_nested(fp)) and any(isinstance(c, ast.Call) and isinstance(c.func, ast.Attribute) and c.func.attr == "to_primitive" for c in walk_no_nested(tp))
            rep.check(ok, "primitive-pairs", fq, "each element converted by its own from_primitive/to_primitive", "container conversion must delegate to the elements in both directions", mod=mod, node=fp)
            continue
        # result objects of to_primitive
        rets = {norm(r.value) for r in walk_no_nested(tp) if isinstance(r, ast.Return) and isinstance(r.value, ast.Name)}
        if not rets:
            raise AnalysisError(f"{fq}.to_primitive: returned object not a local name")
        writes, const_writes = set(), set()
        to_pairs = set()
        for node in walk_no_nested(tp):
            if isinstance(node, ast.Assign) and len(node.targets) == 1:
                t, v = node.targets[0], _unwrap(node.value)
                if isinstance(t, ast.Attribute) and isinstance(t.value, ast.Name) and t.value.id in rets:
                    a = t.attr.lstrip("_")
                    if isinstance(v, ast.Constant) or (isinstance(v, ast.List) and not v.elts):
                        const_writes.add(a)
                    else:
                        writes.add(a)
                    if isinstance(v, ast.Attribute) and norm(v.value) == "self":
                        to_pairs.add((v.attr, a))
            if isinstance(node, ast.Call) and isinstance(node.func, ast.Attribute):
                f = node.func
                if f.attr == "append" and isinstance(f.value, ast.Attribute) and isinstance(f.value.value, ast.Name) and f.value.value.id in rets:
                    writes.add(f.value.attr.lstrip("_"))
                if f.attr in METHOD_WRITES and isinstance(f.value, ast.Name) and f.value.id in rets:
                    writes.add(METHOD_WRITES[f.attr])
        missing = reads - writes
        extra = writes - reads
        rep.check(not missing and not extra, "primitive-pairs", fq, f"reads {sorted(reads)} / writes {sorted(writes)}", f"from_primitive reads {sorted(reads)} from the primitive but to_primitive restores {sorted(writes)} (dropped: {sorted(missing)}, invented: {sorted(extra)})", mod=mod, node=tp)
        # mirror: self.X <- prim.Y  must be matched by prim.Y <- self.X
        for x, y in sorted(from_pairs):
            back = {sx for sx, py in to_pairs if py == y}
            if back:
                rep.check(x in back, "primitive-pairs", fq, f"{y}: from -> self.{x}, to <- self.{sorted(back)}", f"parameter {y} is stored in self.{x} but restored from self.{sorted(back)}: cross-wired", mod=mod, node=tp)
    rep.floor("from/to_primitive pairs", n, 15)
