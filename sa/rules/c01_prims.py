"""C01 rule 5: from_primitive / to_primitive move the same parameters, mirrored."""

from __future__ import annotations

import ast

from ..loader import AnalysisError, body_nodoc, dotted, norm, strip_cast, walk_no_nested, parent, enclosing

METHOD_WRITES = {"add_transfer_syntax": "transfer_syntax"}


def _unwrap(e):
    """int(x) / bool(x) / cast(T, x) -> x"""
    while True:
        e = strip_cast(e)
        if isinstance(e, ast.Call) and isinstance(e.func, ast.Name) and e.func.id in ("int", "bool") and len(e.args) == 1:
            e = e.args[0]
            continue
        return e


def check_primitive_pairs(repo, rep, pm):
    n = 0
    for name, ci in pm.classes.items():
        fp, tp = ci.methods.get("from_primitive"), ci.methods.get("to_primitive")
        if fp is None or tp is None:
            continue
        mod = ci.mod
        fq = f"{mod.name.replace('pynetdicom.', '')}.{name}"
        params = [a.arg for a in fp.args.args if a.arg != "self"]
        if not params:
            continue  # static no-op pair (A-RELEASE)
        p = params[0]
        if not body_nodoc(fp) or all(isinstance(s, ast.Pass) for s in body_nodoc(fp)):
            continue
        n += 1
        reads = set()
        from_pairs = set()
        for node in walk_no_nested(fp):
            if isinstance(node, ast.Attribute) and isinstance(node.value, ast.Name) and node.value.id == p and isinstance(node.ctx, ast.Load):
                reads.add(node.attr.lstrip("_"))
            if isinstance(node, ast.Assign) and len(node.targets) == 1:
                t, v = node.targets[0], _unwrap(node.value)
                if isinstance(t, ast.Attribute) and norm(t.value) == "self" and isinstance(v, ast.Attribute) and isinstance(v.value, ast.Name) and v.value.id == p:
                    from_pairs.add((t.attr, v.attr.lstrip("_")))
        if not reads and any(isinstance(x, ast.For) and norm(x.iter) == p for x in walk_no_nested(fp)):
            # container of items, each converted by its own pair (UserInformationItem)
            ok = any(isinstance(c, ast.Call) and isinstance(c.func, ast.Attribute) and c.func.attr == "from_primitive" for c in walk_no_nested(fp)) and any(isinstance(c, ast.Call) and isinstance(c.func, ast.Attribute) and c.func.attr == "to_primitive" for c in walk_no_nested(tp))
            rep.check(ok, "primitive-pairs", fq, "each element converted by its own from_primitive/to_primitive", "container conversion must delegate to the elements in both directions", mod=mod, node=fp)
            continue
        # result objects of to_primitive
        rets = {norm(r.value) for r in walk_no_nested(tp) if isinstance(r, ast.Return) and isinstance(r.value, ast.Name)}
        if not rets:
            raise AnalysisError(f"{fq}.to_primitive: returned object not a local name")
        writes, const_writes = set(), set()
        to_pairs = set()
        for node in walk_no_nested(tp):
            if isinstance(node, ast.Assign) and len(node.targets) == 1:
                t, v = node.targets[0], _unwrap(node.value)
                if isinstance(t, ast.Attribute) and isinstance(t.value, ast.Name) and t.value.id in rets:
                    a = t.attr.lstrip("_")
                    if isinstance(v, ast.Constant) or (isinstance(v, ast.List) and not v.elts):
                        const_writes.add(a)
                    else:
                        writes.add(a)
                    if isinstance(v, ast.Attribute) and norm(v.value) == "self":
                        to_pairs.add((v.attr, a))
            if isinstance(node, ast.Call) and isinstance(node.func, ast.Attribute):
                f = node.func
                if f.attr == "append" and isinstance(f.value, ast.Attribute) and isinstance(f.value.value, ast.Name) and f.value.value.id in rets:
                    writes.add(f.value.attr.lstrip("_"))
                if f.attr in METHOD_WRITES and isinstance(f.value, ast.Name) and f.value.id in rets:
                    writes.add(METHOD_WRITES[f.attr])
        missing = reads - writes
        extra = writes - reads
        rep.check(not missing and not extra, "primitive-pairs", fq, f"reads {sorted(reads)} / writes {sorted(writes)}", f"from_primitive reads {sorted(reads)} from the primitive but to_primitive restores {sorted(writes)} (dropped: {sorted(missing)}, invented: {sorted(extra)})", mod=mod, node=tp)
        # mirror: self.X <- prim.Y  must be matched by prim.Y <- self.X
        for x, y in sorted(from_pairs):
            back = {sx for sx, py in to_pairs if py == y}
            if back:
                rep.check(x in back, "primitive-pairs", fq, f"{y}: from -> self.{x}, to <- self.{sorted(back)}", f"parameter {y} is stored in self.{x} but restored from self.{sorted(back)}: cross-wired", mod=mod, node=tp)
    rep.floor("from/to_primitive pairs", n, 15)
    # a moved parameter is moved as it is: no value-level default (`x or y`, `a if c else b`) may
    # stand between the primitive and the PDU field - for some legal value the other operand would be
    # sent / restored instead. No conversion uses one today (0 expected; self-test keeps a positive).
    m_n = 0
    for name, ci in pm.classes.items():
        mod = ci.mod
        fq = f"{mod.name.replace('pynetdicom.', '')}.{name}"
        for meth in ("from_primitive", "to_primitive"):
            fn = ci.methods.get(meth)
            if fn is None:
                continue
            m_n += 1
            for node in walk_no_nested(fn):
                if isinstance(node, (ast.BoolOp, ast.IfExp)) and not isinstance(getattr(node, "_p", None), (ast.If, ast.While)):
                    par = parent(node)
                    if isinstance(par, (ast.If, ast.While, ast.Assert)) and par.test is node:
                        continue
                    if isinstance(par, (ast.BoolOp, ast.UnaryOp)):
                        continue
                    if any(isinstance(x, ast.Attribute) and isinstance(x.ctx, ast.Load) for x in ast.walk(node)):
                        rep.fail("primitive-pairs", f"{fq}.{meth}", enclosing(node, (ast.stmt,)) or node, f"`{norm(node)}`: a parameter moved between primitive and PDU goes through a value-level default; for some legal value (a non-default name, 0, b'', False) the other operand is transmitted / restored instead of the parameter", mod=mod, node=node)
    rep.floor("conversion methods scanned for value-level defaults", m_n, 30)
    # statement-level spelling of the same thing: an `if` that decides whether a parameter is moved.
    # Accepted guards (all that exist today, read): isinstance dispatch over item kinds, `<x> is [not] None`
    # (absent parameter), and the two frozen sites below.
    GUARDS = {
        ("pdu", "A_ABORT_RQ.to_primitive", "self.source == 2"): "source 2 = provider: A-P-ABORT primitive instead of A-ABORT (PS3.8 9.3.8)",
        ("pdu_items", "PresentationContextItemAC.to_primitive", "self.transfer_syntax"): "rejected contexts legally carry no (or an ignorable) transfer syntax",
    }
    g_n = 0
    for name, ci in pm.classes.items():
        mod = ci.mod
        short = mod.name.replace("pynetdicom.", "")
        for meth in ("from_primitive", "to_primitive"):
            fn = ci.methods.get(meth)
            if fn is None:
                continue
            for node in walk_no_nested(fn):
                if not isinstance(node, ast.If):
                    continue
                moves = any((isinstance(x, (ast.Assign, ast.AugAssign)) and isinstance((x.targets[0] if isinstance(x, ast.Assign) else x.target), (ast.Attribute, ast.Subscript))) or (isinstance(x, ast.Call) and isinstance(x.func, ast.Attribute) and x.func.attr in ("append", "extend", "add_transfer_syntax", "insert")) for b in (node.body, node.orelse) for st in b for x in ast.walk(st))
                # a branch that leaves the iteration / the method without raising skips the moves that follow it
                skips = any(isinstance(b[-1], (ast.Continue, ast.Break, ast.Return)) for b in (node.body, node.orelse) if b)
                if not moves and not skips:
                    continue
                g_n += 1
                t = node.test
                atoms = t.values if isinstance(t, ast.BoolOp) else [t]
                def accepted(a):
                    if isinstance(a, ast.UnaryOp) and isinstance(a.op, ast.Not):
                        a = a.operand
                    if isinstance(a, ast.Call) and norm(a.func) == "isinstance":
                        return True
                    if isinstance(a, ast.Compare) and len(a.ops) == 1 and isinstance(a.ops[0], (ast.Is, ast.IsNot)) and norm(a.comparators[0]) == "None":
                        return True
                    return False
                key = (short, f"{name}.{meth}", norm(t))
                if all(accepted(a) for a in atoms):
                    rep.ok("primitive-pairs", f"{short}.{name}.{meth} :: guard `{norm(t)}`", "item-kind dispatch / absent-parameter test")
                elif key in GUARDS:
                    rep.ok("primitive-pairs", f"{short}.{name}.{meth} :: guard `{norm(t)}`", GUARDS[key])
                else:
                    rep.fail("primitive-pairs", f"{short}.{name}.{meth}", node, f"`if {norm(t)}` decides whether / which value of a parameter is moved between primitive and PDU; the only guards a conversion may use are item-kind dispatch and `is None` (absent) tests - any other makes some legal value of the parameter disappear or be replaced", mod=mod, node=node)
    rep.floor("guards in conversion methods", g_n, 10)


# ---- one object per element ---------------------------------------------------------------------
def check_fresh_per_iteration(repo, rep, modules=("pdu", "pdu_items", "pdu_primitives", "dimse_messages", "dimse", "presentation", "acse")):
    """An object that is appended to a list inside a loop must be created inside that loop: a
    variable bound only outside the loop, whose attributes are assigned inside it and which is
    appended inside it, makes every list element the same (last written) object."""
    rep.rule("fresh-per-element", "an object appended inside a loop is created inside that loop (no aliasing of one object across all elements)")
    n_sites = 0
    for mname in modules:
        m = repo.mod(mname)
        for fn in [f for f in ast.walk(m.tree) if isinstance(f, ast.FunctionDef)]:
            for lp in [l for l in walk_no_nested(fn) if isinstance(l, (ast.For, ast.While))]:
                body_nodes = [x for s in lp.body for x in ast.walk(s)]
                appends = [c for c in body_nodes if isinstance(c, ast.Call) and isinstance(c.func, ast.Attribute) and c.func.attr in ("append", "add", "insert") and c.args and isinstance(c.args[-1], ast.Name)]
                for c in appends:
                    v = c.args[-1].id
                    n_sites += 1
                    bound_inside = any(isinstance(s, (ast.Assign, ast.AnnAssign)) and any(isinstance(t, ast.Name) and t.id == v for t in (s.targets if isinstance(s, ast.Assign) else [s.target])) for s in body_nodes if isinstance(s, (ast.Assign, ast.AnnAssign)))
                    is_loop_var = any(isinstance(n_, ast.Name) and n_.id == v for n_ in ast.walk(lp.target)) if isinstance(lp, ast.For) else False
                    inner_for = any(isinstance(f2, (ast.For, ast.comprehension)) and any(isinstance(n_, ast.Name) and n_.id == v for n_ in ast.walk(f2.target)) for f2 in body_nodes if isinstance(f2, (ast.For, ast.comprehension)))
                    with_as = any(isinstance(w, ast.withitem) and w.optional_vars is not None and norm(w.optional_vars) == v for w in body_nodes if isinstance(w, ast.withitem))
                    if bound_inside or is_loop_var or inner_for or with_as:
                        continue
                    # append followed by break / return in the same block: at most one append per run of this loop
                    from ..loader import parent as _parent
                    st_ = c
                    while not isinstance(st_, ast.stmt):
                        st_ = _parent(st_)
                    blk_owner = _parent(st_)
                    leaves = False
                    for fld in ("body", "orelse", "finalbody"):
                        blk = getattr(blk_owner, fld, None)
                        if isinstance(blk, list) and st_ in blk:
                            rest = blk[blk.index(st_) + 1:]
                            leaves = any(isinstance(r, (ast.Break, ast.Return, ast.Raise)) for r in rest) and not any(isinstance(r, (ast.For, ast.While, ast.If, ast.Try, ast.With)) for r in rest[: next((k for k, r in enumerate(rest) if isinstance(r, (ast.Break, ast.Return, ast.Raise))), 0)])
                    if leaves:
                        continue
                    mutated = [s for s in body_nodes if isinstance(s, (ast.Assign, ast.AugAssign)) and any(isinstance(t, (ast.Attribute, ast.Subscript)) and isinstance(t.value, ast.Name) and t.value.id == v for t in (s.targets if isinstance(s, ast.Assign) else [s.target]))]
                    mutated += [x for x in body_nodes if isinstance(x, ast.Call) and isinstance(x.func, ast.Attribute) and isinstance(x.func.value, ast.Name) and x.func.value.id == v and x.func.attr in ("decode", "from_primitive", "update", "append", "extend")]
                    if not mutated:
                        continue  # the same immutable/unchanged value appended repeatedly: not this rule's concern
                    from ..loader import qualname
                    fq = f"{mname}.{qualname(fn)}"
                    rep.fail("fresh-per-element", fq, lp, f"`{v}` is created before the loop, filled in and appended inside it: every element of the list is the same object and ends up holding the values of the last iteration (with two or more elements the earlier ones are lost on the wire)", mod=m, node=c)
    rep.counters["append-in-loop sites examined"] = n_sites
    if n_sites < 10:
        rep.defer(f"append-in-loop sites examined = {n_sites} < 10: the aliasing rule no longer sees the codec loops")
    else:
        rep.ok("fresh-per-element", f"{n_sites} append-in-loop sites", "each appended object is created per iteration")


# ---- RQ / AC variant selection ---------------------------------------------------------------------
def _abstract_test(t: ast.AST, name: str, value):
    """evaluate a test over `name` for value in {None, b'', b'x'}; returns True/False or raises"""
    if isinstance(t, ast.UnaryOp) and isinstance(t.op, ast.Not):
        return not _abstract_test(t.operand, name, value)
    if isinstance(t, ast.BoolOp):
        vals = [_abstract_test(v, name, value) for v in t.values]
        return all(vals) if isinstance(t.op, ast.And) else any(vals)
    if isinstance(t, ast.Compare) and len(t.ops) == 1 and norm(t.left) == name:
        c = t.comparators[0]
        cv = c.value if isinstance(c, ast.Constant) else AnalysisError
        if cv is AnalysisError:
            raise AnalysisError(f"variant test compares {name} with a non-constant")
        op = t.ops[0]
        if isinstance(op, ast.Is):
            return value is cv
        if isinstance(op, ast.IsNot):
            return value is not cv
        if isinstance(op, ast.Eq):
            return value == cv
        if isinstance(op, ast.NotEq):
            return value != cv
    if norm(t) == name:
        return bool(value)
    if isinstance(t, ast.Call) and dotted(t.func) == "len" and len(t.args) == 1 and norm(t.args[0]) == name:
        if value is None:
            raise AnalysisError("len(None)")
        return len(value)
    if isinstance(t, ast.Call) and dotted(t.func) == "isinstance" and norm(t.args[0]) == name:
        return value is not None
    raise AnalysisError(f"variant test not modelled: {norm(t)[:60]}")


def check_variant_selection(repo, rep):
    """UserIdentityNegotiation is one primitive for two wire items: the -RQ item when no server
    response is present and the -AC item otherwise. The -AC item's to_primitive writes the decoded
    response bytes - which PS3.7 D.3.3.7 allows to be empty - so the selector must send every bytes
    value (b'' included) to the -AC item and only None to the -RQ item."""
    rep.rule("variant-selection", "UserIdentityNegotiation.from_primitive builds the -AC item for every bytes server_response (b'' included) and the -RQ item only for None")
    pp = repo.mod("pdu_primitives")
    ci = pp.classes.get("UserIdentityNegotiation")
    if ci is None or "from_primitive" not in ci.methods:
        rep.defer("pdu_primitives.UserIdentityNegotiation.from_primitive vanished")
        return
    fn = ci.methods["from_primitive"]
    fq = "pdu_primitives.UserIdentityNegotiation.from_primitive"
    sel = None
    for i in body_nodoc(fn):
        if isinstance(i, ast.If):
            made_body = {norm(c.func) for s in i.body for c in ast.walk(s) if isinstance(c, ast.Call) and isinstance(c.func, ast.Name) and c.func.id.startswith("UserIdentitySubItem")}
            made_else = {norm(c.func) for s in i.orelse for c in ast.walk(s) if isinstance(c, ast.Call) and isinstance(c.func, ast.Name) and c.func.id.startswith("UserIdentitySubItem")}
            if made_body and made_else and made_body != made_else:
                sel = (i, made_body, made_else)
    if sel is None:
        rep.defer(f"{fq}: the RQ/AC selector was not recognised")
        return
    i, mb, me = sel
    try:
        res = {repr(v): _abstract_test(i.test, "self.server_response", v) for v in (None, b"", b"x")}
    except AnalysisError as exc:
        rep.defer(f"{fq}: {exc}")
        return
    body_is_rq = mb == {"UserIdentitySubItemRQ"}
    want = {"None": body_is_rq, "b''": not body_is_rq, "b'x'": not body_is_rq}
    got = {k: bool(v) for k, v in res.items()}
    rep.check(got == want, "variant-selection", fq, i.test, f"selector `{norm(i.test)}` is {got} over server_response in (None, b'', b'x'); it must be {want}: a zero-length server response (the positive response for identity types 1 and 2, PS3.7 Table D.3-15) is otherwise turned into an -RQ item", mod=pp, node=i)
    # the inverse direction: the AC item hands its (possibly empty) response bytes to the primitive
    it = repo.mod("pdu_items").classes.get("UserIdentitySubItemAC")
    tp = it.methods.get("to_primitive") if it is not None else None
    ok = tp is not None and any(isinstance(s, ast.Assign) and norm(s.targets[0]).endswith(".server_response") and norm(s.value) == "self.server_response" for s in walk_no_nested(tp))
    rep.check(ok, "variant-selection", "pdu_items.UserIdentitySubItemAC.to_primitive", "primitive.server_response = self.server_response", "the decoded response bytes (possibly empty) must reach the primitive unchanged", mod=repo.mod("pdu_items"), node=tp or it.node)


# ---- numeric parameters accept their whole wire range --------------------------------------------------
class _Unk(Exception):
    pass


def _cev(e, env):
    """concrete evaluation of the little language setter guards are written in"""
    e = strip_cast(e)
    if isinstance(e, ast.Constant):
        return e.value
    if isinstance(e, ast.Name):
        if e.id in env:
            return env[e.id]
        if e.id in ("int", "float", "str", "bytes", "bool", "type", "None"):
            return {"int": int, "float": float, "str": str, "bytes": bytes, "bool": bool, "type": type, "None": None}[e.id]
        raise _Unk(e.id)
    if isinstance(e, ast.Tuple) or isinstance(e, ast.List):
        return [_cev(x, env) for x in e.elts]
    if isinstance(e, ast.UnaryOp):
        v = _cev(e.operand, env)
        if isinstance(e.op, ast.Not):
            return not v
        if isinstance(e.op, ast.USub):
            return -v
        raise _Unk("unary")
    if isinstance(e, ast.BinOp):
        l, r = _cev(e.left, env), _cev(e.right, env)
        ops = {ast.Add: lambda a, b: a + b, ast.Sub: lambda a, b: a - b, ast.Mult: lambda a, b: a * b, ast.Pow: lambda a, b: a ** b, ast.LShift: lambda a, b: a << b, ast.FloorDiv: lambda a, b: a // b, ast.Mod: lambda a, b: a % b, ast.BitAnd: lambda a, b: a & b}
        if type(e.op) in ops:
            return ops[type(e.op)](l, r)
        raise _Unk("binop")
    if isinstance(e, ast.BoolOp):
        if isinstance(e.op, ast.And):
            v = True
            for x in e.values:
                v = _cev(x, env)
                if not v:
                    return v
            return v
        v = False
        for x in e.values:
            v = _cev(x, env)
            if v:
                return v
        return v
    if isinstance(e, ast.Compare):
        left = _cev(e.left, env)
        for op, c in zip(e.ops, e.comparators):
            right = _cev(c, env)
            fn = {ast.Lt: lambda a, b: a < b, ast.LtE: lambda a, b: a <= b, ast.Gt: lambda a, b: a > b, ast.GtE: lambda a, b: a >= b, ast.Eq: lambda a, b: a == b, ast.NotEq: lambda a, b: a != b, ast.In: lambda a, b: a in b, ast.NotIn: lambda a, b: a not in b, ast.Is: lambda a, b: a is b, ast.IsNot: lambda a, b: a is not b}.get(type(op))
            if fn is None:
                raise _Unk("cmp")
            if not fn(left, right):
                return False
            left = right
        return True
    if isinstance(e, ast.Call):
        f = norm(e.func)
        if f == "isinstance" and len(e.args) == 2:
            v = _cev(e.args[0], env)
            t = _cev(e.args[1], env)
            return isinstance(v, tuple(t) if isinstance(t, list) else t)
        if f == "range":
            return range(*[_cev(a, env) for a in e.args])
        if f in ("int", "abs", "len", "bool"):
            return {"int": int, "abs": abs, "len": len, "bool": bool}[f](*[_cev(a, env) for a in e.args])
        raise _Unk(f)
    raise _Unk(type(e).__name__)


def _accepts(stmts, env) -> bool:
    """does the setter body get past its guards for this value? (False = a raise is reached)"""
    for s in stmts:
        if isinstance(s, ast.Raise):
            return False
        if isinstance(s, ast.Return):
            return True
        if isinstance(s, ast.If):
            br = s.body if _cev(s.test, env) else s.orelse
            if not _accepts(br, env):
                return False
            if br and isinstance(br[-1], ast.Return):
                return True
    return True


# numeric quantities of PS3.7 Annex D / PS3.8 9.3 that are plain unsigned integers of the field's width
# (everything else that is numeric on the wire is an enumeration the setter may legitimately restrict)
NUMERIC_PARAMS = {
    ("pdu_primitives", "MaximumLengthNotification", "maximum_length_received"): 4,
    ("pdu_primitives", "AsynchronousOperationsWindowNegotiation", "maximum_number_operations_invoked"): 2,
    ("pdu_primitives", "AsynchronousOperationsWindowNegotiation", "maximum_number_operations_performed"): 2,
}


def check_numeric_ranges(repo, rep):
    rep.rule("numeric-range", "the setter of every plain unsigned-integer parameter accepts each value its wire field can carry (0 .. 2^(8w)-1)")
    n = 0
    for (mname, cname, pname), w in NUMERIC_PARAMS.items():
        m = repo.mod(mname)
        ci = m.classes.get(cname)
        st = repo.lookup_method(ci, pname, "setter")[1] if ci is not None else None
        fq = f"{mname}.{cname}.{pname}"
        if st is None:
            rep.defer(f"{fq}: setter vanished")
            continue
        param = st.args.args[1].arg
        top = (1 << (8 * w)) - 1
        for v in (0, 1, top - 1, top):
            n += 1
            try:
                ok = _accepts(body_nodoc(st), {param: v})
            except _Unk as exc:
                rep.defer(f"{fq}: guard not evaluable ({exc})")
                break
            rep.check(ok, "numeric-range", fq, f"value {v}", f"the setter rejects {v}, which the {w}-byte field carries: a decoded item with that value cannot be converted to a primitive (to_primitive raises -> the A-ASSOCIATE PDU is treated as invalid and the association aborted), and a user cannot send it", mod=m, node=st)
    rep.floor("numeric boundary values evaluated", n, 12)
