"""C07 - a peer's release request is always answered with a release response."""

from __future__ import annotations

import ast

from ..cfg import CFG, typestate, witness, calls_at
from ..loader import AnalysisError, Repo, body_nodoc, dotted, norm, walk_no_nested, enclosing, qualname, head
from ..report import Report

LEVEL = "other"
EXPLANATION = (
    "Consume => answer, as a path rule. (1) The functions that can dequeue a primitive from the "
    "provider's to_user_queue are enumerated (every dul.receive_pdu call site) and compared with "
    "a frozen who-may-consume table. (2) ACSE.is_release_requested is summarised from its own "
    "CFG: under which parameter values a call that returns True has removed the A-RELEASE "
    "indication. (3) At every call site that can consume, a typestate marks the branch on which "
    "the indication may have been consumed and requires acse.send_release(is_response=True) on "
    "every path before the enclosing function returns. (4) The reactor's release branch must "
    "set is_released, clear is_established, fire EVT_RELEASED and kill(). (5) negotiate_release "
    "answers a colliding request on both roles. Decides this for every arrival point because "
    "the indication can only leave the queue through the enumerated sites."
    ' Second session: borrowed rules - ready-probe (C03: the release request sitting in a TLS buffer is seen on every SSLSocket) and provider-survives (C05 artim restricted to the release states Sta7-Sta12).'
    " Fourth session: (provider-survives) also C04's Timer run-state rule; (request-reaches-action) C03's pairing of a queued PDU with its event."
    " Fifth round: (request-reaches-action) borrows C03's one event source per pass; (release-before-timeout) in one pass of the reactor a pending release request is acted on before the network timeout is evaluated."
    " Sixth round: (provider-survives) also borrows C05's kill-on-idle callers and C23's never-queued."
)

# (module, qualified function) -> why it may dequeue from to_user_queue
MAY_CONSUME = {
    ("acse", "ACSE.is_release_requested"): "the release-indication consumer; obligations are tracked at its call sites",
    ("acse", "ACSE._negotiate_as_requestor"): "waits for the A-ASSOCIATE response; no association is established yet",
    ("acse", "ACSE.negotiate_release"): "local release in progress: a colliding request is answered here (rule collision)",
    ("association", "Association.run_reactor"): "acceptor waits for the A-ASSOCIATE request; not established yet",
    ("association", "Association._run_reactor"): "removes the abort indication after is_aborted() peeked it; guarded by that test",
}


def _is_answer(c: ast.Call) -> bool:
    d = dotted(c.func) or ""
    if not d.endswith(".send_release") and d != "send_release":
        return False
    for k in c.keywords:
        if k.arg == "is_response" and isinstance(k.value, ast.Constant) and k.value.value is True:
            return True
    return bool(c.args) and isinstance(c.args[0], ast.Constant) and c.args[0].value is True


def summarise_consumer(repo: Repo, rep: Report):
    """-> (guard parameter name or None, default value).  The consumer removes the indication
    on the branch that returns True iff the guard parameter is truthy (or unconditionally)."""
    mod = repo.mod("acse")
    fn = repo.func("acse", "ACSE.is_release_requested")
    fq = "acse.ACSE.is_release_requested"
    recv = [c for c in walk_no_nested(fn) if isinstance(c, ast.Call) and (dotted(c.func) or "").endswith("dul.receive_pdu")]
    peek = [c for c in walk_no_nested(fn) if isinstance(c, ast.Call) and (dotted(c.func) or "").endswith("dul.peek_next_pdu")]
    rep.need(peek, f"{fq}: peek vanished")
    tests = [i for i in walk_no_nested(fn) if isinstance(i, ast.If) and "A_RELEASE" in norm(i.test)]
    rep.need(len(tests) == 1, f"{fq}: A_RELEASE test not found")
    t = norm(tests[0].test)
    rep.check(t == "isinstance(primitive, A_RELEASE) and primitive.result is None", "consumer-shape", fq, tests[0], "a release *request* is an A_RELEASE primitive whose result is None", mod=mod)
    rets_true = [r for r in ast.walk(tests[0]) if isinstance(r, ast.Return) and isinstance(r.value, ast.Constant) and r.value.value is True]
    rep.check(bool(rets_true), "consumer-shape", fq, "return True on the request branch", "must report a pending release request", mod=mod, node=tests[0])
    others = [r for r in walk_no_nested(fn) if isinstance(r, ast.Return) and r not in rets_true]
    rep.check(all(isinstance(r.value, ast.Constant) and r.value.value is False for r in others), "consumer-shape", fq, "return False otherwise", "must not report a release request when none is queued", mod=mod, node=fn)
    if not recv:
        return "never", None
    rep.need(len(recv) == 1, f"{fq}: {len(recv)} receive_pdu calls")
    # receive must be inside the A_RELEASE branch
    rep.need(any(x is recv[0] for s in tests[0].body for x in ast.walk(s)), f"{fq}: receive_pdu outside the request branch")
    guard = enclosing(recv[0], (ast.If,))
    params = {a.arg: d for a, d in zip(reversed(fn.args.args), reversed(fn.args.defaults))}
    if guard is tests[0]:
        return None, None
    if isinstance(guard.test, ast.Name) and guard.test.id in params and enclosing(guard, (ast.If,)) is tests[0]:
        d = params[guard.test.id]
        return guard.test.id, (d.value if isinstance(d, ast.Constant) else None)
    raise AnalysisError(f"{fq}: receive_pdu guarded by an unmodelled condition: {norm(guard.test)}")


def call_consumes(c: ast.Call, guard, default) -> bool:
    if guard == "never":
        return False
    if guard is None:
        return True
    for k in c.keywords:
        if k.arg == guard:
            return not (isinstance(k.value, ast.Constant) and not k.value.value)
    if c.args:
        return not (isinstance(c.args[0], ast.Constant) and not c.args[0].value)
    return bool(default)


def run(repo: Repo, rep: Report, tier: str) -> None:
    rep.rule("who-may-consume", "dul.receive_pdu is called only from the listed functions")
    rep.rule("consumer-shape", "is_release_requested recognises exactly an A_RELEASE with result None and reports it")
    rep.rule("consume-answer", "after a call that may have consumed the release indication, every path to the function's exit passes acse.send_release(is_response=True)")
    rep.rule("reactor-release", "the reactor's release branch sets is_released, clears is_established, fires EVT_RELEASED and calls kill()")
    rep.rule("collision", "negotiate_release answers a colliding release request (requestor at once, acceptor after the peer's response)")
    rep.rule("ar2-indication", "AR-2/AR-8 put the release indication on to_user_queue (from C04's effect model)")

    # ---- (1) who may consume ------------------------------------------------
    n_sites = 0
    for m in repo.modules.values():
        for c in [n for n in ast.walk(m.tree) if isinstance(n, ast.Call)]:
            d = dotted(c.func) or ""
            direct_queue = d.endswith("to_user_queue.get") or d.endswith("to_user_queue.get_nowait")
            if not (d.endswith(".receive_pdu") or direct_queue):
                continue
            q = qualname(c)
            short = m.name.replace("pynetdicom.", "")
            if short == "dul" and q == "DULServiceProvider.receive_pdu":
                continue  # the accessor itself
            n_sites += 1
            ok = (short, q) in MAY_CONSUME
            rep.check(ok, "who-may-consume", f"{short}.{q}", enclosing(c, (ast.stmt,)), "a new site dequeues primitives from the provider's user queue: it can swallow the peer's release request", mod=m, node=c)
    rep.floor("receive_pdu call sites", n_sites, 5)
    # _run_reactor's receive is guarded by is_aborted()
    rr = repo.func("association", "Association._run_reactor")
    amod = repo.mod("association")
    for c in [x for x in walk_no_nested(rr) if isinstance(x, ast.Call) and (dotted(x.func) or "").endswith("dul.receive_pdu")]:
        g = enclosing(c, (ast.If,))
        rep.check(g is not None and norm(g.test) == "self.acse.is_aborted()", "who-may-consume", "association.Association._run_reactor", enclosing(c, (ast.stmt,)), "the reactor may only dequeue after is_aborted() identified an abort indication at the head of the queue", mod=amod, node=c)

    # ---- (2)/(3) consume => answer ---------------------------------------------
    guard, default = summarise_consumer(repo, rep)
    rep.sample({"consumer": "ACSE.is_release_requested", "consumes_when": ("always" if guard is None else f"{guard} is truthy (default {default})")})
    n_calls = 0
    for m in repo.modules.values():
        for fn in [n for n in ast.walk(m.tree) if isinstance(n, ast.FunctionDef)]:
            sites = [c for c in walk_no_nested(fn) if isinstance(c, ast.Call) and isinstance(c.func, ast.Attribute) and c.func.attr == "is_release_requested"]
            if not sites:
                continue
            short = m.name.replace("pynetdicom.", "")
            fq = f"{short}.{qualname(fn)}"
            cfg = CFG(fn, body=body_nodoc(fn), local_exc_only=True)
            for c in sites:
                n_calls += 1
                if not call_consumes(c, guard, default):
                    rep.ok("consume-answer", f"{fq} :: {norm(c)}", "does not consume (peek only)")
                    continue
                nodes = cfg.nodes_containing(c)
                rep.need(len(nodes) == 1, f"{fq}: call site not found in CFG")
                site = nodes[0]
                if site.kind == "test":
                    # the result decides a branch: owed on the true edge unless the call is negated
                    neg = False
                    p = c
                    from ..loader import parent
                    while parent(p) is not None and parent(p) is not site.ast:
                        p = parent(p)
                        if isinstance(p, ast.UnaryOp) and isinstance(p.op, ast.Not):
                            neg = not neg
                    owed_label = "false" if neg else "true"
                else:
                    owed_label = None  # result stored / ignored: owed on every continuation

                def transfer(n, st, site=site, owed_label=owed_label):
                    owed = st
                    if n is site:
                        if owed_label is None:
                            return [(True, None)]
                        other = {"true", "false"} - {owed_label}
                        return [(True, {owed_label}), (owed, other | {"exc"})]
                    if owed and n.kind in ("stmt", "test") and any(_is_answer(x) for x in calls_at(n)):
                        owed = False
                    return [(owed, None)]

                ins, pred = typestate(cfg, False, transfer)
                bad = True in ins.get(cfg.exit.id, set())
                w = witness(cfg, pred, cfg.exit, True) if bad else None
                ctx = enclosing(c, (ast.If, ast.While, ast.For))
                rep.check(not bad, "consume-answer", fq, f"{norm(c)} in '{head(ctx) if ctx is not None else ''}'", "the call removes the peer's A-RELEASE request from the queue, and a path from there returns without acse.send_release(is_response=True): nobody answers the request, the peer aborts at its timeout", mod=m, node=c, path=w)
    rep.floor("is_release_requested call sites", n_calls, 2)

    # ---- (4) reactor release branch ----------------------------------------------
    branch = [i for i in walk_no_nested(rr) if isinstance(i, ast.If) and "is_release_requested" in norm(i.test)]
    rep.need(len(branch) == 1, "association._run_reactor: release branch vanished")
    b = branch[0]
    stmts = [norm(s) for s in b.body]
    want = ["self.acse.send_release(is_response=True)", "self.is_released = True", "self.is_established = False", "evt.trigger(self, evt.EVT_RELEASED, {})", "self.kill()", "return"]
    pos = [stmts.index(w) if w in stmts else -1 for w in want]
    rep.check(all(p >= 0 for p in pos) and pos == sorted(pos), "reactor-release", "association.Association._run_reactor", b, f"the release branch must perform, in order, {want}; found {stmts}", mod=amod)
    rep.check(norm(b.test) in ("self.is_established and self.acse.is_release_requested()",), "reactor-release", "association.Association._run_reactor", f"guard: {norm(b.test)}", "the reactor must look for a release request on every iteration while established", mod=amod, node=b)
    # the branch is inside the reactor loop, after serving a message
    loop = enclosing(b, (ast.While,))
    rep.check(loop is not None and norm(loop.test) == "not self._kill", "reactor-release", "association.Association._run_reactor", "inside `while not self._kill`", "release check must be part of the reactor loop", mod=amod, node=b)

    # ---- (5) collision -----------------------------------------------------------------
    nr = repo.func("acse", "ACSE.negotiate_release")
    acse = repo.mod("acse")
    cfgn = CFG(nr, body=body_nodoc(nr), local_exc_only=True)

    # state: (collision_seen, role, answered); role is constant for an association, so the
    # two role tests are correlated (mode is restricted to requestor/acceptor by its setter)
    def tr(n, st):
        coll, role, answered = st
        if n.kind == "test":
            t = norm(n.ast.test)
            if t == "primitive.result is None":
                return [((True, role, answered), {"true"}), ((coll, role, answered), {"false", "exc"})]
            if t == "self.assoc.is_requestor":
                outs = []
                if role in (None, "req"):
                    outs.append(((coll, "req", answered), {"true"}))
                if role in (None, "acc"):
                    outs.append(((coll, "acc", answered), {"false", "exc"}))
                return outs
            if t == "self.assoc.is_acceptor and is_collision":
                outs = []
                if role in (None, "acc") and coll:
                    outs.append(((coll, "acc", answered), {"true"}))
                if role in (None, "req") or not coll:
                    outs.append(((coll, role, answered), {"false", "exc"}))
                return outs
            if "is_requestor" in t or "is_acceptor" in t or "is_collision" in t:
                raise AnalysisError(f"acse.negotiate_release: unmodelled role/collision test: {t}")
        if n.kind in ("stmt", "test") and any(_is_answer(x) for x in calls_at(n)):
            answered = True
        return [((coll, role, answered), None)]

    ins, pred = typestate(cfgn, (False, None, False), tr)
    # released exits: paths that set is_released = True
    rel_nodes = [n for n in cfgn.nodes if n.kind == "stmt" and norm(n.ast) == "self.assoc.is_released = True"]
    rep.need(rel_nodes, "acse.negotiate_release: 'is_released = True' vanished")
    bad = [s for n in rel_nodes for s in ins.get(n.id, ()) if s[0] and not s[2]]
    rep.check(not bad, "collision", "acse.ACSE.negotiate_release", "released after a collision", "on a release collision the peer's request must be answered with A-RELEASE-RP before the association is reported released", mod=acse, node=nr)
    # requestor answers at once: inside `if primitive.result is None:` the requestor branch sends the response
    from ..loader import oriented
    col = [(i, oriented(i, "primitive.result is None")) for i in walk_no_nested(nr) if isinstance(i, ast.If)]
    col = [(i, o) for i, o in col if o is not None]
    rep.need(col, "acse.negotiate_release: collision test vanished")
    col_if = [col[0][0]]
    col_branch = ast.Module(body=list(col[0][1][0]), type_ignores=[])
    req_if = [i for i in ast.walk(col_branch) if isinstance(i, ast.If) and norm(i.test) == "self.assoc.is_requestor"]
    okr = bool(req_if) and any(_is_answer(c) for s in req_if[0].body for c in ast.walk(s) if isinstance(c, ast.Call))
    rep.check(okr, "collision", "acse.ACSE.negotiate_release", "requestor answers the colliding request", "PS3.8 7.2.2.7: the association-requestor answers the colliding A-RELEASE-RQ first", mod=acse, node=col_if[0])
    acc = [i for i in walk_no_nested(nr) if isinstance(i, ast.If) and norm(i.test) == "self.assoc.is_acceptor and is_collision"]
    oka = bool(acc) and any(_is_answer(c) for s in acc[0].body for c in ast.walk(s) if isinstance(c, ast.Call))
    rep.check(oka, "collision", "acse.ACSE.negotiate_release", "acceptor answers after the peer's response", "PS3.8 7.2.2.7: the association-acceptor answers after receiving the A-RELEASE-RP", mod=acse, node=col_if[0])

    # ---- send_release builds the right primitive ----------------------------------------------
    sr = repo.func("acse", "ACSE.send_release")
    param = sr.args.args[1].arg if len(sr.args.args) > 1 else None
    ifs = [i for i in walk_no_nested(sr) if isinstance(i, ast.If) and isinstance(i.test, ast.Name) and i.test.id == param]
    sets = [s_ for i in ifs for s_ in i.body if isinstance(s_, ast.Assign) and norm(s_.targets[0]) == "primitive.result" and isinstance(s_.value, ast.Constant) and s_.value.value is not None]
    ctor = [s_ for s_ in walk_no_nested(sr) if isinstance(s_, ast.Assign) and norm(s_.targets[0]) == "primitive" and norm(s_.value) == "A_RELEASE()"]
    sends = [c for c in walk_no_nested(sr) if isinstance(c, ast.Call) and norm(c) == "self.dul.send_pdu(primitive)"]
    other_sets = [s_ for s_ in walk_no_nested(sr) if isinstance(s_, ast.Assign) and norm(s_.targets[0]) == "primitive.result" and s_ not in sets]
    rep.check(bool(sets) and bool(ctor) and len(sends) == 1 and not other_sets, "reactor-release", "acse.ACSE.send_release", "A_RELEASE(); result set only when is_response; send_pdu(primitive)", "a release *response* primitive must carry a result (and a request none) so that the provider maps them to Evt14 / Evt11", mod=acse, node=sr)

    # ---- AR-2 / AR-8 issue the indication ---------------------------------------------------------
    from ..fsm_model import ActionModel
    am = ActionModel(repo)
    for a in ("AR-2", "AR-8"):
        fn = am.action_func(a)
        paths = [p for p in am.paths(fn) if not p.raised]
        ok = all(any(e[0] == "user" and e[1].kind == "prim_of_pdu" for e in p.effects) for p in paths)
        rep.check(ok, "ar2-indication", f"fsm.{fn.name}", "to_user_queue.put(pdu.to_primitive())", f"{a} must hand the A-RELEASE indication to the user queue", mod=am.mod, node=fn)

    # ---- the reactor that answers must not be left paused ------------------------------------------
    # The A-RELEASE-RQ is answered by Association._run_reactor, which blocks on _reactor_checkpoint
    # while a DIMSE exchange is in progress. C24's checkpoint rule decides that every send_* /
    # response generator hands the reactor back; its failures are failures of this property too.
    rep.rule("reactor-unpaused", "every SCU exchange that paused the reactor un-pauses it before it returns / surfaces its final result (C24's checkpoint rule)")
    from . import c24
    sub = Report("C24", tier, c24.LEVEL, "")
    c24.run(repo, sub, tier)
    n_cp = 0
    for o in sub.obligations:
        if o["rule"] != "checkpoint":
            continue
        n_cp += 1
        if o["ok"]:
            rep.ok("reactor-unpaused", o["instance"], o.get("detail", ""))
    for f in sub.failures:
        if f["rule"] == "checkpoint":
            f2 = dict(f)
            f2["rule"] = "reactor-unpaused"
            f2["detail"] = f["detail"] + " - while it is paused the association reactor cannot see or answer the peer's A-RELEASE-RQ"
            rep.obligations.append(f2)
            rep.failures.append(f2)
    rep.floor("reactor hand-back obligations", n_cp, 10)

    # ---- the release request must be read at all ---------------------------------------------------
    from .c03 import check_ready_probe
    rep.rule("ready-probe", "the readiness probe sees an A-RELEASE-RQ sitting in the TLS buffer of any SSLSocket, whichever side wrapped it (C03's rule)")
    check_ready_probe(repo, rep, "ready-probe")

    # ---- the provider must survive until the answer is out ------------------------------------------
    # between the release indication (Sta8) and the A-RELEASE-RP the provider thread has to stay alive:
    # C05's artim rule decides that ARTIM cannot report expiry in a state without an Evt18 row
    from ..delegate import delegate
    rep.rule("provider-survives", "ARTIM cannot expire in the release states (Sta7-Sta12) unless Table 9-10 defines Evt18 there (C05's artim rule)")
    delegate(repo, rep, tier, "C05", ("artim",), "provider-survives", "the provider thread dies between the peer's A-RELEASE-RQ and pynetdicom's answer: neither A-RELEASE-RP nor A-ABORT is ever sent", only=lambda f: any(f"Sta{k}" in (f["key"].get("stmt", "") + f["detail"]) for k in (7, 8, 9, 10, 11, 12)))
    delegate(repo, rep, tier, "C23", ("never-queued",), "provider-survives", "the association thread dies on a C-CANCEL it is handed as a service request: the peer's A-RELEASE-RQ is read by the provider but never answered, and no abort is sent either")
    delegate(repo, rep, tier, "C05", ("kill-on-idle",), "provider-survives", "the provider thread is stopped while the A-RELEASE-RP the reactor issued is still queued: the acceptor believes it released (EVT_RELEASED fires), the peer gets neither the response nor an abort")
    delegate(repo, rep, tier, "C04", ("artim-run-state",), "provider-survives", "a timer the state machine stopped is running again: ARTIM expires in an established association (Sta6 has no transition for Evt18), the provider thread dies and a later A-RELEASE-RQ gets neither A-RELEASE-RP nor A-ABORT")
    # in every pass the association's reactor looks for a pending release request (and abort) before it acts on the
    # network timeout: a request that has waited longer than the timeout must still be answered, not met with a
    # release / abort of our own (release() in Sta8 is an undefined event and kills the provider)
    from ..cfg import CFG as _CFG7, calls_at as _calls7
    rr7 = repo.func("association", "Association._run_reactor")
    cfg7 = _CFG7(rr7, body=body_nodoc(rr7), may_raise=lambda n_: False)
    rl7 = [n_ for n_ in cfg7.nodes if n_.kind in ("stmt", "test") and any(isinstance(c_.func, ast.Attribute) and c_.func.attr == "is_release_requested" for c_ in _calls7(n_))]
    it7 = [n_ for n_ in cfg7.nodes if n_.kind in ("stmt", "test") and any(isinstance(c_.func, ast.Attribute) and c_.func.attr == "idle_timer_expired" for c_ in _calls7(n_))]
    rep.rule("release-before-timeout", "in each pass of the association reactor a pending release request is answered before the network timeout is acted on")
    if rl7 and it7:
        rep.check(all(any(cfg7.dominates(r_, t_, labels_excluded=("loop", "continue")) for r_ in rl7) for t_ in it7), "release-before-timeout", "association.Association._run_reactor", "is_release_requested() checked before idle_timer_expired() in each pass", "the network timeout is acted on before the pending release request is looked at: a peer's A-RELEASE-RQ that has waited longer than the timeout is met with our own release() / abort() instead of an A-RELEASE-RP - with network_timeout_response = 'A-RELEASE' that is Evt11 in Sta8, an undefined event, and the peer gets neither response nor abort", mod=repo.mod("association"), node=it7[0].ast)
    else:
        rep.defer("association.Association._run_reactor: release / idle-timeout checks not found")
    rep.rule("request-reaches-action", "every received PDU is queued together with its event, so AR-2 takes the A-RELEASE-RQ it was raised for (C03's one-per-call)")
    delegate(repo, rep, tier, "C03", ("one-per-call",), "request-reaches-action", "a PDU queued without its event stays on _recv_pdu; when the peer's A-RELEASE-RQ arrives AR-2 pops the stale PDU instead, no release indication reaches the association and neither A-RELEASE-RP nor A-ABORT is sent")

    # ---- the association thread reaches its reactor ---------------------------------------------------
    from ..lints import contextmanagers_yield_once
    rep.rule("thread-starts", "every @contextmanager the association thread enters yields exactly once on every path (Association.run wraps its reactor in set_timer_resolution)")
    rep.floor("context managers checked", contextmanagers_yield_once(repo, rep, "thread-starts"), 1)
