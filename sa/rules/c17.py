"""C17 - DIMSE primitives survive conversion to command sets and back."""

from __future__ import annotations

import ast
import json

from ..consteval import Evaluator, Unknown
from ..loader import AnalysisError, Repo, body_nodoc, dotted, norm, qualname, walk_no_nested, enclosing, strip_cast
from ..report import Report, VERIF

LEVEL = "other"
EXPLANATION = (
    "The conversion is driven by five literal tables and two generic loops. The tables are "
    "evaluated statically and cross-checked: command-field values against PS3.7 Table E.1-1 "
    "and for being one-to-one; every command-set keyword of every message type against the "
    "attribute set of the primitive class it is converted to and from (a keyword the primitive "
    "lacks is silently dropped by hasattr() in both directions, so a round-trip test cannot see "
    "it) and against the PS3.7 9.3/10.3 element lists; data-set keywords against the messages "
    "PS3.7 gives a data set; the primitive->message class maps against names and direction; the "
    "multi-valued tag list against the spec. The two generic loops are matched structurally. "
    "Covers all 23 message types and every parameter subset because the conversion is keyword "
    "driven; setter range checks and pydicom's command-set codec are not decided."
    ' Fourth session: (fresh-message) the message a primitive is converted into is constructed for that conversion, never one kept from an earlier send.'
)


def spec():
    return json.loads((VERIF / "spec" / "ps3_7_command.json").read_text())


def class_attrs(repo: Repo, ci) -> set[str]:
    out = set()
    for c in repo.mro(ci):
        out |= set(c.getters) | set(c.methods) | set(c.assigns)
        for st in c.node.body:
            if isinstance(st, ast.AnnAssign) and isinstance(st.target, ast.Name):
                out.add(st.target.id)
        init = c.methods.get("__init__")
        if init:
            for n in walk_no_nested(init):
                if isinstance(n, ast.Attribute) and isinstance(n.ctx, ast.Store) and isinstance(n.value, ast.Name) and n.value.id == "self":
                    out.add(n.attr)
    return out


def writable(repo: Repo, ci, name: str) -> bool:
    """a plain attribute, or a property that has a setter"""
    for c in repo.mro(ci):
        if name in c.getters:
            return any(name in c2.setters for c2 in repo.mro(ci))
        if name in c.assigns or name in c.methods:
            return name in c.assigns
        init = c.methods.get("__init__")
        if init and any(isinstance(n, ast.Attribute) and isinstance(n.ctx, ast.Store) and n.attr == name and norm(n.value) == "self" for n in walk_no_nested(init)):
            return True
    return False


def run(repo: Repo, rep: Report, tier: str) -> None:
    sp = spec()
    rep.rule("command-field", "_MESSAGE_TYPES: value -> (name, class) equals PS3.7 E.1-1, one-to-one in values, names and classes")
    rep.rule("keywords", "every command-set keyword of a message is a (settable) attribute of its primitive class; PS3.7's elements are all present; extras are status-related only")
    rep.rule("dataset-keywords", "_DATASET_KEYWORDS names an existing attribute and covers exactly the messages PS3.7 gives a data set")
    rep.rule("class-maps", "_RQ_TO_MESSAGE/_RSP_TO_MESSAGE/_MSG_TO_PRIMITIVE agree with names and direction; send_msg selects by MessageIDBeingRespondedTo")
    rep.rule("multi-valued", "_MULTIVALUE_TAGS is exactly the multi-valued command elements")
    rep.rule("generic-loops", "primitive_to_message / message_to_primitive copy every keyword the primitive has, in both directions")
    dm = repo.mod("dimse_messages")
    ev = Evaluator(repo, dm, True)
    try:
        mt = ev.name("_MESSAGE_TYPES")
        kw = ev.name("_COMMAND_SET_KEYWORDS")
        dk = ev.name("_DATASET_KEYWORDS")
        m2p = ev.name("_MSG_TO_PRIMITIVE")
    except Unknown as exc:
        raise AnalysisError(f"dimse_messages tables not evaluable: {exc}")
    msgs = sp["messages"]
    rep.floor("message types in spec", len(msgs), 23)

    # ---- command field ---------------------------------------------------------
    node = dm.assign_stmts["_MESSAGE_TYPES"][0]
    got = {v[0]: k for k, v in mt.items()}
    for name, m in msgs.items():
        want = int(m["field"], 16)
        rep.check(got.get(name) == want, "command-field", "dimse_messages._MESSAGE_TYPES", f"{name}: {got.get(name) if got.get(name) is None else hex(got.get(name))}", f"PS3.7 E.1-1: {name} has command field 0x{want:04X}", mod=dm, node=node)
    rep.check(len(got) == len(mt) == len(msgs), "command-field", "dimse_messages._MESSAGE_TYPES", f"{len(mt)} entries / {len(got)} names", "the table is inverted by primitive_to_message: names must be unique and complete", mod=dm, node=node)
    classes = [getattr(v[1], "name", "?").split(".")[-1] for v in mt.values()]
    for k, v in mt.items():
        cname = getattr(v[1], "name", "?").split(".")[-1]
        rep.check(cname == v[0].replace("-", "_"), "command-field", "dimse_messages._MESSAGE_TYPES", f"0x{k:04X}: ({v[0]}, {cname})", "decode_msg switches the message class by this entry: it must be the class of the same name", mod=dm, node=node)
    rep.check(len(set(classes)) == len(classes), "command-field", "dimse_messages._MESSAGE_TYPES", "distinct classes", "two command fields decode to one class", mod=dm, node=node)
    # message subclasses exist and are keyed in the keyword table
    subclasses = [c for c in dm.classes.values() if "DIMSEMessage" in c.bases]
    rep.floor("DIMSEMessage subclasses", len(subclasses), 23)
    for c in subclasses:
        rep.check(c.name.replace("_", "-") in kw, "keywords", f"dimse_messages.{c.name}", "entry in _COMMAND_SET_KEYWORDS", "DIMSEMessage.__init__ looks the class name up in _COMMAND_SET_KEYWORDS", mod=dm, node=c.node)
        rep.check(not c.methods and not c.getters, "generic-loops", f"dimse_messages.{c.name}", "no overrides", "a message subclass overrides the generic conversion", mod=dm, node=c.node)

    # ---- keywords -----------------------------------------------------------------
    prim_mod = repo.mod("dimse_primitives")
    knode = dm.assign_stmts["_COMMAND_SET_KEYWORDS"][0]
    structural = set(sp["structural"])
    extras_ok = set(sp["status_related"])
    n_kw = 0
    for name, m in msgs.items():
        rep.need(name in kw, f"_COMMAND_SET_KEYWORDS has no entry {name}")
        words = list(kw[name])
        base = name.rsplit("-", 1)[0].replace("-", "_")
        psym = m2p.get(base)
        rep.need(psym is not None, f"_MSG_TO_PRIMITIVE has no entry {base}")
        pname = getattr(psym, "name", "?").split(".")[-1]
        pci = prim_mod.classes.get(pname)
        rep.need(pci is not None, f"primitive class {pname} vanished")
        attrs = class_attrs(repo, pci)
        rep.check(len(set(words)) == len(words), "keywords", "dimse_messages._COMMAND_SET_KEYWORDS", f"{name}: duplicates", "a keyword is listed twice", mod=dm, node=knode)
        for w in words:
            if w in structural:
                continue
            n_kw += 1
            ok = w in attrs and writable(repo, pci, w)
            rep.check(ok, "keywords", "dimse_messages._COMMAND_SET_KEYWORDS", f"{name}: {w} on {pname}", f"{w} is in the command set of {name} but {pname} has no settable attribute of that name: hasattr() drops it silently in both directions", mod=dm, node=knode)
        missing = [r for r in m["required"] + list(structural) if r not in words]
        rep.check(not missing, "keywords", "dimse_messages._COMMAND_SET_KEYWORDS", f"{name}: missing {missing}", f"PS3.7 lists {missing} for {name}; without the keyword the parameter is never put on the wire nor read back", mod=dm, node=knode)
        extra = [w for w in words if w not in structural and w not in m["required"]]
        bad_extra = [w for w in extra if w not in extras_ok or not name.endswith("-RSP")]
        rep.check(not bad_extra, "keywords", "dimse_messages._COMMAND_SET_KEYWORDS", f"{name}: extra {bad_extra}", f"{bad_extra} is not a command element of {name} in PS3.7 (only status-related elements may be added to responses)", mod=dm, node=knode)
    rep.floor("keyword/attribute obligations", n_kw, 90)
    rep.check(set(kw) == set(msgs), "keywords", "dimse_messages._COMMAND_SET_KEYWORDS", f"{sorted(set(kw) ^ set(msgs))}", "message types differ from PS3.7's 23", mod=dm, node=knode)

    # ---- dataset keywords -----------------------------------------------------------
    dnode = dm.assign_stmts["_DATASET_KEYWORDS"][0]
    for name, m in msgs.items():
        key = name.replace("-", "_")
        got_d = dk.get(key)
        rep.check(got_d == m["dataset"], "dataset-keywords", "dimse_messages._DATASET_KEYWORDS", f"{key}: {got_d}", f"PS3.7: the data set of {name} is {m['dataset']}", mod=dm, node=dnode)
        if got_d is not None:
            base = name.rsplit("-", 1)[0].replace("-", "_")
            pname = getattr(m2p[base], "name", "?").split(".")[-1]
            pci = prim_mod.classes[pname]
            rep.check(got_d in class_attrs(repo, pci) and writable(repo, pci, got_d), "dataset-keywords", "dimse_messages._DATASET_KEYWORDS", f"{key}: {got_d} on {pname}", f"{pname} has no settable attribute {got_d}", mod=dm, node=dnode)
    rep.check(set(dk) <= {n.replace("-", "_") for n in msgs}, "dataset-keywords", "dimse_messages._DATASET_KEYWORDS", f"{sorted(set(dk) - {n.replace('-', '_') for n in msgs})}", "unknown message name", mod=dm, node=dnode)

    # ---- class maps -----------------------------------------------------------------------
    dimse = repo.mod("dimse")
    evd = Evaluator(repo, dimse, True)
    rq = evd.name("_RQ_TO_MESSAGE")
    rs = evd.name("_RSP_TO_MESSAGE")
    short = lambda s: getattr(s, "name", "?").split(".")[-1]  # noqa: E731
    prims = {short(v) for v in m2p.values()}
    for table, tname, suffix in ((rq, "_RQ_TO_MESSAGE", "_RQ"), (rs, "_RSP_TO_MESSAGE", "_RSP")):
        node = dimse.assign_stmts[tname][0]
        for k, v in table.items():
            pk, mv = short(k), short(v)
            want = pk + suffix
            if pk == "C_CANCEL":
                # frozen idiom: C_CANCEL always carries MessageIDBeingRespondedTo, so send_msg
                # looks it up in the *response* map; the message it becomes is C-CANCEL-RQ
                rep.check(tname == "_RSP_TO_MESSAGE" and mv == "C_CANCEL_RQ", "class-maps", f"dimse.{tname}", f"{pk}: {mv}", "C_CANCEL must map to C_CANCEL_RQ in the map send_msg selects for it", mod=dimse, node=node)
            else:
                rep.check(mv == want, "class-maps", f"dimse.{tname}", f"{pk}: {mv}", f"{pk} must become {want}", mod=dimse, node=node)
        have = {short(k) for k in table}
        need_ = prims - {"C_CANCEL"} if suffix == "_RQ" else prims
        rep.check(have == need_, "class-maps", f"dimse.{tname}", f"{sorted(have ^ need_)}", "every primitive class must be mapped (a missing one raises KeyError on send)", mod=dimse, node=node)
    sm = repo.func("dimse", "DIMSEServiceProvider.send_msg")
    sel = [i for i in walk_no_nested(sm) if isinstance(i, ast.If) and "MessageIDBeingRespondedTo" in norm(i.test)]
    oks = len(sel) == 1 and norm(sel[0].test) == "primitive.MessageIDBeingRespondedTo is None" and "_RQ_TO_MESSAGE[primitive.__class__]" in norm(sel[0].body[0]) and "_RSP_TO_MESSAGE[primitive.__class__]" in norm(sel[0].orelse[0])
    rep.check(oks, "class-maps", "dimse.DIMSEServiceProvider.send_msg", sel[0] if sel else "selection", "a primitive without MessageIDBeingRespondedTo is a request, otherwise a response", mod=dimse, node=sm)
    # message_to_primitive's name arithmetic
    m2 = repo.func("dimse_messages", "DIMSEMessage.message_to_primitive")
    src = [norm(s) for s in walk_no_nested(m2) if isinstance(s, ast.stmt)]
    okn = "cls_type_name = self.__class__.__name__" in src and "final_underscore = cls_type_name.rfind('_R')" in src and any("_MSG_TO_PRIMITIVE[cls_type_name[:final_underscore]]()" in s for s in src)
    rep.need(okn, "message_to_primitive: class-name arithmetic not recognised")
    for name in msgs:
        cn = name.replace("-", "_")
        base = cn[: cn.rfind("_R")]
        want = name.rsplit("-", 1)[0].replace("-", "_")
        rep.check(base in m2p and short(m2p[base]) == want, "class-maps", "dimse_messages._MSG_TO_PRIMITIVE", f"{cn} -> {base} -> {short(m2p.get(base)) if base in m2p else None}", f"{cn} must convert to primitive {want}", mod=dm, node=dm.assign_stmts["_MSG_TO_PRIMITIVE"][0])

    # ---- multi-valued ---------------------------------------------------------------------------
    _check_multi_valued(repo, rep, dm, m2, m2p, sp)

    # ---- generic loops -----------------------------------------------------------------------------
    p2m = repo.func("dimse_messages", "DIMSEMessage.primitive_to_message")
    loops = [f for f in walk_no_nested(p2m) if isinstance(f, ast.For) and norm(f.iter) == "self.command_set"]
    ok = False
    if len(loops) == 1:
        body = " ".join(norm(s) for s in ast.walk(loops[0]) if isinstance(s, ast.stmt))
        ok = "if hasattr(primitive, elem.keyword):" in norm(loops[0].body[0]) or "hasattr(primitive, elem.keyword)" in body
        from ..loader import oriented
        ors = [o for o in (oriented(i, "attr is not None") for i in ast.walk(loops[0]) if isinstance(i, ast.If)) if o is not None]
        ok = ok and "attr = getattr(primitive, elem.keyword)" in body and len(ors) == 1 and [norm(x) for x in ors[0][0]] == ["elem.value = attr"] and [norm(x) for x in ors[0][1]] == ["del self.command_set[elem.tag]"]
    rep.check(ok, "generic-loops", "dimse_messages.DIMSEMessage.primitive_to_message", "for elem in command_set: value <- getattr(primitive, keyword); None -> delete", "every parameter the primitive has must be copied into the command set (and only unset ones removed)", mod=dm, node=p2m)
    # nothing else may take an element out of the command set: a parameter the primitive has set is encoded
    from ..loader import oriented as _oriented
    for dl in [x for x in walk_no_nested(p2m) if isinstance(x, ast.Delete) or (isinstance(x, ast.Expr) and isinstance(x.value, ast.Call) and isinstance(x.value.func, ast.Attribute) and x.value.func.attr in ("pop", "popitem", "clear") and "command_set" in norm(x.value.func.value))]:
        if "command_set" not in norm(dl):
            continue
        okd = False
        g = enclosing(dl, (ast.If,))
        while g is not None and not okd:
            o = _oriented(g, "attr is None")
            if o is not None and any(y is dl for s_ in o[0] for y in ast.walk(s_)):
                okd = True
            g = enclosing(g, (ast.If,))
        rep.check(okd, "generic-loops", "dimse_messages.DIMSEMessage.primitive_to_message", dl, f"`{norm(dl)[:70]}` removes an element from the command set although the primitive's parameter is not None (it is outside the `attr is None` branch of the copy loop): a parameter the caller set - independent optional parameters such as Move Originator Message ID without the AE title - is not transmitted, and the primitive does not survive the round trip", mod=dm, node=dl)
    rev = [s for s in walk_no_nested(p2m) if isinstance(s, ast.Assign) and norm(s.targets[0]) == "rev_type"]
    okr = len(rev) == 1 and norm(rev[0].value) == "{vv[0]: kk for kk, vv in _MESSAGE_TYPES.items()}" and any(norm(s) == "self.command_set.CommandField = rev_type[cls_type_name]" for s in walk_no_nested(p2m) if isinstance(s, ast.stmt))
    rep.check(okr, "generic-loops", "dimse_messages.DIMSEMessage.primitive_to_message", "CommandField = inverse(_MESSAGE_TYPES)[class name]", "the command field must be the one the class name stands for", mod=dm, node=p2m)
    loops = [f for f in walk_no_nested(m2) if isinstance(f, ast.For) and norm(f.iter) == "self.command_set"]
    ok = False
    if len(loops) == 1:
        body = " ".join(norm(s) for s in ast.walk(loops[0]) if isinstance(s, ast.stmt))
        ok = "hasattr(primitive, elem.keyword)" in body and "value = elem.value" in body and "setattr(primitive, elem.keyword, value)" in body and "value = value[0]" in body
    rep.check(ok, "generic-loops", "dimse_messages.DIMSEMessage.message_to_primitive", "for elem in command_set: setattr(primitive, keyword, value) with VM>1 truncated only outside _MULTIVALUE_TAGS", "every decoded element the primitive knows must be copied; lists only for the multi-valued tags", mod=dm, node=m2)
    ds = [s for s in walk_no_nested(m2) if isinstance(s, ast.stmt) and norm(s) in ("setattr(primitive, dataset_keyword, self.data_set)", "dataset_keyword = _DATASET_KEYWORDS[cls_type_name]", "primitive._context_id = self.context_id")]
    rep.check(len(ds) == 3, "generic-loops", "dimse_messages.DIMSEMessage.message_to_primitive", "data set and context id handed to the primitive", "the data-set bytes and the context id must reach the primitive", mod=dm, node=m2)
    _delegate_c15(repo, rep, tier)
    rep.rule("numeric-range", "the setters of Message IDs and sub-operation counters accept 0, 1 and 65535")
    rep.floor("numeric boundary evaluations (DIMSE primitives)", check_dimse_numeric_ranges(repo, rep), 12)
    # ---- absent is None, not falsy ---------------------------------------------------------
    from ..lints import zero_legal_truthiness
    rep.rule("none-not-falsy", "Message IDs, Status and Priority are tested with `is None`: 0 is a legal value of each")
    n_t = zero_legal_truthiness(repo, rep, "none-not-falsy", {"MessageID", "MessageIDBeingRespondedTo", "MoveOriginatorMessageID", "Status", "Priority"})
    rep.counters["truthiness tests on zero-legal DIMSE fields"] = n_t
    check_fresh_message(repo, rep, "fresh-message")
    from ..delegate import delegate as _delegate17
    rep.rule("dataset-whole", "the data-set parameter is carried between primitive and message as the whole buffer, independent of the stream position (C16's position-independent rule)")
    _delegate17(repo, rep, tier, "C16", ("position-independent",), "dataset-whole", "a primitive converted a second time, or one that came from message_to_primitive() (its stream stands at the end), loses its data set in the conversion: Command Data Set Type becomes 0x0101 and the data-set bytes are dropped")
    rep.floor("setter evaluations with legal falsy values", check_falsy_values_kept(repo, rep, "none-not-falsy"), 10)


FALSY_LEGAL = ("MessageID", "MessageIDBeingRespondedTo", "MoveOriginatorMessageID", "Status", "Priority", "EventTypeID", "ActionTypeID", "NumberOfRemainingSuboperations", "NumberOfCompletedSuboperations", "NumberOfFailedSuboperations", "NumberOfWarningSuboperations", "AttributeIdentifierList")


def check_falsy_values_kept(repo: Repo, rep: Report, rule: str) -> int:
    """The setters of the parameters whose legal values include a falsy one (0 for IDs, Status, Priority and
    counters; tag (0000,0000) - an int - alone or as a one-element list for the Attribute Identifier List) are
    evaluated (sa/minipy.py) with that value: what the setter stores must be that value, not None. A guard
    written `if not value:` treats the legal value as 'absent' and the element silently disappears from the
    message (the receiver of an N-GET for tag 0 is told 'all attributes')."""
    from ..minipy import Interp, Obj, Raised, Unsupported

    pm = repo.mod("dimse_primitives")
    n = 0
    seen = set()
    for cname, ci in sorted(pm.classes.items()):
        for pname in FALSY_LEGAL:
            st = ci.setters.get(pname)
            if st is None or id(st) in seen:
                continue
            seen.add(id(st))
            values = [0] + ([[0]] if pname == "AttributeIdentifierList" else [])
            for v in values:
                me = Obj(cname, {})
                # every private field the setter may read first
                for a in ast.walk(st):
                    if isinstance(a, ast.Attribute) and norm(a.value) == "self" and a.attr.startswith("_"):
                        me.attrs.setdefault(a.attr, None)
                before = dict(me.attrs)
                it = Interp({"Tag": lambda x: x, "BaseTag": int, "LOGGER": None}, classes={"ValueError": lambda *a_: Obj("ValueError"), "TypeError": lambda *a_: Obj("TypeError")})
                params = [a.arg for a in st.args.args]
                try:
                    it.call_function(st, dict(zip(params, [me, v])))
                except Raised as r:
                    n += 1
                    rep.fail(rule, f"dimse_primitives.{cname}.{pname}", f"value {v!r} -> raises {r.kind}", f"the setter refuses {v!r}, a legal value of this parameter", mod=pm, node=st)
                    continue
                except Unsupported:
                    continue
                n += 1
                changed = {k: me.attrs[k] for k in me.attrs if not k.startswith("@") and (k not in before or me.attrs[k] is not before[k] or k in ("_" + pname,))}
                stored = [x for x in changed.values() if x is not None]
                want = 0
                ok = any((x == want and not isinstance(x, bool)) for x in stored)
                rep.check(ok, rule, f"dimse_primitives.{cname}.{pname}", f"value {v!r} -> stored {sorted(map(repr, changed.values()))}", f"{pname} = {v!r} is a legal value (0 is a valid ID / status / priority / counter; (0000,0000) is a tag) but the setter stores None for it: the parameter is treated as absent, the command element is left out of the message and the peer sees a different request or response", mod=pm, node=st)
    return n


def check_fresh_message(repo: Repo, rep: Report, rule: str) -> int:
    """primitive_to_message() *deletes* the command-set elements whose parameter is None and only visits the
    elements still present, so it is correct on a freshly constructed message only: on a message that has
    already carried another primitive, parameters that were absent then stay absent now (ErrorComment /
    OffendingElement of a later failure response, a data set flag ...). Every object a primitive is converted
    into must therefore be constructed for that one conversion - a call of the message class in the same
    function, or in a helper whose every return value is such a call - never an object kept on `self`."""
    rep.rule(rule, "the message a primitive is converted into is constructed for that conversion (never one kept from an earlier send)")
    n = 0
    for mname in ("dimse", "association", "service_class", "dimse_messages"):
        m = repo.mod(mname)
        for fn in [f for f in ast.walk(m.tree) if isinstance(f, ast.FunctionDef)]:
            for c in walk_no_nested(fn):
                if not (isinstance(c, ast.Call) and isinstance(c.func, ast.Attribute) and c.func.attr == "primitive_to_message"):
                    continue
                n += 1
                fq = f"{mname}.{qualname(fn)}"
                recv = c.func.value
                why = _not_fresh(repo, m, fn, recv, 0)
                rep.check(why is None, rule, fq, enclosing(c, (ast.stmt,)) or c, f"the message `{norm(recv)}` the primitive is converted into {why}: primitive_to_message() removes the elements whose parameter is None and never puts them back, so a response sent through a reused message loses every optional element (ErrorComment, OffendingElement, the sub-operation counters, ...) that an earlier response did not carry", mod=m, node=c)
    rep.floor("primitive_to_message call sites", n, 1)
    return n


def _is_ctor(e: ast.AST) -> bool:
    """`Cls()` / `_TABLE[key]()` - a call whose callee is a class name or an entry of a class table"""
    if not isinstance(e, ast.Call):
        return False
    f = e.func
    if isinstance(f, ast.Subscript) and isinstance(f.value, ast.Name):
        return True
    return isinstance(f, ast.Name) and (f.id[:1].isupper() or f.id in ("cast",) and len(e.args) == 2 and _is_ctor(e.args[1]))


def _not_fresh(repo: Repo, m, fn: ast.FunctionDef, e: ast.AST, depth: int) -> str | None:
    """None when `e` (evaluated in fn) is always a freshly constructed object; otherwise the reason"""
    if _is_ctor(e):
        return None
    if isinstance(e, ast.Call) and norm(e.func) == "cast" and len(e.args) == 2:
        return _not_fresh(repo, m, fn, e.args[1], depth)
    if isinstance(e, ast.IfExp):
        return _not_fresh(repo, m, fn, e.body, depth) or _not_fresh(repo, m, fn, e.orelse, depth)
    if isinstance(e, ast.Call) and isinstance(e.func, ast.Name) and not e.func.id[:1].isupper():
        # `cls = _TABLE[key]; msg = cls()`
        cdefs = [a for a in walk_no_nested(fn) if isinstance(a, ast.Assign) and any(norm(t) == e.func.id for t in a.targets)]
        if cdefs and all(isinstance(a.value, ast.Subscript) and isinstance(a.value.value, ast.Name) for a in cdefs):
            return None
    if isinstance(e, ast.Name):
        defs = [a for a in walk_no_nested(fn) if isinstance(a, (ast.Assign, ast.AnnAssign)) and getattr(a, "value", None) is not None and any(norm(t) == e.id for t in (a.targets if isinstance(a, ast.Assign) else [a.target]))]
        if not defs:
            return f"is `{e.id}`, which {fn.name}() does not construct itself"
        for a in defs:
            r = _not_fresh(repo, m, fn, a.value, depth)
            if r is not None:
                return r
        return None
    if isinstance(e, ast.Call) and isinstance(e.func, ast.Attribute) and norm(e.func.value) == "self" and depth < 2:
        cls = enclosing(fn, (ast.ClassDef,))
        ci = m.classes.get(cls.name) if cls is not None else None
        helper = ci.methods.get(e.func.attr) if ci is not None else None
        if helper is None:
            return f"comes from `{norm(e.func)}()`, which could not be resolved"
        rets = [r for r in walk_no_nested(helper) if isinstance(r, ast.Return)]
        if not rets:
            return f"comes from `{norm(e.func)}()`, which returns nothing"
        for r in rets:
            if r.value is None:
                return f"comes from `{norm(e.func)}()`, which can return None"
            why = _not_fresh(repo, m, helper, r.value, depth + 1)
            if why is not None:
                return f"comes from `{norm(e.func)}()`, where it {why}"
        # a constructed object that is also stored on self may come back on a later call only through a
        # return of that attribute - covered above (an attribute read is not a constructor call)
        return None
    if isinstance(e, ast.Attribute):
        return f"is read from `{norm(e)}` - an object kept from an earlier use"
    return f"is `{norm(e)[:40]}`, not a constructor call"


def _delegate_c15(repo, rep, tier):
    """The conversion chain of the property includes encode_msg / decode_msg: a primitive's data-set
    (and command-set) bytes only survive if the fragments written are exactly the fragments read.
    C15 decides that; its failures are failures of this round trip too."""
    from ..report import Report as _R
    from . import c15

    rep.rule("encode-roundtrip", "encode_msg / decode_msg carry the command-set and data-set bytes unchanged for every length (C15's fragmentation rules)")
    from ..delegate import run_lender
    sub = run_lender(repo, "C17", "C15", tier)
    n = 0
    for o in sub.obligations:
        if o["ok"]:
            n += 1
    rep.ok("encode-roundtrip", f"{n} fragmentation obligations (C15) hold", "")
    for f in sub.failures:
        f2 = dict(f)
        f2["rule"] = "encode-roundtrip"
        f2["detail"] = f["detail"] + " - the message's bytes do not survive encode_msg -> decode_msg for some length, so the primitive does not round-trip"
        rep.obligations.append(f2)
        rep.failures.append(f2)
    for d in sub.deferred:
        rep.defer(d)


def _check_multi_valued(repo, rep, dm, m2, m2p, sp):
    short = lambda s_: getattr(s_, "name", "?").split(".")[-1]  # noqa: E731
    """message_to_primitive truncates a decoded element with VM > 1 to its first value unless it is exempt.
    The exemption is resolved per primitive class - a module-level list of Tag(<keyword>) / keywords, or a
    class attribute of the primitive read through getattr / attribute access - and compared with the spec:
    a primitive that can hold a multi-valued command element (Offending Element, Attribute Identifier List)
    must be handed all its values, and nothing else may be handed a list."""
    fq = "dimse_messages.DIMSEMessage.message_to_primitive"
    trunc = [i for i in walk_no_nested(m2) if isinstance(i, ast.If) and any(isinstance(s_, ast.Assign) and isinstance(s_.value, ast.Subscript) and norm(s_.value.slice) == "0" and norm(s_.targets[0]) == norm(s_.value.value) for s_ in i.body)]
    if len(trunc) != 1:
        rep.defer(f"{fq}: the VM > 1 truncation was not found ({len(trunc)} candidates)")
        return
    t = trunc[0].test
    atoms = t.values if isinstance(t, ast.BoolOp) and isinstance(t.op, ast.And) else [t]
    vm = [a for a in atoms if isinstance(a, ast.Compare) and norm(a.left).endswith(".VM")]
    ex = [a for a in atoms if a not in vm]
    if len(vm) != 1 or norm(vm[0]).replace(" ", "") not in ("elem.VM>1", "elem.VM>=2") or len(ex) != 1 or not (isinstance(ex[0], ast.Compare) and len(ex[0].ops) == 1 and isinstance(ex[0].ops[0], ast.NotIn)):
        rep.defer(f"{fq}: truncation test `{norm(t)}` not recognised")
        return
    subject, container = norm(ex[0].left), strip_cast(ex[0].comparators[0])
    if subject not in ("elem.tag", "elem.keyword"):
        rep.defer(f"{fq}: exemption is keyed by {subject}")
        return

    def const_keywords(node):
        """list/tuple of Tag('K') / 'K' -> [K]"""
        if not isinstance(node, (ast.List, ast.Tuple, ast.Set)):
            return None
        out = []
        for e in node.elts:
            if isinstance(e, ast.Call) and dotted(e.func) == "Tag" and len(e.args) == 1 and isinstance(e.args[0], ast.Constant) and isinstance(e.args[0].value, str):
                out.append(e.args[0].value)
            elif isinstance(e, ast.Constant) and isinstance(e.value, str) and subject == "elem.keyword":
                out.append(e.value)
            else:
                return None
        return out

    prim_mod = repo.mod("dimse_primitives")
    classes = sorted({short(v) for v in m2p.values()})

    def class_attr(cname, attr):
        ci = prim_mod.classes.get(cname)
        if ci is None:
            return None
        for c in repo.mro(ci):
            for st in c.node.body:
                tg = st.targets[0] if isinstance(st, ast.Assign) and len(st.targets) == 1 else st.target if isinstance(st, ast.AnnAssign) and st.value is not None else None
                if tg is not None and norm(tg) == attr:
                    return const_keywords(st.value)
        return None

    per_class = {}
    how = ""
    if isinstance(container, ast.Name) and container.id in dm.assigns:
        kws = const_keywords(dm.assigns[container.id][0])
        if kws is None:
            rep.defer(f"{fq}: {container.id} is not a literal list of Tag(<keyword>) / keywords")
            return
        per_class = {c: kws for c in classes}
        how = f"module list {container.id}"
    else:
        src = container
        if isinstance(container, ast.Name):
            b_ = [s_ for s_ in walk_no_nested(m2) if isinstance(s_, ast.Assign) and norm(s_.targets[0]) == container.id]
            src = strip_cast(b_[0].value) if len(b_) == 1 else None
        attr = dflt = None
        if isinstance(src, ast.Call) and norm(src.func) == "getattr" and len(src.args) >= 2 and norm(src.args[0]) == "primitive" and isinstance(src.args[1], ast.Constant):
            attr = src.args[1].value
            dflt = const_keywords(src.args[2]) if len(src.args) > 2 else None
        elif isinstance(src, ast.Attribute) and norm(src.value) == "primitive":
            attr = src.attr
        if attr is None:
            rep.defer(f"{fq}: exemption container `{norm(container)}` not resolved")
            return
        for c in classes:
            v = class_attr(c, attr)
            per_class[c] = v if v is not None else (dflt if dflt is not None else [])
        how = f"class attribute {attr} of the primitive"

    def has_kw(cname, kw):
        ci = prim_mod.classes.get(cname)
        if ci is None:
            return False
        for c in repo.mro(ci):
            if kw in c.getters:
                return True
            init = c.methods.get("__init__")
            if init is not None and any(isinstance(s_, (ast.Assign, ast.AnnAssign)) and norm(s_.targets[0] if isinstance(s_, ast.Assign) else s_.target) == f"self.{kw}" for s_ in walk_no_nested(init)):
                return True
        return False

    n = 0
    for c in classes:
        for kw in sp["multi_valued"]:
            if has_kw(c, kw):
                n += 1
                rep.check(kw in per_class[c], "multi-valued", fq, f"{c}.{kw} exempt from truncation ({how})", f"{kw} is a multi-valued command element (VM 1-n) that a {c} primitive can hold, but for a {c} message it is not exempt from the VM > 1 truncation: only the first value a peer sent reaches the primitive", mod=dm, node=trunc[0])
        extra = sorted(set(per_class[c]) - set(sp["multi_valued"]))
        rep.check(not extra, "multi-valued", fq, f"{c}: exempt keywords {sorted(per_class[c])}", f"{extra} are single-valued command elements: exempting them hands a list to a parameter that takes one value", mod=dm, node=trunc[0])
    rep.floor("(primitive, multi-valued keyword) pairs", n, 5)


DIMSE_U16 = ("MessageID", "MessageIDBeingRespondedTo", "MoveOriginatorMessageID", "_NumberOfCompletedSuboperations", "_NumberOfFailedSuboperations", "_NumberOfRemainingSuboperations", "_NumberOfWarningSuboperations", "NumberOfCompletedSuboperations", "NumberOfFailedSuboperations", "NumberOfRemainingSuboperations", "NumberOfWarningSuboperations")


def check_dimse_numeric_ranges(repo: Repo, rep: Report, rule: str = "numeric-range") -> int:
    """Message IDs and sub-operation counters are unsigned 16-bit command elements (VR US): the primitive's
    setter must take every value 0 .. 65535. The guards of each setter are evaluated (c01_prims._accepts) on 0,
    1 and 65535: a setter that refuses 0 makes every response to a request with Message ID 0 an 'invalid
    DIMSE message' on the receiving side."""
    from .c01_prims import _Unk, _accepts

    pm = repo.mod("dimse_primitives")
    n = 0
    seen = set()
    for cname, ci in sorted(pm.classes.items()):
        for pname in DIMSE_U16:
            st = ci.setters.get(pname)
            if st is None or id(st) in seen:
                continue
            seen.add(id(st))
            fq = f"dimse_primitives.{cname}.{pname}"
            param = st.args.args[1].arg
            for v in (0, 1, 65535):
                n += 1
                try:
                    ok = _accepts(body_nodoc(st), {param: v})
                except _Unk as exc:
                    rep.defer(f"{fq}: guard not evaluable ({exc})")
                    break
                rep.check(ok, rule, fq, f"value {v}", f"the setter refuses {v}, a legal value of this unsigned 16-bit command element: a received message carrying it cannot be converted to a primitive - 'invalid DIMSE message', Evt19, A-ABORT - and the caller sees none of the responses (for Message ID Being Responded To: every response to a request sent with that Message ID)", mod=pm, node=st)
    return n
