"""C20 - each service request gets exactly one final response with its message ID."""

from __future__ import annotations

import ast
import re

from ..cfg import CFG, typestate, witness, calls_at
from ..loader import AnalysisError, Repo, body_nodoc, dotted, norm, walk_no_nested, enclosing, qualname, head, strip_cast
from ..report import Report
from .c28 import extract_chain

LEVEL = "other"
EXPLANATION = (
    "Final-response typestate over the CFG (handler edges and the suppressing `attempt` context "
    "manager modelled) of every SCP implementation: each dimse.send_msg site is classified by the "
    "status category known on the path (branch test on status[0], or a constant Status assignment "
    "evaluated with the statically extracted code_to_category chain). A send is non-final only "
    "when the category is proven Pending; any other send closes the request. Errors: a send or a "
    "new loop iteration after closing, a normal exit while still open (unless the path proved the "
    "association is no longer established or `attempt` already answered), handler results "
    "destructured outside try/attempt, responses not built from req.MessageID or not sent on the "
    "request's context. Covers every handler behaviour (any return/yield/raise) because it "
    "quantifies over paths, not over handler values."
    " Fourth session: (exchange-framed) borrowed from C15: the final response is cut into exactly the fragments the peer reassembles and a request's data set is waited for."
    ' Fifth round: `attempt` is evaluated in its class form or, written as a @contextmanager generator, by a rule over the generator (exactly one yield, inside a try whose handler catches BaseException or everything, sends the failure response once with error_status and does not re-raise); (categories-correct) borrowed from C28.'
    ' Fifth round (end): Send helpers: a method that sends the response primitive it was handed exactly once on every normal path (context id a parameter or `<context parameter>.context_id`) is summarised and a call of it is a send of its argument.'
    ' Sixth round: (request-served) is_valid_request / is_valid_response evaluated per primitive class with legal falsy values.'
)


_SEND_HELPERS: dict = {}  # method name -> (index of the response argument, index of the context id argument)


def _is_raw_send(c: ast.Call) -> bool:
    return (dotted(c.func) or "").endswith("dimse.send_msg")


def _is_send(c: ast.Call) -> bool:
    d = dotted(c.func) or ""
    return d.endswith("dimse.send_msg") or (d.startswith("self.") and d[5:] in _SEND_HELPERS)


def _send_args(c: ast.Call):
    """(response expression, context id expression) of a send - through a summarised helper by position"""
    d = dotted(c.func) or ""
    if d.startswith("self.") and d[5:] in _SEND_HELPERS:
        ri, ci = _SEND_HELPERS[d[5:]][:2]
        attr = None
        if isinstance(ci, tuple):
            ci, attr = ci
        cx = c.args[ci] if ci < len(c.args) else None
        if cx is not None and attr is not None:
            cx = ast.Attribute(value=cx, attr=attr, ctx=ast.Load())
        return (c.args[ri] if ri < len(c.args) else None), cx
    return (c.args[0] if c.args else None), (c.args[1] if len(c.args) > 1 else None)


def send_helper_summary(fn: ast.FunctionDef):
    """A method that is handed the response primitive and sends it: `None` when fn is not one; (ri, ci) when on
    every normal path it sends exactly that parameter once, on the context id parameter, and never touches its
    Status; a string (why it cannot be summarised) otherwise. A call of such a helper is a send of its argument."""
    params = [a.arg for a in fn.args.args]
    sends = [c for c in walk_no_nested(fn) if isinstance(c, ast.Call) and _is_raw_send(c)]
    psends = [c for c in sends if c.args and isinstance(c.args[0], ast.Name) and c.args[0].id in params[1:]]
    if not psends or not params or params[0] != "self":
        return None
    if len(sends) != 1:
        return f"{len(sends)} sends"
    c = sends[0]
    cxe = strip_cast(c.args[1]) if len(c.args) > 1 else None
    if isinstance(cxe, ast.Name) and cxe.id in params[1:]:
        cxp, cattr = cxe.id, None
    elif isinstance(cxe, ast.Attribute) and isinstance(cxe.value, ast.Name) and cxe.value.id in params[1:]:
        cxp, cattr = cxe.value.id, cxe.attr  # `context.context_id` of a context it was handed
    else:
        return "the context id of the send is not (an attribute of) a parameter"
    rname = c.args[0].id
    sets_status = False
    for a in walk_no_nested(fn):
        if isinstance(a, (ast.Assign, ast.AugAssign)):
            for t in (a.targets if isinstance(a, ast.Assign) else [a.target]):
                if norm(t) in (rname, cxp):
                    return f"assigns {norm(t)}"
                if norm(t) == f"{rname}.Status":
                    sets_status = True
    cfg = CFG(fn, body=body_nodoc(fn), local_exc_only=True)
    sn = cfg.nodes_containing(c)
    if not sn:
        return "send not in the control-flow graph"
    ok, _ = cfg.must_pass(cfg.entry, lambda n: n is sn[0], {cfg.exit.id}, labels_excluded=("exc",))
    if not ok or enclosing(c, (ast.For, ast.While)) is not None:
        return "the send is conditional or in a loop"
    ci = params.index(cxp) - 1
    return params.index(rname) - 1, (ci if cattr is None else (ci, cattr)), sets_status


def _is_delegate(c: ast.Call) -> bool:
    d = dotted(c.func) or ""
    return d.startswith("self._") and d.endswith("_scp") and len(c.args) == 2


def suppressing(item: ast.withitem) -> bool:
    return isinstance(item.context_expr, ast.Call) and dotted(item.context_expr.func) == "attempt"


def analyse(repo, rep, mod, fn, cat_of_const, names, ALL_CATS):
    fq = f"{mod.name.replace('pynetdicom.', '')}.{qualname(fn)}"
    rep.saw("SCP functions", fq)
    cfg = CFG(fn, body=body_nodoc(fn), suppressing=suppressing, local_exc_only=True)
    loops = [n for n in cfg.nodes if n.kind == "iter" and "_wrap_handler" in norm(n.ast.iter)]
    fails = []
    n_sends = [0]

    def transfer(n, st):
        closed, cat, excused, failed, pinned, last = st
        if n.kind == "with_exit":
            return [((closed, cat, excused, failed, pinned, last), None)]
        if n.kind == "with_enter" and any(suppressing(i) for i in n.ast.items):
            # `with attempt(...) as ctx` binds a fresh context: an earlier failure is no longer
            # visible through ctx.success
            names = {norm(i.optional_vars) for i in n.ast.items if suppressing(i) and i.optional_vars is not None}
            return [((closed, cat, excused, failed - names, pinned, last), None)]
        if n in loops:
            if closed:
                fails.append(("after-final", n, st, "the result loop continues after a non-Pending (final) response was sent for this request"))
                closed = False  # report once, keep exploring
            return [((closed, None, excused, failed, False, None), None)]
        if n.kind == "stmt":
            a = n.ast
            for c in calls_at(n):
                if (dotted(c.func) or "") in ("self.abort", "self.assoc.abort", "ctx.assoc.abort"):
                    # the library itself ends the association (e.g. a request on a context that
                    # was not accepted is not a valid request): no response can or may follow
                    excused = True
                if _is_send(c) or _is_delegate(c):
                    n_sends[0] += 1
                    hd_ = dotted(c.func) or ""
                    if hd_.startswith("self.") and _SEND_HELPERS.get(hd_[5:], (0, 0, False))[2]:
                        cat = None  # the helper may replace the status before it sends: not provably Pending
                    if closed:
                        fails.append(("after-final", n, st, "a response is sent after the final response for this request"))
                    if cat == frozenset({"STATUS_PENDING"}) and _is_send(c):
                        pass  # non-final
                    elif cat == frozenset({"STATUS_WARNING"}) and pinned and _is_send(c):
                        pass  # the Repository Query 0xB001 response-limit warning, pinned by value
                    else:
                        closed = True
                    last = cat
            if isinstance(a, ast.Assign) and len(a.targets) == 1:
                t = norm(a.targets[0])
                if t == "rsp.Status":
                    v = strip_cast(a.value)
                    if isinstance(v, ast.Constant) and isinstance(v.value, int):
                        cat = frozenset({cat_of_const(v.value)})
                    else:
                        cat = None
                elif t == "rsp":
                    cat = None
                elif t == "status":
                    cat = ALL_CATS if norm(a.value) == "self.statuses[rsp.Status]" else None
            return [((closed, cat, excused, failed, pinned, last), None)]
        if n.kind == "test":
            t = n.ast.test
            txt = norm(t)
            if txt in ("rsp.Status == 45057", "45057 == rsp.Status"):
                reopened = closed and last == frozenset({"STATUS_WARNING"})
                return [((False if reopened else closed, cat, excused, failed, True, last), {"true"}), ((closed, cat, excused, failed, pinned, last), {"false", "exc"})]
            if ".success" in txt or "is_established" in txt:
                atoms = [norm(v) for v in t.values] if isinstance(t, ast.BoolOp) and isinstance(t.op, ast.Or) else [txt]
                succ_names = [m_.group(1) for m_ in (re.fullmatch(r"not (\w+)\.success", a) for a in atoms) if m_]
                est = [a for a in atoms if re.fullmatch(r"not (self|\w+)\.assoc\.is_established", a)]
                if len(succ_names) + len(est) == len(atoms):
                    outs = []
                    # the test asks about the attempt bound to *that* name: it sees a failure only of that one
                    has_succ = bool(succ_names)
                    seen_failed = any(nm in failed for nm in succ_names)
                    has_est = bool(est)
                    # true edge
                    if has_succ and seen_failed:
                        outs.append(((closed, cat, excused, failed, pinned, last), {"true"}))
                    if has_est and not (has_succ and seen_failed):
                        outs.append(((closed, cat, True, failed, pinned, last), {"true"}))
                    # false edge: the tested attempt did not fail and the association is still established
                    if not (has_succ and seen_failed):
                        outs.append(((closed, cat, excused, failed, pinned, last), {"false"}))
                    return outs
                if ".success" in txt:
                    raise AnalysisError(f"{fq}: unmodelled test on an attempt's success flag: {txt}")
            cmp = t
            if isinstance(t, ast.BoolOp) and isinstance(t.op, ast.And) and isinstance(t.values[0], ast.Compare) and norm(t.values[0].left) == "status[0]":
                cmp = t.values[0]  # `status[0] == X and <more>`: the true edge implies the comparison
            if isinstance(cmp, ast.Compare) and norm(cmp.left) == "status[0]" and len(cmp.ops) == 1:
                c = cmp.comparators[0]
                members = None
                if isinstance(cmp.ops[0], ast.Eq) and isinstance(c, ast.Name):
                    members = frozenset({c.id})
                elif isinstance(cmp.ops[0], ast.In) and isinstance(c, (ast.Tuple, ast.List, ast.Set)) and all(isinstance(e, ast.Name) for e in c.elts):
                    members = frozenset(e.id for e in c.elts)
                if members is not None:
                    base = cat if cat is not None else ALL_CATS
                    outs = []
                    tset = base & members
                    if tset:
                        outs.append(((closed, tset, excused, failed, pinned, last), {"true"}))
                    if cmp is t:
                        fset = base - members
                        if fset:
                            outs.append(((closed, fset, excused, failed, pinned, last), {"false", "exc"}))
                    else:
                        outs.append(((closed, cat, excused, failed, pinned, last), {"false", "exc"}))
                    return outs
        return [((closed, cat, excused, failed, pinned, last), None)]

    # transfer() above returns early for stmt/test nodes; exception edges into `attempt` need the
    # special state, so wrap it
    def transfer2(n, st):
        res = transfer(n, st)
        exc_to_attempt = any(l == "exc" and m.kind == "with_exit" for m, l in n.succ)
        if not exc_to_attempt:
            return res
        out = []
        for s2, labels in res:
            non_exc = (labels - {"exc"}) if labels is not None else {l for _, l in n.succ if l != "exc"}
            if non_exc:
                out.append((s2, non_exc))
        closed, cat, excused, failed, pinned, last = st
        # which attempt block swallows the exception: the failure is visible through that block's name only
        wx = [m for m, l in n.succ if l == "exc" and m.kind == "with_exit"]
        names = {norm(i.optional_vars) for m in wx for i in m.ast.items if suppressing(i) and i.optional_vars is not None}
        out.append(((True, None, excused, failed | frozenset(names), False, "attempt"), {"exc"}))
        return out

    ins, pred = typestate(cfg, (False, None, False, frozenset(), False, None), transfer2)
    for st in ins.get(cfg.exit.id, ()):
        closed, cat, excused, failed, pinned, last = st
        if not closed and not excused:
            fails.append(("no-final", cfg.exit, st, "a path reaches the end of the SCP without any final response (and without having established that the association ended)"))
    seen = set()
    for rule, node, st, msg in fails:
        w = witness(cfg, pred, node, st)
        # anchor: last branch test or send on the witness path
        cur = (node.id, st)
        anchor, text = (node.ast if node.ast is not None else fn), node.text()
        chain = []
        while cur in pred:
            cur = pred[cur]
            chain.append(cfg.nodes[cur[0]])
        for c in chain:
            if c.kind == "stmt" and any(_is_send(x) or _is_delegate(x) for x in calls_at(c)):
                ctx = enclosing(c.ast, (ast.If, ast.ExceptHandler, ast.With, ast.For, ast.While))
                text = f"{norm(c.ast)} under '{head(ctx) if ctx is not None else 'function body'}'"
                anchor = c.ast
                break
            if c.kind == "test" and rule == "no-final":
                text = f"falls through '{head(c.ast)}'"
                anchor = c.ast
                break
        key = (rule, text)
        if key in seen:
            continue
        seen.add(key)
        rep.fail(rule, fq, text, msg, mod=mod, node=anchor, path=w)
    for rule in ("after-final", "no-final"):
        if not any(f[0] == rule for f in fails):
            rep.ok(rule, f"{fq} :: all paths", f"{n_sends[0]} send visits")

    # ---- message id / context def-use ---------------------------------------
    sends = [c for c in walk_no_nested(fn) if isinstance(c, ast.Call) and _is_send(c)]
    if sends:
        mid = [s for s in walk_no_nested(fn) if isinstance(s, ast.Assign) and norm(s.targets[0]).endswith(".MessageIDBeingRespondedTo")]
        okm = len(mid) == 1 and norm(mid[0].value) == "req.MessageID" and norm(mid[0].targets[0]) == "rsp.MessageIDBeingRespondedTo"
        rep.check(okm, "message-id", fq, mid[0] if mid else "rsp.MessageIDBeingRespondedTo = ?", "the response must carry the request's message ID", mod=mod, node=(mid[0] if mid else fn))
        if okm:
            mn = cfg.node_of(mid[0])
            for s in sends:
                sn = cfg.nodes_containing(s)
                rep.need(sn, f"{fq}: send not in CFG")
                rep.check(cfg.dominates(mn, sn[0]), "message-id", fq, enclosing(s, (ast.stmt,)), "a response can be sent before MessageIDBeingRespondedTo is set", mod=mod, node=s)
        # rsp is only rebound through validate_status(..., rsp) after construction
        rebinds = [s for s in walk_no_nested(fn) if isinstance(s, ast.Assign) and norm(s.targets[0]) == "rsp"]
        for r in rebinds:
            v = r.value
            okr = (isinstance(v, ast.Call) and dotted(v.func) in ("self.validate_status",) and norm(v.args[-1]) == "rsp") or (isinstance(v, ast.Call) and isinstance(v.func, ast.Name) and v.func.id[:2] in ("C_", "N_") and not v.args)
            rep.check(okr, "message-id", fq, r, "the response object is replaced by something other than validate_status(.., rsp)", mod=mod, node=r)
        cx_defs = {norm(s.targets[0]): norm(strip_cast(s.value)) for s in walk_no_nested(fn) if isinstance(s, ast.Assign) and isinstance(s.targets[0], ast.Name) and "context_id" in norm(s.value)}
        for s in sends:
            r_, c_ = _send_args(s)
            a0 = norm(r_) if r_ is not None else "?"
            a1 = norm(strip_cast(c_)) if c_ is not None else "?"
            src = cx_defs.get(a1, a1)
            # the request's own id: the SCP's context parameter, or (Association._c_store_scp, which has
            # no context parameter) the id the request primitive arrived with
            okc = a0 == "rsp" and src in ("context.context_id", "req._context_id")
            rep.check(okc, "context", fq, enclosing(s, (ast.stmt,)), f"the response must be `rsp` sent on the request's context (got {a0!r} on {src!r})", mod=mod, node=s)

    # ---- handler results destructured outside try/attempt ----------------------
    handler_vars = set()
    for s in walk_no_nested(fn):
        if isinstance(s, ast.Assign) and isinstance(s.value, ast.Call) and dotted(s.value.func) in ("evt.trigger",) and isinstance(s.targets[0], ast.Name):
            handler_vars.add(s.targets[0].id)
        if isinstance(s, ast.For) and "_wrap_handler" in norm(s.iter):
            for nm in ast.walk(s.target):
                if isinstance(nm, ast.Name):
                    handler_vars.add(nm.id)
    for s in walk_no_nested(fn):
        if isinstance(s, ast.Assign) and isinstance(s.targets[0], (ast.Tuple, ast.List)):
            v = strip_cast(s.value)
            src = None
            if isinstance(v, ast.Name) and v.id in handler_vars:
                src = v.id
            if isinstance(v, ast.Call) and dotted(v.func) == "next" and v.args and isinstance(v.args[0], ast.Name):
                src = f"next({v.args[0].id})"
            if src is None:
                continue
            n = cfg.node_of(s)
            protected = n is not None and any(lab == "exc" for _, lab in n.succ)
            rep.check(protected, "handler-result", fq, s, f"the handler's result ({src}) is unpacked outside try/attempt: a handler returning the wrong shape raises out of the SCP, which then aborts instead of answering", mod=mod, node=s)


def run(repo: Repo, rep: Report, tier: str) -> None:
    rep.rule("after-final", "no response and no further loop iteration after a response whose status is not proven Pending")
    rep.rule("no-final", "every normal exit is preceded by a final response, unless the path established that the association ended or attempt() already answered")
    rep.rule("message-id", "rsp.MessageIDBeingRespondedTo = req.MessageID dominates every send; rsp only rebound via validate_status")
    rep.rule("context", "every send is send_msg(rsp, <request's context id>)")
    rep.rule("handler-result", "destructuring of handler return/yield values happens inside try/attempt")
    rep.rule("attempt", "attempt.__exit__ answers exactly once with error_status and suppresses the exception")
    clauses, default, stmod, _ = extract_chain(repo, rep)
    from ..consteval import Evaluator
    ev = Evaluator(repo, stmod)
    names = {ev.name(n): n for n in ("STATUS_SUCCESS", "STATUS_FAILURE", "STATUS_WARNING", "STATUS_CANCEL", "STATUS_PENDING", "STATUS_UNKNOWN")}

    def cat_of_const(code):
        for member, cat, _ in clauses:
            if code in member:
                return names[cat]
        return names[default]

    from ..consteval import module_tables
    tabs = {k: v for k, v in module_tables(repo, stmod).items() if k.endswith("_STATUS")}
    all_cats = frozenset(names[v[0]] for t in tabs.values() for v in t.values())
    rep.sample({"status categories occurring in the service status tables": sorted(all_cats)})
    n_fn = 0
    _SEND_HELPERS.clear()
    for mname in ("service_class", "service_class_n"):
        m = repo.mod(mname)
        for fn in [n for n in ast.walk(m.tree) if isinstance(n, ast.FunctionDef)]:
            sm_ = send_helper_summary(fn)
            if sm_ is None:
                continue
            if isinstance(sm_, str):
                rep.defer(f"{mname}.{qualname(fn)} sends a response primitive it was handed, but not unconditionally once ({sm_}): the callers' response sequences are not decided")
                continue
            _SEND_HELPERS[fn.name] = sm_
            rep.ok("no-final", f"{mname}.{qualname(fn)} :: response helper", f"sends parameter #{sm_[0]} exactly once on every normal path, on parameter #{sm_[1]}{' (may replace its Status first)' if sm_[2] else ''}: a call is a send of its argument")
    for mname in ("service_class", "service_class_n", "association"):
        m = repo.mod(mname)
        for fn in [n for n in ast.walk(m.tree) if isinstance(n, ast.FunctionDef)]:
            q = qualname(fn)
            if fn.name in _SEND_HELPERS and mname != "association":
                continue
            if q.startswith("attempt.") or q == "attempt":
                continue  # the containment helper (class or @contextmanager function): decided by the attempt rule
            if mname == "association" and q != "Association._c_store_scp":
                continue
            calls = [c for c in walk_no_nested(fn) if isinstance(c, ast.Call)]
            if not any(_is_send(c) or _is_delegate(c) for c in calls):
                continue
            n_fn += 1
            analyse(repo, rep, m, fn, cat_of_const, names, all_cats)
    rep.floor("SCP functions analysed", n_fn, 25)

    # ---- a primitive carrying MessageIDBeingRespondedTo is always sent as a response ------------
    rep.rule("response-direction", "send_msg turns a primitive into a response message exactly when MessageIDBeingRespondedTo is not None (0 is a valid message ID)")
    dimse = repo.mod("dimse")
    sm = repo.func("dimse", "DIMSEServiceProvider.send_msg")
    sel = [i for i in walk_no_nested(sm) if isinstance(i, ast.If) and "MessageIDBeingRespondedTo" in norm(i.test)]
    rep.need(len(sel) == 1, "dimse.send_msg: request/response selection vanished")
    t = sel[0].test
    is_none = isinstance(t, ast.Compare) and len(t.ops) == 1 and norm(t.left) == "primitive.MessageIDBeingRespondedTo" and isinstance(t.comparators[0], ast.Constant) and t.comparators[0].value is None and isinstance(t.ops[0], (ast.Is, ast.IsNot, ast.Eq, ast.NotEq))
    if is_none:
        rq_first = isinstance(t.ops[0], (ast.Is, ast.Eq))
        rq_branch, rsp_branch = (sel[0].body, sel[0].orelse) if rq_first else (sel[0].orelse, sel[0].body)
        ok = any("_RQ_TO_MESSAGE[" in norm(x) for x in rq_branch) and any("_RSP_TO_MESSAGE[" in norm(x) for x in rsp_branch)
    else:
        ok = False
    rep.check(ok, "response-direction", "dimse.DIMSEServiceProvider.send_msg", sel[0], "the response for a request with Message ID 0 would be sent as a *request* message (truthiness test instead of `is None`): the request never gets a final response carrying its ID", mod=dimse, node=sel[0])

    # ---- attempt.__exit__ ----------------------------------------------------------
    # evaluated (sa/minipy.py): without an exception nothing is sent and the exception state is left alone; with any
    # exception - BaseExceptions a handler can raise included - exactly one response carrying error_status goes out
    # on the attempt's context, the failure is recorded and the exception is suppressed
    from ..minipy import Interp, Obj, Raised, Unsupported
    sc = repo.mod("service_class")
    aci = sc.classes.get("attempt")
    if aci is None or "__exit__" not in aci.methods:
        check_attempt_generator(repo, rep, "attempt")
        ex = None
    else:
        ex = repo.func("service_class", "attempt.__exit__")
    try:
        if ex is None:
            raise StopIteration
        for kind in (None, "ValueError", "KeyboardInterrupt", "SystemExit", "GeneratorExit"):
            for with_assoc in (False, True):
                sent = []
                rsp = Obj("DIMSEPrimitive", {"Status": None})
                dimse = Obj("DIMSEServiceProvider", {"@send_msg": lambda s_, r_, c_: sent.append((r_, c_, r_.attrs.get("Status")))})
                assoc_o = Obj("Association", {"abort": "nonblocking", "_abort_blocking": "blocking", "_abort_nonblocking": "nonblocking"}) if with_assoc else None
                me = Obj("attempt", {"_assoc": assoc_o, "_rsp": rsp, "_dimse": dimse, "_cx_id": 3, "error_status": 0xC211, "error_msg": "msg", "_success": True}, alias={"assoc": "_assoc"})
                it_ = Interp({})
                params = [a.arg for a in ex.args.args]
                exc_val = Obj(kind, {}) if kind else None
                ret = it_.call_function(ex, dict(zip(params, [me, kind, exc_val, None])))
                inst = f"exception {kind}" + (", association set" if with_assoc else "")
                if kind is None:
                    okx = not ret and not sent and me.get("_success") is True
                    rep.check(okx, "attempt", "service_class.attempt.__exit__", f"[no exception] returns {ret!r}, {len(sent)} response(s) sent", "without an exception attempt must send nothing, keep its success flag and not suppress anything", mod=sc, node=ex)
                else:
                    okx = bool(ret) and len(sent) == 1 and sent[0][0] is rsp and sent[0][1] == 3 and sent[0][2] == 0xC211 and me.get("_success") is False
                    rep.check(okx, "attempt", "service_class.attempt.__exit__", f"[{inst}] returns {ret!r}, {len(sent)} response(s) sent{', status ' + hex(sent[0][2]) if sent and isinstance(sent[0][2], int) else ''}, success flag {me.get('_success')}", f"a handler raising {kind} must be answered with exactly one response carrying error_status on the attempt's context, the failure recorded and the exception suppressed - otherwise the request is left without any final response (or gets two)", mod=sc, node=ex)
                if with_assoc:
                    rep.check(assoc_o.get("abort") == "blocking", "attempt", "service_class.attempt.__exit__", f"[{inst}] abort restored to {assoc_o.get('abort')}", "the blocking abort must be restored when the attempt ends", mod=sc, node=ex)
    except StopIteration:
        pass
    except Raised as r_:
        rep.fail("attempt", "service_class.attempt.__exit__", f"raises {r_.kind}", "attempt.__exit__ itself raises: the handler's exception is replaced by another one and no response is sent", mod=sc, node=ex)
    except Unsupported as exc_:
        rep.defer(f"service_class.attempt.__exit__ could not be evaluated ({exc_})")
    # ---- absent is None, not falsy ---------------------------------------------------------
    from ..lints import zero_legal_truthiness
    check_validity_getters(repo, rep, "request-served")
    rep.rule("none-not-falsy", "Message IDs and Status are tested with `is None`: Message ID 0 and Status 0x0000 are legal")
    zero_legal_truthiness(repo, rep, "none-not-falsy", {"MessageID", "MessageIDBeingRespondedTo", "Status"})

    rep.rule("peer-status-guarded", "every lookup of a peer-chosen status in a service-class status table is inside a try that covers KeyError")
    rep.floor("peer-status lookups", check_peer_status_lookup(repo, rep), 1)
    from .c26 import check_wrap_handler_uses
    rep.rule("handler-iterable", "_wrap_handler only iterates what the handler returned, inside its guarded try (C26's rule): nothing it does with the object can raise past the SCP")
    check_wrap_handler_uses(repo, rep, "handler-iterable")
    from ..delegate import delegate
    rep.rule("categories-correct", "the category an SCP takes from its status table is the PS3.7 category of that code (C28's table-agreement)")
    delegate(repo, rep, tier, "C28", ("table-agreement",), "categories-correct", "an SCP that looks this code up takes the wrong branch: a Pending status filed as Warning is sent without its Identifier and treated as the final response's predecessor that never comes - the request never gets a final response")
    rep.rule("exchange-framed", "the request's data set is waited for and the final response is cut into exactly the fragments the peer reassembles (C15's fragmentation and reader rules)")
    delegate(repo, rep, tier, "C15", ("overhead", "overhead-count", "order-flags", "one-pdv", "reader-bits", "reader-complete", "message-reset"), "exchange-framed", "the exchange ends without a final response although nobody aborted or released: for some sizes the response's encoder raises out of send_msg (the association is aborted after the Pending responses), or a request whose data set is announced with another legal value is queued without it and the following fragments are taken for a new, invalid message")

def check_attempt_generator(repo, rep, rule: str) -> bool:
    """`attempt` written as a @contextmanager generator: the block of the caller runs at the `yield`, so the yield
    must sit in a try whose handler catches *everything* a handler can end with - BaseException or a bare
    except, not just Exception (sys.exit(), KeyboardInterrupt, asyncio.CancelledError are BaseExceptions) - sends
    the response carrying error_status exactly once, records the failure and does not re-raise."""
    sc = repo.mod("service_class")
    fn = sc.funcs.get("attempt")
    if fn is None or not any(norm(d).split(".")[-1] == "contextmanager" for d in fn.decorator_list):
        rep.defer("service_class.attempt is neither a class with __exit__ nor a @contextmanager function")
        return False
    ys = [y for y in walk_no_nested(fn) if isinstance(y, ast.Yield)]
    ok_all = True
    if len(ys) != 1:
        rep.fail(rule, "service_class.attempt", f"{len(ys)} yields", "a context manager generator must yield exactly once", mod=sc, node=fn)
        return False
    t = enclosing(ys[0], (ast.Try,))
    in_body = t is not None and any(ys[0] is x for s_ in t.body for x in ast.walk(s_))
    if not in_body:
        rep.fail(rule, "service_class.attempt", enclosing(ys[0], (ast.stmt,)), "the yield is not inside a try: nothing the handler raises is turned into a failure response", mod=sc, node=ys[0])
        return False
    wide = []
    for h in t.handlers:
        names = [] if h.type is None else [norm(x) for x in h.type.elts] if isinstance(h.type, ast.Tuple) else [norm(h.type)]
        if h.type is None or "BaseException" in names:
            wide.append(h)
    caught = sorted({norm(h.type) if h.type is not None else "everything" for h in t.handlers})
    rep.check(bool(wide), rule, "service_class.attempt", f"the block at the yield is guarded by except {caught}", f"attempt only turns {caught} into the failure response: a handler that ends with a BaseException (sys.exit(), KeyboardInterrupt, asyncio.CancelledError, a user BaseException subclass) leaves the with-block through the generator, the SCP's thread dies and the request gets no response at all (the class form's __exit__ caught whatever was raised)", mod=sc, node=t)
    ok_all = bool(wide)
    for h in t.handlers:
        sends = [c for c in ast.walk(h) if isinstance(c, ast.Call) and (dotted(c.func) or "").endswith("send_msg")]
        sets = [a for a in ast.walk(h) if isinstance(a, ast.Assign) and isinstance(a.targets[0], ast.Attribute) and a.targets[0].attr == "Status" and "error_status" in norm(a.value)]
        reraises = [r for r in ast.walk(h) if isinstance(r, ast.Raise)]
        okh = len(sends) == 1 and len(sets) == 1 and not reraises
        rep.check(okh, rule, "service_class.attempt", f"except {norm(h.type) if h.type is not None else ''}: {len(sends)} send_msg, {len(sets)} Status = error_status, {len(reraises)} raise", "the handler of attempt must answer with exactly one response carrying error_status and suppress the exception", mod=sc, node=h)
        ok_all = ok_all and okh
    return ok_all


def check_peer_status_lookup(repo, rep, rule: str = "peer-status-guarded") -> int:
    """A status a peer (the C-STORE sub-operation's SCP, or this AE's own requestor) answered with is looked
    up in a status table. The peer chooses the value: the lookup must expect a miss - a try whose handlers
    cover KeyError. Otherwise a status outside the table (0xD000, 0x0001 ...) raises out of the SCP, the
    association is aborted and the request never gets its final response."""
    sc = repo.mod("service_class")
    n = 0
    for x in ast.walk(sc.tree):
        if not (isinstance(x, ast.Subscript) and isinstance(x.ctx, ast.Load) and norm(x.value).endswith("_SERVICE_CLASS_STATUS") and not isinstance(x.slice, ast.Constant)):
            continue
        n += 1
        fq = f"service_class.{qualname(x)}"
        ok = False
        t = enclosing(x, (ast.Try,))
        while t is not None and not ok:
            if any(x in list(ast.walk(s_)) for s_ in t.body):
                for h in t.handlers:
                    names = [] if h.type is None else [norm(e) for e in h.type.elts] if isinstance(h.type, ast.Tuple) else [norm(h.type)]
                    if h.type is None or any(k in names for k in ("KeyError", "LookupError", "Exception", "BaseException")):
                        ok = True
            t = enclosing(t, (ast.Try,))
        rep.check(ok, rule, fq, enclosing(x, (ast.stmt,)) or x, f"`{norm(x)}` looks a status the peer chose up in the table without a handler for the miss: a sub-operation answered with a status outside the Storage table raises KeyError out of the SCP, pynetdicom aborts, and the C-GET / C-MOVE request is left without its final response", mod=sc, node=x)
    for x in ast.walk(sc.tree):
        # `TABLE.get(status, <default>)` expects the miss by construction
        if isinstance(x, ast.Call) and isinstance(x.func, ast.Attribute) and x.func.attr == "get" and norm(x.func.value).endswith("_SERVICE_CLASS_STATUS") and len(x.args) == 2:
            n += 1
            rep.ok(rule, f"service_class.{qualname(x)} :: {norm(x)[:60]}", ".get() with a default")
    return n


def check_validity_getters(repo, rep, rule: str) -> None:
    """_serve_request() drops - without a response and without an abort - every request whose primitive says it is
    not a valid request. The getter is evaluated (sa/minipy.py) for each primitive class with every required
    parameter set to a legal *falsy* value (Message ID 0, Priority 0 = MEDIUM, an empty identifier stream ...) and
    with each one missing in turn: valid exactly when none is None."""
    from ..minipy import Interp, Obj, Raised, Unsupported

    rep.rule(rule, "is_valid_request / is_valid_response are true exactly when no required parameter is None - a legal falsy value (Message ID 0, Priority 0) is present")
    dp = repo.mod("dimse_primitives")
    base = dp.classes.get("DIMSEPrimitive")
    if base is None:
        rep.defer("dimse_primitives.DIMSEPrimitive vanished")
        return
    n = 0
    for getter, kwattr in (("is_valid_request", "REQUEST_KEYWORDS"), ("is_valid_response", "RESPONSE_KEYWORDS")):
        for cname, ci in sorted(dp.classes.items()):
            _, fn = repo.lookup_method(ci, getter, "getter")
            if fn is None:
                continue
            kws = None
            for c_ in repo.mro(ci):
                for a in c_.node.body:
                    if isinstance(a, (ast.Assign, ast.AnnAssign)) and norm(a.targets[0] if isinstance(a, ast.Assign) else a.target) == kwattr and isinstance(a.value, (ast.Tuple, ast.List)):
                        kws = [e.value for e in a.value.elts if isinstance(e, ast.Constant)]
                        break
                if kws is not None:
                    break
            if not kws:
                continue
            for missing in [None] + kws:
                attrs = {k: (0 if ("ID" in k or k in ("Priority", "Status")) else "") for k in kws}
                if missing is not None:
                    attrs[missing] = None
                attrs[kwattr] = tuple(kws)
                me = Obj(cname, attrs)
                try:
                    r = Interp({}).call_function(fn, {"self": me})
                except Unsupported as exc:
                    rep.defer(f"dimse_primitives.{cname}.{getter}: not evaluable ({exc})")
                    break
                except Raised as r_:
                    rep.fail(rule, f"dimse_primitives.{cname}.{getter}", f"raises {r_.kind}", "the validity getter raises", mod=dp, node=fn)
                    break
                n += 1
                want = missing is None
                if bool(r) != want:
                    rep.fail(rule, f"dimse_primitives.{cname}.{getter}", f"{'all required parameters present, the numeric ones 0 and the others empty' if missing is None else missing + ' is None'} -> {r!r}", f"{getter} must be {want}: " + ("a request whose Message ID or Priority is 0 (both legal) is otherwise dropped by _serve_request() without any response" if want else "a primitive lacking a required parameter passes as valid"), mod=dp, node=fn)
                    break
    if n:
        rep.ok(rule, f"dimse_primitives :: {n} evaluations of the validity getters", "valid iff no required parameter is None")
    rep.floor("validity getter evaluations", n, 40)
