"""C22 - C-GET / C-MOVE sub-operation counters stay consistent."""

from __future__ import annotations

import ast
import copy
import itertools

from ..cfg import CFG, typestate, witness, path_summaries, calls_at
from ..consteval import module_tables, Evaluator
from ..loader import AnalysisError, Repo, body_nodoc, dotted, norm, walk_no_nested, enclosing, head
from ..report import Report

LEVEL = "other"
EXPLANATION = (
    "Conservation-law dataflow over the CFG of _get_scp and _move_scp: the abstract state is the "
    "delta of the 4-vector store_results relative to the loop-head invariant sum == N; it is "
    "propagated through every path of the result loop (typestate, powerset domain, the C-STORE "
    "status-category chain pruned with the statically evaluated STORAGE_SERVICE_CLASS_STATUS). "
    "Every Pending send and every return to the loop head must see a zero-sum delta with "
    "remaining non-increasing and the other counters non-decreasing; the Number* fields must be "
    "assigned from the matching indices; the final block's Success/all-failed/Warning decision is "
    "evaluated over all feasible (failed>0, warning>0, all-failed) combinations. Decides the "
    "bookkeeping for every handler yield sequence and sub-operation outcome at once; does not "
    "decide what the C-STORE sub-operation itself does."
    " Third session: (classification) the tally segment of _get_scp / _move_scp is evaluated with the checker's interpreter for one status of every category of the storage table, an unknown status and a raising send: Success counts as completed, Warning as warning, everything else as failed, and remaining drops by one each time; (status-known) borrowed from C28's docs-agreement; (final-status) the handler-yields-Success branch is enumerated over the counter cases."
    ' Fifth round: the completion test of a sub-operation loop dominates every send of the iteration; the announced count is checked at its 16-bit boundary; the failed-instance list is modelled (FailedList) under any local name.'
    " Sixth round: (counts-delivered) borrows C20's response-direction; (outcome-attributed) borrows C24's evaluation of _handle_no_response."
)

FIELDS = {
    "NumberOfRemainingSuboperations": 0,
    "NumberOfFailedSuboperations": 1,
    "NumberOfWarningSuboperations": 2,
    "NumberOfCompletedSuboperations": 3,
}


def _sr_index(node):
    """store_results[k] -> k"""
    if isinstance(node, ast.Subscript) and isinstance(node.value, ast.Name) and node.value.id == "store_results" and isinstance(node.slice, ast.Constant):
        return node.slice.value
    return None


class FailedList:
    """where the (0008,0058) Failed SOP Instance UID List comes from in one SCP function: the local list, the
    expressions that denote it in a response (`L` or a call of a nested helper that returns a view of L), the
    calls that record a failed instance (`L.append`, nested helpers that append to L) and what they record"""

    def __init__(self, fn: ast.FunctionDef):
        self.exprs: set[str] = set()
        self.adders: set[str] = set()
        self.name: str | None = None
        self.lazy: list[ast.AST] = []  # reads of a data-set attribute at response time
        self.refs: list[ast.AST] = []  # appended values that are objects, not UID values
        nested = {f.name: f for f in ast.walk(fn) if isinstance(f, ast.FunctionDef) and f is not fn}
        for a in ast.walk(fn):
            if isinstance(a, ast.Assign) and norm(a.targets[0]).endswith(".FailedSOPInstanceUIDList"):
                v = a.value
                if isinstance(v, ast.Name):
                    self.name = self.name or v.id
                    self.exprs.add(norm(v))
                elif isinstance(v, ast.Call) and isinstance(v.func, ast.Name) and v.func.id in nested and not v.args:
                    h = nested[v.func.id]
                    self.exprs.add(norm(v))
                    outer = [n_.id for n_ in ast.walk(h) if isinstance(n_, ast.Name) and isinstance(n_.ctx, ast.Load) and n_.id not in {x.arg for x in h.args.args}]
                    cands = [n_ for n_ in outer if any(isinstance(c, ast.Call) and norm(c.func) == f"{n_}.append" for c in ast.walk(fn))]
                    if cands:
                        self.name = self.name or cands[0]
                    for x in ast.walk(h):
                        if isinstance(x, ast.Attribute) and x.attr == "SOPInstanceUID":
                            self.lazy.append(x)
        if self.name is None:
            return
        self.exprs.add(self.name)
        self.adders.add(f"{self.name}.append")
        for hname, h in nested.items():
            if any(isinstance(c, ast.Call) and norm(c.func) == f"{self.name}.append" for c in ast.walk(h)):
                self.adders.add(hname)
        for c in ast.walk(fn):
            if isinstance(c, ast.Call) and norm(c.func) == f"{self.name}.append" and c.args:
                v = c.args[0]
                if not (isinstance(v, ast.Constant) or (isinstance(v, ast.Attribute) and v.attr == "SOPInstanceUID") or (isinstance(v, ast.Call) and norm(v.func) in ("str", "UID"))):
                    self.refs.append(c)


def analyse(repo: Repo, rep: Report, fname: str, store_cats: frozenset, qr_table: dict):
    mod = repo.mod("service_class")
    fn = repo.func("service_class", f"QueryRetrieveServiceClass.{fname}")
    fq = f"service_class.QueryRetrieveServiceClass.{fname}"
    rep.saw("functions", fq)
    fl = FailedList(fn)
    rep.need(fl.name is not None, f"{fq}: the list behind FailedSOPInstanceUIDList was not found")
    rep.check(not fl.lazy and not fl.refs, "failed-list", fq, (enclosing((fl.lazy + fl.refs)[0], (ast.stmt,)) if (fl.lazy + fl.refs) else f"{fl.name}: UID values recorded when the sub-operation fails"), "the failed-instance list keeps references to the data sets the handler yielded and reads their SOP Instance UID only when a response is built: a handler that reuses, re-labels or clears the yielded Dataset object (it owns it) changes what an already failed sub-operation is listed as - the final response no longer lists exactly the failed instances; the UID value must be copied when the failure is counted", mod=mod, node=(fl.lazy + fl.refs)[0] if (fl.lazy + fl.refs) else fn)
    # exceptions that are caught inside the function are real alternative paths (a C-STORE
    # sub-operation that raises skips the rest of its try body)
    cfg = CFG(fn, body=body_nodoc(fn), local_exc_only=True)
    loops = [n for n in cfg.nodes if n.kind == "iter" and "_wrap_handler" in norm(n.ast.iter)]
    rep.need(len(loops) == 1, f"{fq}: result loop over _wrap_handler not found")
    loop = loops[0]
    init_assign = [s for s in walk_no_nested(fn) if isinstance(s, ast.Assign) and norm(s.targets[0]) == "store_results"]
    rep.need(len(init_assign) == 1, f"{fq}: store_results initialised {len(init_assign)} times")
    iv = init_assign[0].value
    ok = isinstance(iv, ast.List) and len(iv.elts) == 4 and norm(iv.elts[0]) == "nr_suboperations" and all(isinstance(e, ast.Constant) and e.value == 0 for e in iv.elts[1:])
    rep.check(ok, "conservation", fq, init_assign[0], "store_results must start as [N, 0, 0, 0]", mod=mod)
    # any write to store_results other than += / -= of a constant on a constant index
    for n in walk_no_nested(fn):
        if isinstance(n, ast.Subscript) and isinstance(n.ctx, ast.Store) and isinstance(n.value, ast.Name) and n.value.id == "store_results":
            st = enclosing(n, (ast.stmt,))
            good = isinstance(st, ast.AugAssign) and _sr_index(st.target) is not None and isinstance(st.value, ast.Constant) and isinstance(st.op, (ast.Add, ast.Sub))
            rep.need(good, f"{fq}: unmodelled write to store_results at line {st.lineno}")

    violations = []

    def bad(rule, node, stmt_text, msg, state_key=None):
        violations.append((rule, node, stmt_text, msg, state_key))

    n_sends = [0]

    def transfer(n, st):
        delta, cats, pend_failed, fields, in_loop = st
        labels = None
        if n is loop:
            if in_loop:
                if sum(delta) != 0 or delta[0] not in (0, -1) or any(d < 0 for d in delta[1:]) or delta[0] > 0:
                    bad("conservation", n, f"iteration delta {list(delta)}", f"one loop iteration changes [remaining, failed, warning, completed] by {list(delta)}: the sum must stay N, remaining may only drop by one and the others may only grow", (n, st))
                if pend_failed:
                    bad("failed-list", n, "failed += 1 without recording the instance", "a sub-operation is counted as failed but nothing is appended to the failed-instance list on that path", (n, st))
            return [(((0, 0, 0, 0), None, False, frozenset(), True), {"loop"}), ((delta, None, pend_failed, fields, False), {"exhausted"})]
        if n.kind == "stmt":
            a = n.ast
            if isinstance(a, ast.AugAssign) and _sr_index(a.target) is not None:
                k = _sr_index(a.target)
                c = a.value.value if isinstance(a.op, ast.Add) else -a.value.value
                if (k == 0 and c > 0) or (k > 0 and c < 0):
                    bad("monotone", n, a, f"store_results[{k}] changes by {c:+d}: remaining must never increase and the other counters never decrease", (n, st))
                d = list(delta)
                d[k] += c
                if abs(d[k]) > 4:
                    raise AnalysisError(f"{fq}: delta out of modelled range")
                delta = tuple(d)
                if k == 1 and c > 0:
                    pend_failed = True
            elif isinstance(a, ast.Expr) and isinstance(a.value, ast.Call):
                d = dotted(a.value.func) or ""
                if d in fl.adders:
                    pend_failed = False
                elif d.endswith("dimse.send_msg"):
                    n_sends[0] += 1
                    fd = dict(fields)
                    if "NumberOfRemainingSuboperations" in fd:
                        want = {k: (v,) for k, v in FIELDS.items()}
                        if fd != want:
                            bad("fields", n, f"Pending fields {sorted(fd.items())}", f"a response reporting remaining sub-operations must take all four counters from the matching store_results indices; got {sorted(fd.items())}", (n, st))
                        if sum(delta) != 0:
                            bad("conservation", n, f"Pending send with delta {list(delta)}", f"Pending response sent with remaining+failed+warning+completed = N{sum(delta):+d} (delta {list(delta)} since the loop head)", (n, st))
                    else:
                        for name, idx in FIELDS.items():
                            if name in fd and idx != 0:
                                got = fd[name]
                                okf = got == (idx,) or got == ("const", 0) or (idx == 1 and got == (0, 1))
                                if not okf:
                                    bad("fields", n, f"{name} <- {got}", f"{name} must be reported from store_results[{idx}]", (n, st))
                    fields = frozenset()
            elif isinstance(a, ast.Assign) and len(a.targets) == 1:
                t = a.targets[0]
                if isinstance(t, ast.Attribute) and t.attr in FIELDS and norm(t.value) == "rsp":
                    idxs = tuple(sorted({_sr_index(x) for x in ast.walk(a.value) if _sr_index(x) is not None}))
                    if not idxs:
                        if isinstance(a.value, ast.Constant) and isinstance(a.value.value, int):
                            idxs = ("const", a.value.value)
                        else:
                            raise AnalysisError(f"{fq}: {t.attr} assigned from unmodelled expression at line {a.lineno}")
                    fields = frozenset({k: v for k, v in dict(fields).items() if k != t.attr}.items() | {(t.attr, idxs)})
                elif isinstance(t, ast.Name) and t.id == "store_status":
                    v = a.value
                    if isinstance(v, ast.Subscript) and norm(v.value) == "STORAGE_SERVICE_CLASS_STATUS":
                        cats = store_cats
                    elif isinstance(v, ast.Tuple) and isinstance(v.elts[0], ast.Name) and v.elts[0].id.startswith("STATUS_"):
                        cats = frozenset({v.elts[0].id})
                    else:
                        raise AnalysisError(f"{fq}: store_status assigned from unmodelled expression at line {a.lineno}")
        if n.kind == "test":
            t = n.ast.test
            if isinstance(t, ast.Compare) and norm(t.left) == "store_status[0]" and isinstance(t.ops[0], ast.Eq) and isinstance(t.comparators[0], ast.Name):
                if cats is None:
                    # no assignment of the sub-operation's category on this path of this iteration: what is tested
                    # is left over from the previous sub-operation (or from before the loop)
                    bad("fresh-category", n, f"{norm(t)}: category not assigned in this iteration on this path", "the category that decides which counter this sub-operation goes to is not assigned on this path of the iteration (a send that raises, no response): the test reads what the previous sub-operation left there - after a Success the failed one is counted as completed, it is missing from the failed-instance list and the final status can be Success although an instance was never stored", (n, st))
                    cats = store_cats
                x = t.comparators[0].id
                outs = []
                if x in cats:
                    outs.append(((delta, frozenset({x}), pend_failed, fields, in_loop), {"true"}))
                rest = cats - {x}
                if rest:
                    outs.append(((delta, rest, pend_failed, fields, in_loop), {"false"}))
                return outs
        return [((delta, cats, pend_failed, fields, in_loop), labels)]

    # once the N announced sub-operations are done the operation is over: whatever the handler does afterwards (a
    # further yield, an exception in its clean-up code) must not reach a response - the "all complete -> leave the
    # loop" test comes before anything in the iteration that can send
    done_tests = [n for n in cfg.nodes if n.kind == "test" and isinstance(n.ast, ast.If) and _sr_index(getattr(n.ast.test, "left", None)) == 0 and isinstance(n.ast.test, ast.Compare) and isinstance(n.ast.test.ops[0], (ast.LtE, ast.Lt, ast.Eq)) and any(isinstance(b, ast.Break) for b in n.ast.body) and any(n.ast is x for x in ast.walk(loop.ast))]
    rep.need(len(done_tests) >= 1, f"{fq}: the 'all sub-operations complete' test of the result loop was not found")
    loop_sends = [n for n in cfg.nodes if n.kind == "stmt" and any(n.ast is x for x in ast.walk(loop.ast)) and any((dotted(c.func) or "").endswith("dimse.send_msg") for c in calls_at(n))]
    undominated = [n for n in loop_sends if not any(cfg.dominates(t, n) for t in done_tests)]
    rep.check(not undominated, "final-status", fq, undominated[0].ast if undominated else "the completion test precedes every response of an iteration", "a response can be sent from an iteration of the result loop without the 'all sub-operations complete' test having been passed: when the handler raises (or yields again) after the last announced sub-operation, the operation is answered with the handler-failure status although completed = N and nothing failed - the final status no longer follows the counters", mod=mod, node=undominated[0].ast if undominated else loop.ast)
    # the announced number of sub-operations is an unsigned 16-bit counter: every value 0 .. 65535 is legal and
    # must be served; the only refusable announcements are those the counters cannot hold
    n_lim = 0
    for i_ in [i_ for i_ in walk_no_nested(fn) if isinstance(i_, ast.If) and isinstance(i_.test, (ast.Compare, ast.BoolOp))]:
        cmps = [c_ for c_ in ast.walk(i_.test) if isinstance(c_, ast.Compare) and len(c_.ops) == 1 and ((norm(c_.left) == "nr_suboperations" and isinstance(c_.comparators[0], ast.Constant)) or (norm(c_.comparators[0]) == "nr_suboperations" and isinstance(c_.left, ast.Constant)))]
        cmps = [c_ for c_ in cmps if isinstance((c_.comparators[0] if isinstance(c_.comparators[0], ast.Constant) else c_.left).value, int) and (c_.comparators[0] if isinstance(c_.comparators[0], ast.Constant) else c_.left).value > 255]
        if not cmps or not any(isinstance(x, ast.Return) for b_ in i_.body for x in ast.walk(b_)):
            continue
        for c_ in cmps:
            n_lim += 1
            expr = ast.Expression(body=ast.fix_missing_locations(ast.parse(ast.unparse(c_), mode="eval").body))

            def holds(v, expr=expr):
                return bool(eval(compile(expr, "<limit>", "eval"), {"__builtins__": {}}, {"nr_suboperations": v}))  # a comparison of a name with a literal

            okl = not holds(65535) and not holds(0) and not holds(1) and holds(65536)
            rep.check(okl, "final-status", fq, i_, f"`{norm(c_)}` refuses an announcement of 65535 sub-operations: {holds(65535)}, of 65536: {holds(65536)} - every count the 16-bit counters can hold (0 .. 65535) must be served with Pending responses and counters, only larger ones may be refused", mod=mod, node=c_)
    rep.counters[f"{fname}: announced-count limit tests"] = n_lim
    init = ((0, 0, 0, 0), None, False, frozenset(), False)
    ins, pred = typestate(cfg, init, transfer)
    rep.floor(f"{fname}: send sites visited", n_sends[0], 8)
    seen_keys = set()
    for rule, node, stmt_text, msg, key in violations:
        k = (rule, node.id, str(stmt_text) if not isinstance(stmt_text, ast.AST) else norm(stmt_text))
        if k in seen_keys:
            continue
        seen_keys.add(k)
        path = witness(cfg, pred, key[0], key[1]) if key else None
        # name the construct by the last counter update on the witness path (so that the
        # finding key names the offending branch, not the send or the loop head)
        stmt_for_key = stmt_text
        anchor = node.ast if node.ast is not None else fn
        if key and rule in ("conservation", "failed-list"):
            cur = (key[0].id, key[1])
            first = True
            while cur in pred:
                cur = pred[cur]
                c = cfg.nodes[cur[0]]
                if c is loop:
                    break
                if c.kind == "stmt" and isinstance(c.ast, ast.AugAssign) and _sr_index(c.ast.target) is not None:
                    d = key[1][0]
                    ctx = enclosing(c.ast, (ast.If, ast.For, ast.While, ast.Try, ast.With))
                    stmt_for_key = f"{norm(c.ast)} under '{head(ctx) if ctx is not None else ''}' leaves delta {list(d)}"
                    anchor = c.ast
                    break
        rep.fail(rule, fq, stmt_for_key, msg, mod=mod, node=anchor, path=path)
    if not any(v[0] == "conservation" for v in violations):
        rep.ok("conservation", f"{fq} :: every path through one iteration of the result loop", "zero-sum delta, remaining in {0,-1}, others >= 0")
    if not any(v[0] == "fields" for v in violations):
        rep.ok("fields", f"{fq} :: all send sites", f"{n_sends[0]} send visits, Number* fields come from matching indices")
    if not any(v[0] == "monotone" for v in violations):
        rep.ok("monotone", f"{fq} :: counter updates", "")
    if not any(v[0] == "failed-list" for v in violations):
        rep.ok("failed-list", f"{fq} :: failed increments", "each paired with a failed-instance record before the next iteration")

    # ---- final block --------------------------------------------------------
    top = body_nodoc(fn)
    idx = [i for i, s in enumerate(top) if s is loop.ast]
    rep.need(idx, f"{fq}: result loop is not a top-level statement of the function")
    tail = top[idx[0] + 1:]
    stub = ast.FunctionDef(name=fname + "_tail", args=fn.args, body=tail, decorator_list=[], lineno=tail[0].lineno, col_offset=0)
    paths = [p for p in path_summaries(stub, body=tail, may_raise=lambda n: False) if not p.raised]

    import operator as _op

    def ev(e, env):
        """evaluate an extracted condition/expression over concrete small counters"""
        if isinstance(e, ast.Constant):
            return e.value
        if isinstance(e, ast.BoolOp):
            vals = [ev(v, env) for v in e.values]
            if isinstance(e.op, ast.And):
                for v in vals:
                    if not v:
                        return v
                return vals[-1]
            for v in vals:
                if v:
                    return v
            return vals[-1]
        if isinstance(e, ast.UnaryOp) and isinstance(e.op, ast.Not):
            return not ev(e.operand, env)
        if isinstance(e, ast.BinOp) and type(e.op) in (ast.Add, ast.Sub):
            f = _op.add if isinstance(e.op, ast.Add) else _op.sub
            return f(ev(e.left, env), ev(e.right, env))
        if isinstance(e, ast.Compare) and len(e.ops) == 1:
            table = {ast.Eq: _op.eq, ast.NotEq: _op.ne, ast.Lt: _op.lt, ast.LtE: _op.le, ast.Gt: _op.gt, ast.GtE: _op.ge}
            if type(e.ops[0]) in table:
                return table[type(e.ops[0])](ev(e.left, env), ev(e.comparators[0], env))
        k = _sr_index(e)
        if k is not None:
            return env["sr"][k]
        t = norm(e)
        if t == "nr_suboperations":
            return env["N"]
        if t == "self.assoc.is_established":
            return True
        if isinstance(e, ast.Call) and dotted(e.func) == "sum" and norm(e.args[0]) == "store_results":
            return sum(env["sr"])
        if t in fl.exprs:
            # one record per failed sub-operation (failed-list rule): non-empty exactly when failed > 0
            return ["x"] * env["sr"][1]
        if isinstance(e, ast.Call) and dotted(e.func) == "len" and norm(e.args[0]) in fl.exprs:
            return env["sr"][1]
        raise AnalysisError(f"{fq}: final-block condition not evaluable: {t}")

    cases = []
    for N in (1, 2, 3):
        for f_, w_, c_ in itertools.product(range(N + 1), repeat=3):
            if f_ + w_ + c_ <= N:
                cases.append((N, f_, w_, c_))
    verdict = {}
    for N, f_, w_, c_ in cases:
        env = {"N": N, "sr": [N - f_ - w_ - c_, f_, w_, c_]}
        cands = [p for p in paths if all(bool(ev(c, env)) == taken for c, taken in p.conds)]
        rep.need(len(cands) == 1, f"{fq}: final block has {len(cands)} paths for N={N}, counters={env['sr']}")
        want_cat = "Success" if (f_ == 0 and w_ == 0) else ("Failure" if f_ == N else "Warning")
        verdict.setdefault((id(cands[0]), want_cat), (cands[0], []))[1].append((N, f_, w_, c_))
    for (_, want_cat), (p, members) in verdict.items():
        F, W, A = members[0][1] > 0, members[0][2] > 0, members[0][1] == members[0][0]
        status = None
        sends = 0
        lists_failed = False
        for s in p.stmts:
            if isinstance(s, ast.Assign) and norm(s.targets[0]) == "rsp.Status" and isinstance(s.value, ast.Constant):
                status = s.value.value
            if isinstance(s, ast.Assign) and norm(s.targets[0]).endswith(".FailedSOPInstanceUIDList") and norm(s.value) in fl.exprs:
                lists_failed = True
            if isinstance(s, ast.Expr) and isinstance(s.value, ast.Call) and (dotted(s.value.func) or "").endswith("dimse.send_msg"):
                sends += 1
        inst = f"{len(members)} counter cases e.g. N={members[0][0]} failed={members[0][1]} warning={members[0][2]} completed={members[0][3]} (expect {want_cat})"
        got_cat = qr_table.get(status, (None,))[0] if status is not None else None
        rep.check(got_cat == want_cat and sends == 1, "final-status", fq, f"[{inst}] -> status {status if status is None else hex(status)} ({got_cat}), sends={sends}", f"final response for {inst} must be one {want_cat} response", mod=mod, node=tail[0])
        if want_cat != "Success":
            rep.check(lists_failed, "final-status", fq, f"[{inst}] failed-instance list", "a Warning/Failure final response must carry the failed-instance list", mod=mod, node=tail[0])


    # ---- the handler ends the operation itself: `status[0] == STATUS_SUCCESS` inside the loop ------------
    # the same question as for the final block, with sub-operations possibly still remaining
    early = [i for i in ast.walk(loop.ast) if isinstance(i, ast.If) and norm(i.test) == "status[0] == STATUS_SUCCESS"]
    for br in early:
        stub2 = ast.FunctionDef(name=fname + "_success", args=fn.args, body=br.body, decorator_list=[], lineno=br.lineno, col_offset=0)
        paths2 = [p for p in path_summaries(stub2, body=br.body, may_raise=lambda n: False) if not p.raised]
        groups = {}
        for N, f_, w_, c_ in cases:
            env = {"N": N, "sr": [N - f_ - w_ - c_, f_, w_, c_]}
            try:
                cands = [p for p in paths2 if all(bool(ev(c, env)) == taken for c, taken in p.conds)]
            except AnalysisError as exc:
                rep.defer(str(exc))
                cands = []
                break
            if len(cands) != 1:
                rep.defer(f"{fq}: the handler-yields-Success branch has {len(cands)} paths for N={N}, counters={env['sr']}")
                continue
            want_cat = "Success" if (f_ == 0 and w_ == 0) else "Warning"
            groups.setdefault((id(cands[0]), want_cat), (cands[0], []))[1].append((N, f_, w_, c_))
        for (_, want_cat), (p, members) in groups.items():
            status = 0  # the handler's own Success unless the branch overrides it
            sends = 0
            for s_ in p.stmts:
                if isinstance(s_, ast.Assign) and norm(s_.targets[0]) == "rsp.Status" and isinstance(s_.value, ast.Constant):
                    status = s_.value.value
                if isinstance(s_, ast.Expr) and isinstance(s_.value, ast.Call) and (dotted(s_.value.func) or "").endswith("dimse.send_msg"):
                    sends += 1
            got_cat = qr_table.get(status, (None,))[0]
            inst = f"handler yields Success: {len(members)} counter cases e.g. N={members[0][0]} failed={members[0][1]} warning={members[0][2]} completed={members[0][3]} (expect {want_cat})"
            rep.check(got_cat == want_cat and sends == 1, "final-status", fq, f"[{inst}] -> status {hex(status)} ({got_cat}), sends={sends}", f"when the handler ends the operation with Success the final response must be {want_cat} for these counters (Success only without failed and warning sub-operations): a Success with failed / warning counters above zero tells the requestor everything was retrieved", mod=mod, node=br)


def run(repo: Repo, rep: Report, tier: str) -> None:
    rep.rule("conservation", "per loop iteration and at each Pending send: sum of store_results unchanged (== N); remaining drops by at most 1; others never drop")
    rep.rule("monotone", "remaining is only decremented, failed/warning/completed only incremented")
    rep.rule("fields", "NumberOfRemaining/Failed/Warning/Completed are assigned from store_results[0..3] respectively before each send")
    rep.rule("fresh-category", "the category a sub-operation is tallied by is assigned in the same loop iteration on every path that tests it")
    rep.rule("failed-list", "every failed += 1 in the loop is paired with an entry in the failed-instance list")
    rep.rule("final-status", "final: Success iff no failures and no warnings; Failure iff all N failed; Warning otherwise; list attached")
    st = repo.mod("status")
    tables = module_tables(repo, st)
    store = tables.get("STORAGE_SERVICE_CLASS_STATUS")
    rep.need(store, "STORAGE_SERVICE_CLASS_STATUS vanished")
    ev = Evaluator(repo, st)
    name_of = {ev.name(n): n for n in ("STATUS_SUCCESS", "STATUS_FAILURE", "STATUS_WARNING", "STATUS_CANCEL", "STATUS_PENDING", "STATUS_UNKNOWN")}
    cats = frozenset(name_of[v[0]] for v in store.values())
    rep.sample({"C-STORE status categories in table": sorted(cats)})
    for fname, tab in (("_get_scp", "QR_GET_SERVICE_CLASS_STATUS"), ("_move_scp", "QR_MOVE_SERVICE_CLASS_STATUS")):
        analyse(repo, rep, fname, cats, tables[tab])

    rep.rule("classification", "one sub-operation result is tallied by its status category: Success -> completed, Warning -> warning, anything else -> failed (the tally code evaluated per category)")
    rep.floor("sub-operation tallies evaluated", check_subop_classification(repo, rep), 10)
    # ---- the sub-operation's status is looked up in the storage table ---------------------------------------
    from ..delegate import delegate
    rep.rule("status-known", "every storage status the documentation lists is known to the table the sub-operation results are classified with (C28's docs-agreement)")
    rep.rule("outcome-attributed", "a sub-operation that got no response ends the association, so a late response cannot be taken for the next sub-operation's (C24's failure-path)")
    delegate(repo, rep, tier, "C24", ("failure-path",), "outcome-attributed", "the outcome of one C-STORE sub-operation is counted (and its SOP Instance UID listed) under another: completed / failed no longer describe the instances they are reported for", only=lambda f: "_handle_no_response" in str(f.get("instance", "")) + str(f.get("key", "")) + str(f.get("function", "")))
    rep.rule("counts-delivered", "the responses that carry the sub-operation counts are sent as response messages whatever the request's Message ID (C20's response-direction / none-not-falsy)")
    delegate(repo, rep, tier, "C20", ("response-direction", "none-not-falsy"), "counts-delivered", "for a C-GET / C-MOVE request with the legal Message ID 0 every Pending and the final response is encoded as a *request* message: no status, no sub-operation counters and no Failed SOP Instance UID List reach the requestor although all sub-operations are performed")
    delegate(repo, rep, tier, "C28", ("docs-agreement",), "status-known", "a C-STORE sub-operation answered with that status misses the lookup and is counted as failed (and listed as failed) although the instance was stored with a warning")


def check_subop_classification(repo: Repo, rep: Report, rule: str = "classification") -> int:
    """How one C-STORE sub-operation result is tallied, decided by evaluating the code that does it
    (sa/minipy.py) - inline in _get_scp / _move_scp or in a helper they call - for one representative
    status of every category in the storage table, an unknown status, and a send_c_store() that raises:
    Success -> completed, Warning -> warning, everything else (Failure, Cancel, Pending, unknown, no
    response) -> failed; remaining drops by one each time."""
    from ..consteval import module_tables
    from ..minipy import Interp, Obj, Raised, Unsupported

    sc = repo.mod("service_class")
    st = repo.mod("status")
    tables = module_tables(repo, st)
    storage = tables.get("STORAGE_SERVICE_CLASS_STATUS")
    if not isinstance(storage, dict):
        rep.defer("status.STORAGE_SERVICE_CLASS_STATUS not evaluable")
        return 0
    cats = {}
    for code, (cat, _t) in sorted(storage.items()):
        cats.setdefault(str(cat), code)
    reps = sorted(cats.items(), key=lambda kv: kv[1]) + [("unknown", 0x1234), ("raises", None)]
    from ..consteval import Evaluator, Unknown

    ev_ = Evaluator(repo, st)
    consts = {}
    for k in ("STATUS_FAILURE", "STATUS_SUCCESS", "STATUS_WARNING", "STATUS_PENDING", "STATUS_CANCEL", "STATUS_UNKNOWN"):
        try:
            consts[k] = ev_.name(k)
        except (Unknown, Exception):
            pass
    ci = sc.classes.get("QueryRetrieveServiceClass")

    def resolver(cls, name):
        if cls != "QueryRetrieveServiceClass":
            return None
        _, fn_ = repo.lookup_method(ci, name, "method")
        if fn_ is None:
            return None
        return fn_, any(norm(d) == "staticmethod" for d in fn_.decorator_list)

    n = 0
    for q in ("_get_scp", "_move_scp"):
        fn = repo.func("service_class", f"QueryRetrieveServiceClass.{q}")
        fq = f"service_class.QueryRetrieveServiceClass.{q}"
        # the statements from the try that sends the sub-operation up to (not including) the Pending response being sent
        blk = None
        for p in ast.walk(fn):
            for f_ in ("body", "orelse"):
                b = getattr(p, f_, None)
                if isinstance(b, list) and any(isinstance(s_, ast.Try) and any(isinstance(c, ast.Call) and norm(c.func).endswith("send_c_store") for c in ast.walk(s_)) for s_ in b):
                    blk = b
        if blk is None:
            rep.defer(f"{fq}: the C-STORE sub-operation block was not found")
            continue
        i0 = next(i for i, s_ in enumerate(blk) if isinstance(s_, ast.Try) and any(isinstance(c, ast.Call) and norm(c.func).endswith("send_c_store") for c in ast.walk(s_)))
        seg = []
        for s_ in blk[i0:]:
            if isinstance(s_, ast.Expr) and isinstance(s_.value, ast.Call) and norm(s_.value.func).endswith("send_msg"):
                break
            seg.append(s_)
        for cat, code in reps:
            n += 1
            results = [5, 0, 0, 0]

            def send(self_, *a, code=code, **k):
                if code is None:
                    raise Raised("RuntimeError")
                return Obj("Dataset", {"Status": code})

            assoc = Obj("Association", {"@send_c_store": send, "is_established": True})
            me = Obj("QueryRetrieveServiceClass", {"assoc": assoc, "ae": Obj("ApplicationEntity", {"ae_title": "AE"})})
            env = {"self": me, "store_assoc": assoc, "req": Obj("C_GET", {"MessageID": 1}), "ii": 0, "dataset": Obj("Dataset", {"SOPInstanceUID": "1.2"}), "store_results": results, "failed_instances": [], "_add_failed_instance": lambda *_a: None, "msg_id": 1, "rsp": Obj("DIMSEPrimitive", {})}
            g = {"STORAGE_SERVICE_CLASS_STATUS": storage}
            g.update(consts)
            for f_ in ast.walk(fn):
                if isinstance(f_, ast.FunctionDef) and f_ is not fn:
                    env.setdefault(f_.name, lambda *_a, **_k: None)
            for a_ in fn.body:
                tg_ = a_.targets[0] if isinstance(a_, ast.Assign) else a_.target if isinstance(a_, ast.AnnAssign) and a_.value is not None else None
                if isinstance(tg_, ast.Name) and isinstance(a_.value, ast.List) and not a_.value.elts:
                    env.setdefault(tg_.id, [])
            it = Interp(g, method_resolver=resolver)
            try:
                it.run(seg, env)
            except Unsupported as exc:
                rep.defer(f"{fq}: sub-operation tally not evaluable ({exc})")
                break
            except Raised as r:
                rep.fail(rule, fq, f"sub-operation answered with {cat} ({'no response' if code is None else hex(code)}) -> raises {r.kind}", f"tallying a sub-operation answered with {cat} raises {r.kind} out of the SCP", mod=sc, node=blk[i0])
                continue
            delta = tuple(b_ - a_ for a_, b_ in zip([5, 0, 0, 0], results))
            want = (-1, 0, 0, 1) if cat == "Success" else (-1, 0, 1, 0) if cat == "Warning" else (-1, 1, 0, 0)
            rep.check(delta == want, rule, fq, f"sub-operation answered with {cat} ({'no response' if code is None else hex(code)}) -> [remaining, failed, warning, completed] changes by {list(delta)}", f"a C-STORE sub-operation answered with a {cat} status must change the counters by {list(want)} (completed only for Success, warning only for Warning, failed otherwise): the final response's counters and status are computed from them", mod=sc, node=blk[i0])
    return n
