"""C29 - qrscp returns exactly the entities the PS3.4 matching rules select."""

from __future__ import annotations

import ast
import itertools

from ..loader import AnalysisError, Repo, body_nodoc, dotted, norm, parent, walk_no_nested, enclosing, qualname, strip_cast
from ..report import Report

LEVEL = "other"
EXPLANATION = (
    "Structural necessary conditions; result-set equality against PS3.4 for all databases is SQL "
    "semantics and is not decided. (dispatch) build_query's if-chain is evaluated abstractly over the "
    "finite domain VR class x value shape (16 VRs x 9 shapes: None, '', plain, with '*', with '?', with "
    "'-', leading '-', UID, UID list) and the matching function reached must be the one PS3.4 C.2.2.2 "
    "assigns (zero-length: universal; multi-valued UI: list of UID; text VR with a wildcard: wild card; "
    "DA/TM/DT with '-': range; otherwise single value). (wildcard / operators) build_query and "
    "the _search_* functions are evaluated (sa/minipy.py against the recording stand-ins of sa/qr_eval.py) "
    "for each of the 12 supported keys and every value shape; the recorded condition must be == on the key's "
    "column for a single value, in_ of all values for a UID list, inclusive >= / <= on the given ends of a "
    "range, and for a wildcard key the pattern handed to the database is parsed (escape character included) "
    "into literal / any-sequence / any-one tokens and must equal the key's own tokens - LIKE (case-insensitive "
    "in SQLite) only for PN, GLOB (case-sensitive) otherwise. (hierarchy / all-keys / stored-form) "
    "search(), _search_qr, _check_identifier, build_query and add_instance are evaluated by the checker's own "
    "interpreter against recording stand-ins (session, query, columns, data set - sa/qr_eval.py; nothing of "
    "sqlalchemy or pydicom runs) for both roots, the three operations, every query level (plus an unknown "
    "and a missing one), every presence pattern of the unique keys, one required key at any level and a UID "
    "list at the query level: the identifier is rejected exactly when its hierarchy is invalid; a valid one "
    "yields exactly one condition per key, on the key's own column, in one chained query; and the value "
    "add_instance indexes for a key has the representation single-value matching compares the column with "
    "(an IS key is a number on both sides). (per-entity) C-FIND must answer once per entity "
    "of the query level. Not decided: SQL collation/engine behaviour beyond SQLite's documented LIKE / "
    "GLOB, optional keys, sequence matching."
    ' Fifth round (end): (keys-compose) identifiers mixing range / wildcard / list / universal / single-value keys, in both key orders, for every level of both Find models: search() filters by the union of the per-key conditions.'
)

TEXT_VR = ["AE", "CS", "LO", "LT", "PN", "SH", "ST", "UC", "UR", "UT"]
DATE_VR = ["DA", "TM", "DT"]
VRS = TEXT_VR + DATE_VR + ["UI", "IS", "SQ"]


class Elem:
    def __init__(self, vr, value, keyword="K"):
        self.VR = vr
        self.value = value
        self.VM = len(value) if isinstance(value, list) else (0 if value in (None, "") else 1)
        self.keyword = keyword


def expected(vr, val):
    if val is None or val == "":
        return "_search_universal"  # PS3.4 C.2.2.2.3: a zero-length key matches everything, whatever its VR
    if vr == "SQ":
        return None  # sequence matching: no supported attribute is a sequence
    if vr == "UI" and isinstance(val, list) and len(val) > 1:
        return "_search_uid_list"
    if vr in TEXT_VR and isinstance(val, str) and ("*" in val or "?" in val):
        return "_search_wildcard"
    if vr in DATE_VR and isinstance(val, str) and "-" in val:
        return "_search_range"
    return "_search_single_value"


class _Continue(Exception):
    pass


class Interp:
    """evaluates build_query's loop body on one abstract element; only the constructs the function uses"""

    def __init__(self, env):
        self.env = env
        self.called = []

    def ev(self, e):
        if isinstance(e, ast.Constant):
            return e.value
        if isinstance(e, ast.Name):
            if e.id in self.env:
                return self.env[e.id]
            raise AnalysisError(f"build_query: unknown name {e.id}")
        if isinstance(e, ast.Attribute) and isinstance(e.value, ast.Name) and e.value.id in self.env and hasattr(self.env[e.value.id], e.attr):
            return getattr(self.env[e.value.id], e.attr)
        if isinstance(e, (ast.List, ast.Tuple)):
            return [self.ev(x) for x in e.elts]
        if isinstance(e, ast.Subscript):
            base = self.ev(e.value)
            key = self.ev(e.slice)
            try:
                return base[key]
            except Exception:
                raise AnalysisError(f"build_query: subscript not evaluable: {norm(e)[:50]}")
        if isinstance(e, ast.BoolOp):
            if isinstance(e.op, ast.And):
                v = True
                for x in e.values:
                    v = self.ev(x)
                    if not v:
                        return v
                return v
            v = False
            for x in e.values:
                v = self.ev(x)
                if v:
                    return v
            return v
        if isinstance(e, ast.UnaryOp) and isinstance(e.op, ast.Not):
            return not self.ev(e.operand)
        if isinstance(e, ast.Compare):
            left = self.ev(e.left)
            for op, c in zip(e.ops, e.comparators):
                right = self.ev(c)
                if isinstance(op, ast.Eq):
                    r = left == right
                elif isinstance(op, ast.NotEq):
                    r = left != right
                elif isinstance(op, ast.Is):
                    r = left is right
                elif isinstance(op, ast.IsNot):
                    r = left is not right
                elif isinstance(op, ast.In):
                    r = self._contains(right, left)
                elif isinstance(op, ast.NotIn):
                    r = not self._contains(right, left)
                elif isinstance(op, ast.Gt):
                    r = left > right
                elif isinstance(op, ast.GtE):
                    r = left >= right
                elif isinstance(op, ast.Lt):
                    r = left < right
                elif isinstance(op, ast.LtE):
                    r = left <= right
                else:
                    raise AnalysisError("build_query: comparison operator not modelled")
                if not r:
                    return False
                left = right
            return True
        if isinstance(e, ast.Call):
            fn = dotted(e.func)
            if fn == "str" and len(e.args) == 1:
                v = self.ev(e.args[0])
                return v if isinstance(v, str) else str(v)
            if fn == "len" and len(e.args) == 1:
                return len(self.ev(e.args[0]))
            if fn == "isinstance":
                return True
            if fn and fn.startswith("_search_"):
                self.called.append(fn)
                return "<query>"
            raise AnalysisError(f"build_query: call not modelled: {norm(e)[:50]}")
        raise AnalysisError(f"build_query: expression not modelled: {norm(e)[:50]}")

    @staticmethod
    def _contains(container, item):
        if isinstance(container, list) and container and isinstance(container[0], str) and isinstance(item, str) and len(item) == 1 and False:
            return item in container
        if isinstance(container, list):
            # '*' in ['1.2', '1.3'] is list membership in Python
            return item in container
        if container is None:
            raise AnalysisError("build_query: membership test on None")
        return item in container

    def run(self, stmts):
        for s in stmts:
            if isinstance(s, ast.Assign) and isinstance(s.targets[0], ast.Name):
                self.env[s.targets[0].id] = self.ev(s.value)
            elif isinstance(s, ast.If):
                if self.ev(s.test):
                    self.run(s.body)
                else:
                    self.run(s.orelse)
            elif isinstance(s, ast.Continue):
                raise _Continue()
            elif isinstance(s, ast.Pass):
                pass
            elif isinstance(s, ast.Expr) and isinstance(s.value, ast.Constant):
                pass
            elif isinstance(s, ast.Expr):
                self.ev(s.value)
            else:
                raise AnalysisError(f"build_query: statement not modelled: {norm(s)[:50]}")


def _sample(vr: str, kw: str):
    from ..qr_eval import ISValue, PNValue

    if vr == "IS":
        return ISValue("0002")  # a legal IS whose text is not the canonical form of its number
    if vr == "PN":
        return PNValue("Doe^John")
    if vr == "UI":
        return "1.2.840." + str(len(kw))
    if vr == "DA":
        return "20200101"
    if vr == "TM":
        return "101500"
    return "Abc 1"


def _form(v):
    """the representation a bound SQL parameter / stored cell has: the number for int-likes, the text for str"""
    if isinstance(v, bool) or v is None:
        return ("other", repr(v))
    if isinstance(v, int):
        return ("int", int(v))
    if isinstance(v, str):
        return ("str", v)
    if isinstance(v, list):
        return ("list", tuple(_form(x) for x in v))
    return ("other", repr(v))


ANYSEQ, ANYONE = ("*",), ("?",)


def _tokens_key(p: str):
    return [ANYSEQ if c == "*" else ANYONE if c == "?" else c for c in p]


def _tokens_like(p: str, esc: str | None):
    out, i = [], 0
    while i < len(p):
        c = p[i]
        if esc and c == esc and i + 1 < len(p):
            out.append(p[i + 1])
            i += 2
            continue
        out.append(ANYSEQ if c == "%" else ANYONE if c == "_" else c)
        i += 1
    return out


def _tokens_glob(p: str):
    out, i = [], 0
    while i < len(p):
        c = p[i]
        if c == "[":
            j = p.find("]", i + 2)  # SQLite GLOB: a ']' right after '[' is a member of the class
            if j < 0:
                out.append(("class", p[i:]))
                break
            body = p[i + 1:j]
            out.append(body if len(body) == 1 and body not in "^" else ("class", body))
            i = j + 1
            continue
        out.append(ANYSEQ if c == "*" else ANYONE if c == "?" else c)
        i += 1
    return out


def check_matching_evaluated(repo: Repo, rep: Report) -> None:
    """build_query() and the _search_* functions it reaches, evaluated (sa/minipy.py, sa/qr_eval.py) for every
    supported key with the VR the data dictionary gives it and every value shape: the recorded condition - column,
    operator, value - must be the one PS3.4 C.2.2.2 prescribes. Patterns are compared by meaning: the LIKE /
    GLOB pattern handed to the database is parsed (with its escape character) into literals, any-sequence and
    any-one tokens and must equal the key's own tokens ('*', '?', everything else literal). LIKE is
    case-insensitive in SQLite (person names only), GLOB case-sensitive (everything else)."""
    from ..minipy import Unsupported
    from ..qr_eval import ISValue, PNValue, QREval

    rep.rule("wildcard", "only '*' and '?' act as wildcards (the pattern given to the database means what the key means); case-insensitive for PN only")
    rep.rule("operators", "single value ==, UID list in_(values), range inclusive on both given ends - on the key's own column")
    db = repo.mod("apps.qrscp.db")
    fq = "apps.qrscp.db.build_query"
    pats = ["A*C", "A?C", "*", "Ab%c*", "a_b?", "a[b*", "a]b?", "a\\b*", "%_[\\*?x", "*^Jo?n"]
    try:
        q = QREval(repo)
        tr = q.it.globals["_TRANSLATION"]
        n = 0
        bad_w = bad_o = 0
        for kw, col in tr.items():
            vr = q.vr_of(kw)
            cases = []  # (value, rule, expected description, checker)
            plain = _sample(vr, kw)
            cases.append((plain, "operators", "single"))
            if vr == "UI":
                cases.append(([plain, plain + ".1", plain + ".2"], "operators", "list"))
            if vr in DATE_VR:
                cases += [("20200101-20211231", "operators", "range"), ("-20211231", "operators", "range"), ("20200101-", "operators", "range")]
            if vr in TEXT_VR:
                for p_ in pats:
                    cases.append((PNValue(p_) if vr == "PN" else p_, "wildcard", "pattern"))
            for val, rule, kind in cases:
                n += 1
                k_, out = q.conds_for({kw: val})
                text = getattr(val, "_minipy_str", val)
                if k_ != "conds":
                    ok, why = False, f"raises {out}"
                elif kind == "single":
                    want = text if not isinstance(val, int) else int(val)
                    ok = len(out) == 1 and out[0].col == col and out[0].op == "==" and _form(out[0].value) == _form(want)
                    why = f"conditions {out}"
                elif kind == "list":
                    ok = len(out) == 1 and out[0].col == col and out[0].op == "in" and list(out[0].value) == list(val)
                    why = f"conditions {out}"
                elif kind == "range":
                    lo, hi = text.split("-")
                    want = sorted(([(">=", lo)] if lo else []) + ([("<=", hi)] if hi else []))
                    ok = sorted((c.op, c.value) for c in out) == want and all(c.col == col for c in out)
                    why = f"conditions {out}"
                else:
                    want_t = _tokens_key(text)
                    ok, why = False, f"conditions {out}"
                    if len(out) == 1 and out[0].col == col and isinstance(out[0].value, str):
                        c = out[0]
                        if c.op in ("like", "ilike"):
                            esc = (c.extra or {}).get("escape")
                            got_t = _tokens_like(c.value, esc if isinstance(esc, str) and len(esc) == 1 else None)
                            ok = got_t == want_t and vr == "PN" and c.op == "like"
                            why = f"LIKE {c.value!r}{' ESCAPE ' + repr(esc) if esc else ' (no escape character)'}" + ("" if vr == "PN" else " - LIKE is case-insensitive, only person names may be matched that way")
                        elif c.op == "GLOB":
                            got_t = _tokens_glob(c.value)
                            ok = got_t == want_t and vr != "PN"
                            why = f"GLOB {c.value!r}" + (" - GLOB is case-sensitive, person names are matched case-insensitively" if vr == "PN" else "")
                        else:
                            why = f"{c.op}({c.value!r}) - not a pattern match whose meaning is known (SQLite LIKE / GLOB)"
                if ok:
                    continue
                if rule == "wildcard":
                    bad_w += 1
                    if bad_w <= 4:
                        rep.fail("wildcard", "apps.qrscp.db._search_wildcard", f"{kw} ({vr}) = {text!r} -> {why}", f"the key {text!r} means: '*' any sequence, '?' any one character, every other character itself (PS3.4 C.2.2.2.4); the pattern handed to the database does not mean that (a '%', '_', '[' or the escape character of the key acts as a wildcard, a wildcard is not translated, or the case rule is wrong)", mod=db, node=db.funcs.get("_search_wildcard"))
                else:
                    bad_o += 1
                    if bad_o <= 4:
                        rep.fail("operators", fq, f"{kw} ({vr}) = {text!r} -> {why}", "single value matching compares the key's column for equality, a UID list for membership of all its values, a range inclusively on the ends that are given (PS3.4 C.2.2.2.1, .2, .5)", mod=db, node=db.funcs.get("build_query"))
        if not bad_w:
            rep.ok("wildcard", f"{fq} :: text keys x {len(pats)} patterns", "pattern means what the key means; LIKE for PN only, GLOB otherwise")
        if not bad_o:
            rep.ok("operators", f"{fq} :: {len(tr)} keys", "==, in_, inclusive range on the key's column")
        rep.floor("(key, value shape) points evaluated through build_query", n, 60)
    except Unsupported as exc:
        rep.defer(f"apps.qrscp.db: build_query could not be evaluated ({exc})")


def check_search_evaluated(repo: Repo, rep: Report, tier: str) -> None:
    from ..minipy import Unsupported
    from ..qr_eval import MODELS, QREval

    rep.rule("hierarchy", "an identifier is rejected exactly when its level hierarchy is invalid (search() evaluated for every presence pattern of the keys)")
    rep.rule("all-keys", "search() constrains the result by every key of the identifier, each compared on its own column, in one chained query")
    rep.rule("stored-form", "add_instance indexes a key in the representation the single-value search compares the column with")
    fq = "apps.qrscp.db.search"
    db = repo.mod("apps.qrscp.db")
    try:
        q = QREval(repo)
        g = q.it.globals
        tr = g["_TRANSLATION"]
        n = n_valid = n_invalid = 0
        bad_h = bad_k = 0
        for m in MODELS:
            model = g[m]
            attr = g["_PATIENT_ROOT"].get(model) or g["_STUDY_ROOT"].get(model)
            rep.need(isinstance(attr, dict) and attr, f"apps.qrscp.db: no level table for {m}")
            levels = list(attr)
            retrieve = not m.endswith("Find")
            for qlevel in levels + ["BOGUS", None]:
                for mask in range(1 << len(levels)):
                    with_req = [lv for lv in levels if len(attr[lv]) >= 2]
                    extra_sets = [()] + [(lv,) for lv in with_req]
                    if tier == "thorough":
                        extra_sets = [tuple(lv for k, lv in enumerate(with_req) if m2 >> k & 1) for m2 in range(1 << len(with_req))]
                    for extras in extra_sets:
                        for as_list in (False, True):
                            vals = {}
                            if qlevel is not None:
                                vals["QueryRetrieveLevel"] = qlevel
                            present = [lv for k, lv in enumerate(levels) if mask >> k & 1]
                            for lv in present:
                                kw = attr[lv][0]
                                v = _sample(q.vr_of(kw), kw)
                                if as_list and lv == qlevel and q.vr_of(kw) == "UI":
                                    v = [v, v + ".9"]
                                vals[kw] = v
                            if as_list and not any(isinstance(v, list) for v in vals.values()):
                                continue
                            rkws = []
                            for extra in extras:
                                rkw = attr[extra][1]
                                rkws.append(rkw)
                                vals[rkw] = _sample(q.vr_of(rkw), rkw)
                            # what PS3.4 C.4.1.1.3.1 / C.4.2.1.4 / C.4.3.1.3.1 say about this identifier
                            keys = [k for k in vals if k != "QueryRetrieveLevel"]
                            if retrieve and rkws:
                                if not present or qlevel not in levels or any(levels.index(extra) > levels.index(qlevel) for extra in extras):
                                    continue  # a retrieve identifier made of required keys only / below the level: not decided here
                                for rkw in rkws:
                                    keys.remove(rkw)  # C.2.2.1.2: required keys are not part of a retrieve
                            valid = qlevel in levels and bool(keys)
                            if valid:
                                qi = levels.index(qlevel)
                                below = [k for lv in levels[qi + 1:] for k in attr[lv] if k in keys]
                                missing = [attr[lv][0] for lv in levels[:qi] if attr[lv][0] not in vals]
                                valid = not below and not missing
                            kind, out = q.search(m, vals)
                            n += 1
                            shown = {k: (v if isinstance(v, (str, list)) else str(getattr(v, "_minipy_str", v))) for k, v in vals.items()}
                            if valid != (kind == "conds") or (kind == "raised" and out != "InvalidIdentifier"):
                                bad_h += 1
                                if bad_h <= 3:
                                    rep.fail("hierarchy", fq, f"{m}: identifier {shown} -> {'searched' if kind == 'conds' else 'raises ' + str(out)}", f"this identifier is {'valid and must be searched' if valid else 'invalid (level missing / unknown, no keys, keys below the level or a unique key above it missing) and must be rejected with InvalidIdentifier'}", mod=db, node=db.funcs.get("_check_identifier"))
                                continue
                            if not valid:
                                n_invalid += 1
                                continue
                            n_valid += 1
                            want = sorted((tr[k], "in" if isinstance(vals[k], list) else "==", _form(vals[k] if not hasattr(vals[k], "_minipy_str") or isinstance(vals[k], int) else vals[k]._minipy_str)) for k in keys)
                            got = sorted((c.col, c.op, _form(c.value)) for c in out)
                            if got != want:
                                bad_k += 1
                                if bad_k <= 3:
                                    miss = [w for w in want if w not in got]
                                    more = [w for w in got if w not in want]
                                    rep.fail("all-keys", fq, f"{m}: identifier {shown} -> conditions {out}", f"every key of the identifier must restrict the result (PS3.4 C.2.2.2: an entity matches when all keys match){'; not applied: ' + str([(c, o) for c, o, _ in miss]) if miss else ''}{'; applied but not asked for / in another form: ' + str(more) if more else ''}", mod=db, node=db.funcs.get("_search_qr"))
        if not bad_h:
            rep.ok("hierarchy", f"{fq} :: {n} identifiers ({n_invalid} invalid, {n_valid} valid)", "rejected exactly when the hierarchy is invalid")
        if not bad_k:
            rep.ok("all-keys", f"{fq} :: {n_valid} valid identifiers", "one condition per key, on the key's column")
        rep.floor("identifiers evaluated through search()", n, 500)
        # the same, with the matching types mixed in one identifier (range / wildcard / list / universal next to single
        # values): what search() filters by must be the union of what each key filters by on its own
        rep.rule("keys-compose", "the conditions of an identifier are the union of the conditions each of its keys gives on its own, whatever the matching types of its neighbours (range, wildcard, list, universal)")

        def kinds_of(kw):
            vr = q.vr_of(kw)
            single = _sample(vr, kw)
            out = {"single": single, "universal": ""}
            if vr == "DA":
                out.update({"range": "20200101-20201231", "from": "20200101-", "until": "-20201231"})
            elif vr == "TM":
                out.update({"range": "080000-170000", "from": "080000-", "until": "-170000"})
            elif vr == "UI":
                out["list"] = [single, single + ".9"]
            elif vr in ("LO", "SH", "PN", "CS"):
                out["wildcard"] = "A*" if vr != "PN" else _sample_pn("D*")
            return out

        def _sample_pn(text):
            from ..qr_eval import PNValue

            return PNValue(text)

        n_mix = bad_mix = 0
        for m in (MODELS[0], MODELS[3]):
            model = g[m]
            attr = g["_PATIENT_ROOT"].get(model) or g["_STUDY_ROOT"].get(model)
            levels = list(attr)
            for qi, qlevel in enumerate(levels):
                above = {attr[lv][0]: _sample(q.vr_of(attr[lv][0]), attr[lv][0]) for lv in levels[:qi]}
                here = list(attr[qlevel])
                scen = []
                opts = {kw: kinds_of(kw) for kw in here}
                # every key in its most special matching type
                scen.append({kw: next((o[k_] for k_ in ("range", "list", "wildcard") if k_ in o), o["single"]) for kw, o in opts.items()})
                # one key special (each type it has), the others single values / universal
                for kw, o in opts.items():
                    for k_, v in o.items():
                        if k_ == "single":
                            continue
                        for rest in ("single", "universal"):
                            sc_ = {k2: opts[k2][rest] for k2 in here if k2 != kw}
                            sc_[kw] = v
                            scen.append(sc_)
                for sc_ in scen:
                    for order in (here, list(reversed(here))):
                        vals = {"QueryRetrieveLevel": qlevel}
                        vals.update(above)
                        for kw in order:
                            vals[kw] = sc_[kw]
                        kind, out = q.search(m, vals)
                        n_mix += 1
                        shown = {k: (v if isinstance(v, (str, list)) else str(getattr(v, "_minipy_str", v))) for k, v in vals.items()}
                        if kind != "conds":
                            bad_mix += 1
                            if bad_mix <= 3:
                                rep.fail("keys-compose", fq, f"{m}: identifier {shown} -> raises {out}", "a valid identifier whose keys use different matching types must be searched", mod=db, node=db.funcs.get("search"))
                            continue
                        want = []
                        for kw in [k for k in vals if k != "QueryRetrieveLevel"]:
                            k1, o1 = q.conds_for({kw: vals[kw]})
                            if k1 != "conds":
                                raise Unsupported(f"build_query raises {o1} for the single key {kw}")
                            want += [(c.col, c.op, _form(c.value)) for c in o1]
                        got = sorted((c.col, c.op, _form(c.value)) for c in out)
                        if got != sorted(want):
                            bad_mix += 1
                            if bad_mix <= 3:
                                miss = [w for w in sorted(want) if w not in got]
                                more = [w for w in got if w not in want]
                                rep.fail("keys-compose", fq, f"{m}: identifier {shown} -> conditions {out}", f"every key of the identifier must restrict the result, each the way it does on its own (PS3.4 C.2.2.2: an entity matches when all keys match){'; not applied: ' + str(miss) if miss else ''}{'; applied although no key asks for it: ' + str(more) if more else ''} - a key whose matching type starts a new query drops the conditions of the keys before it", mod=db, node=db.funcs.get("search"))
        if not bad_mix:
            rep.ok("keys-compose", f"{fq} :: {n_mix} identifiers with mixed matching types", "conditions = union of the per-key conditions, in either key order")
        rep.floor("mixed-type identifiers evaluated through search()", n_mix, 100)
        # stored form against compared form
        find = MODELS[0]
        attr = g["_PATIENT_ROOT"][g[find]]
        levels = list(attr)
        inst = {}
        for kw in tr:
            inst[kw] = _sample(q.vr_of(kw), kw)
        stored = q.stored(inst)
        n_s = 0
        for lv_i, lv in enumerate(levels):
            for kw in attr[lv]:
                if kw not in tr:
                    continue
                vals = {"QueryRetrieveLevel": lv}
                for up in levels[:lv_i]:
                    vals[attr[up][0]] = inst[attr[up][0]]
                vals[kw] = inst[kw]
                kind, out = q.search(find, vals)
                rep.need(kind == "conds", f"{fq}: a valid identifier with the single key {kw} raises {out}")
                cs = [c for c in out if c.col == tr[kw]]
                n_s += 1
                ok = len(cs) == 1 and cs[0].op == "==" and _form(cs[0].value) == _form(stored.get(tr[kw]))
                shown_v = getattr(inst[kw], "_minipy_str", inst[kw])
                rep.check(ok, "stored-form", "apps.qrscp.db.add_instance", f"{kw} = {shown_v!r}: stored as {stored.get(tr[kw])!r} ({type(stored.get(tr[kw])).__name__}), compared with {cs[0].value if cs else None!r} ({type(cs[0].value).__name__ if cs else '-'})", f"an instance carrying {kw} {shown_v!r} is indexed in one representation and single value matching compares the column with another: the key no longer selects the entity that carries that very value (PS3.4 C.2.2.2.1)", mod=db, node=db.funcs.get("add_instance"))
        rep.floor("keys whose stored and compared forms were evaluated", n_s, 12)
        # re-indexing an instance (same SOP Instance UID stored again): every key column reflects the *new* data
        # set - an attribute the new version no longer carries must not keep selecting the entity
        rep.rule("reindex-replaces", "storing an instance again replaces every indexed key: an attribute absent from the new data set is cleared")
        uniques = {attr[lv][0] for lv in levels}
        old_row = {tr[k]: ("OLD" if not isinstance(inst[k], int) else 77) for k in tr}
        for k in uniques:
            old_row[tr[k]] = inst[k]
        new_vals = {k: v for k, v in inst.items() if k in uniques}
        again = q.stored(new_vals, existing=old_row)
        stale = sorted(k for k in tr if k not in uniques and again.get(tr[k]) is not None)
        rep.check(not stale, "reindex-replaces", "apps.qrscp.db.add_instance", f"update of an indexed instance with a data set lacking {len(tr) - len(uniques)} optional keys -> columns left with the old value: {stale or 'none'}", f"when an instance is stored again without {stale[:3]}... the row keeps the previous version's values: a C-FIND on the old value still selects the entity (and echoes the stale value), which PS3.4 matching on the stored instances does not", mod=db, node=db.funcs.get("add_instance"))
        # zero-length values: a stored attribute of zero length must not take part in range / single-value
        # matching as the empty string ('' <= '20200101' is true in SQL): it is indexed as NULL - by add_instance
        # itself or because the application tells pydicom to decode empty text values as None
        rep.rule("empty-is-null", "a zero-length attribute is indexed as NULL (add_instance maps '' to None, or qrscp sets pydicom's use_none_as_empty_text_VR_value)")
        empt = {k: (v if k in uniques else "") for k, v in inst.items() if not isinstance(v, int) or k in uniques}
        st_e = q.stored(empt)
        kept_empty = sorted(k for k in empt if k not in uniques and st_e.get(tr[k]) == "")
        flag_set = False
        try:
            qm = repo.mod("apps.qrscp.qrscp")
            for a_ in qm.tree.body:
                if isinstance(a_, ast.Assign) and isinstance(a_.targets[0], ast.Attribute) and a_.targets[0].attr == "use_none_as_empty_text_VR_value" and isinstance(a_.value, ast.Constant) and a_.value.value is True:
                    flag_set = True
        except Exception:
            qm = None
        rep.check(not kept_empty or flag_set, "empty-is-null", "apps.qrscp.db.add_instance", f"zero-length values stored as '' for {kept_empty[:4]}; pydicom told to decode empty text as None at application start: {flag_set}", "a zero-length Study Date / Time (type 2: present but empty) is indexed as the empty string: an open-start range key such as '-20200101' (column <= end) then also returns the studies that have no date at all, which range matching does not select", mod=db, node=db.funcs.get("add_instance"))
    except Unsupported as exc:
        rep.defer(f"apps.qrscp.db: search()/add_instance could not be evaluated ({exc})")


def run(repo: Repo, rep: Report, tier: str) -> None:
    rep.rule("dispatch", "build_query reaches the PS3.4 C.2.2.2 matching function for every (VR class, value shape)")
    rep.rule("per-entity", "C-FIND answers once per matching entity of the query level")
    db = repo.mod("apps.qrscp.db")
    bq = db.funcs.get("build_query")
    rep.need(bq is not None, "apps.qrscp.db.build_query vanished")
    fq = "apps.qrscp.db.build_query"

    # ---- dispatch ---------------------------------------------------------------------
    loops = [f for f in walk_no_nested(bq) if isinstance(f, ast.For)]
    rep.need(len(loops) == 1, f"{fq}: element loop not found")
    lp = loops[0]
    ev_name = norm(lp.target)
    pre = {}
    for s in body_nodoc(bq):
        if s is lp:
            break
        if isinstance(s, ast.Assign) and isinstance(s.targets[0], ast.Name) and isinstance(s.value, (ast.List, ast.Tuple)):
            pre[s.targets[0].id] = [e.value for e in s.value.elts if isinstance(e, ast.Constant)]
    # module-level constant tables the loop body may consult
    from ..consteval import Evaluator, Unknown as _Unknown
    cev = Evaluator(repo, db)
    for nm in {n_.id for n_ in ast.walk(lp) if isinstance(n_, ast.Name)}:
        if nm in db.assigns and nm not in pre:
            try:
                pre[nm] = cev.name(nm)
            except (_Unknown, Exception):
                pass
    # 0 and 7: an IS key decodes to pydicom's IS, an int subclass - 0 is a legal, falsy, non-empty key
    shapes = [None, "", "ABC", "A*C", "A?C", "2020-2021", "-2021", "1.2.3", ["1.2", "1.3"], 0, 7]
    # the supported attributes with the VR the DICOM data dictionary gives them (that is the VR a decoded
    # element of that keyword has): the matching type must follow *that* VR, wherever the code takes it from
    points = [(vr, val, "K") for vr, val in itertools.product(VRS, shapes)]
    attrs = pre.get("_ATTRIBUTES")
    n_kw = 0
    if isinstance(attrs, dict):
        try:
            from pydicom.datadict import dictionary_VR, tag_for_keyword
            for kw in attrs:
                tag = tag_for_keyword(kw)
                if tag is None:
                    continue
                n_kw += 1
                for val in shapes:
                    points.append((dictionary_VR(tag), val, kw))
        except ImportError:
            rep.defer("pydicom's data dictionary is not importable: the per-keyword dispatch sweep could not run")
    rep.counters["supported keywords swept with their dictionary VR"] = n_kw
    n = 0
    bad = 0
    for vr, val, kw in points:
        if isinstance(val, list) and vr != "UI":
            continue
        if isinstance(val, int) and vr != "IS":
            continue
        if kw == "K" and isinstance(attrs, dict):
            # a synthetic keyword cannot index the attribute table; the keyword sweep covers that code
            uses_table = any(isinstance(x, ast.Subscript) and norm(x.value) == "_ATTRIBUTES" for x in ast.walk(lp))
            if uses_table:
                continue
        env = dict(pre)
        env[ev_name] = Elem(vr, val, kw)
        env.update({"session": "<session>", "query": None})
        it = Interp(env)
        try:
            it.run(lp.body)
        except _Continue:
            pass
        except TypeError as exc:
            # the loop body applies an operation to this value that its type does not support (e.g. `'-' in 0`):
            # the real handler raises the same TypeError for this key
            it.called.append(f"<raises TypeError: {exc}>")
        got = it.called[0] if it.called else None
        want = expected(vr, val)
        n += 1
        if len(it.called) > 1 or got != want:
            bad += 1
            if bad <= 6:
                rep.fail("dispatch", fq, f"{'keyword ' + kw + ', ' if kw != 'K' else ''}VR {vr}, value {val!r} -> {it.called or 'no matching'}", f"PS3.4 C.2.2.2 assigns {want} to a key with VR {vr} and value {val!r}; build_query performs {it.called or 'no matching at all'}", mod=db, node=lp)
    if not bad:
        rep.ok("dispatch", f"{fq} :: {n} (VR, value shape) points", "matching type as PS3.4 C.2.2.2")
    rep.floor("dispatch points", n, 100)
    rep.extra["exhaustive"] = False

    # ---- wildcard / operators: build_query evaluated per key and value shape -----------------------------
    check_matching_evaluated(repo, rep)

    # ---- hierarchy / all keys / stored form: the db functions evaluated against recording stand-ins ------------
    check_search_evaluated(repo, rep, tier)

    # ---- per entity --------------------------------------------------------------------------------
    hm = repo.mod("apps.qrscp.handlers")
    hf = hm.funcs.get("handle_find")
    rep.need(hf is not None, "apps.qrscp.handlers.handle_find vanished")
    lps = [f for f in walk_no_nested(hf) if isinstance(f, ast.For) and norm(f.iter) == "matches"]
    rep.need(len(lps) == 1, "handle_find: loop over matches not found")
    dedup = any(isinstance(x, ast.Continue) for x in ast.walk(lps[0])) and any(isinstance(c, ast.Call) and isinstance(c.func, ast.Attribute) and c.func.attr == "add" for c in ast.walk(lps[0]))
    rep.check(dedup, "per-entity", "apps.qrscp.handlers.handle_find", "for match in matches: yield 0xFF00, response", "search() returns the matching *instances*; handle_find answers once per instance, so a PATIENT / STUDY / SERIES level query gets one identical response for every instance of the entity instead of one response per entity", mod=hm, node=lps[0])
