"""C24 - SCU calls surface each response exactly once and fail cleanly."""

from __future__ import annotations

import ast

from ..cfg import CFG, typestate, witness, calls_at, scope
from ..loader import AnalysisError, Repo, body_nodoc, dotted, norm, parent, walk_no_nested, enclosing, qualname, head, strip_cast
from ..report import Report

LEVEL = "other"
EXPLANATION = (
    "Path rules over the CFG (with handler edges) of the two response generators and the "
    "single-response send_* functions of Association: a typestate counts yields between "
    "consecutive dimse.get_msg() calls (exactly one, zero on the C-STORE sub-operation path), "
    "tracks whether the response category was proven Pending before the loop is re-entered, "
    "whether _reactor_checkpoint.set() was passed before every exit, and what the failure "
    "branches yield/return; lexical containment finds any yield inside a `with <lock>` region "
    "in any generator of the package. Decides the iteration protocol for every response "
    "sequence; does not decide what the peer sends or timing."
    " Fourth session: (checkpoint) the reactor is not resumed from the finalisation of a generator; (response-seen) borrowed from C03's ready-probe."
    ' Fifth round: everything done with a lazily decoded data set (decode and first use) lies inside the guarded try (decoded-use-guarded); (response-direction) borrowed from C20.'
    " Sixth round: (reader-woken) AA-2 / AA-3 / AA-4 put the sentinel on every path and the queue is unbounded; (failure-path) _handle_no_response evaluated for both roles; (lock-owned) borrows C26's lock-released, which rejects a discarded acquire(timeout=..)."
)

GENS = ("_wrap_find_responses", "_wrap_get_move_responses")


def _is_lock_with(w: ast.With) -> bool:
    for it in w.items:
        t = norm(it.context_expr)
        if t.endswith(".lock") or t.endswith("._lock") or t in ("lock", "_lock") or t.endswith("lock") :
            return True
    return False


def _yields(node):
    return [x for x in walk_no_nested(node) if isinstance(x, (ast.Yield, ast.YieldFrom))]


def _pending_test(test: ast.AST):
    """-> True if `test` holding implies category is Pending; handles ==, in [..]"""
    if isinstance(test, ast.Compare) and isinstance(test.left, ast.Name) and test.left.id == "category" and len(test.ops) == 1:
        c = test.comparators[0]
        if isinstance(test.ops[0], ast.Eq) and norm(c) == "STATUS_PENDING":
            return "eq"
        if isinstance(test.ops[0], ast.In) and isinstance(c, (ast.List, ast.Tuple, ast.Set)) and [norm(e) for e in c.elts] == ["STATUS_PENDING"]:
            return "eq"
        if isinstance(test.ops[0], ast.NotEq) and norm(c) == "STATUS_PENDING":
            return "ne"
    return None


def check_generator(repo: Repo, rep: Report, name: str):
    mod = repo.mod("association")
    fn = repo.func("association", f"Association.{name}")
    fq = f"association.Association.{name}"
    rep.saw("generators", fq)
    cfg = CFG(fn, body=body_nodoc(fn), local_exc_only=True)
    get_nodes = [n for n in cfg.nodes if n.kind == "stmt" and any((dotted(c.func) or "").endswith("dimse.get_msg") for c in calls_at(n))]
    rep.need(len(get_nodes) == 1, f"{fq}: expected one dimse.get_msg() site, found {len(get_nodes)}")
    get = get_nodes[0]
    fails = []

    # state: (started, yields since get, cat, b001, substore, set_since_get, failure_kind)
    def transfer(n, st):
        started, ny, cat, exempt, set_ok, fail_kind = st
        if n is get:
            if started:
                if exempt == "substore":
                    if ny != 0:
                        fails.append(("once", n, st, f"{ny} yield(s) on the C-STORE sub-operation path; a sub-operation request is not a response to surface"))
                else:
                    if ny != 1:
                        fails.append(("once", n, st, f"{ny} yields between two consecutive get_msg() calls: each received response must be surfaced exactly once"))
                    if exempt != "b001" and cat != "pending":
                        fails.append(("stop-at-final", n, st, "the loop waits for another response although the last one was not proven Pending (only the Repository Query 0xB001 warning may continue)"))
                    if fail_kind is not None:
                        fails.append(("failure-path", n, st, f"the '{fail_kind}' failure path continues waiting for responses instead of returning"))
            return [((True, 0, None, None, False, None), None)]
        if n is cfg.exit:
            return []
        out_labels = None
        if n.kind == "stmt":
            a = n.ast
            ys = _yields(a)
            if ys:
                ny = min(ny + len(ys), 3)
                if started and cat != "pending" and exempt != "b001" and not set_ok:
                    # the caller is documented to stop iterating at the first non-Pending response: the
                    # generator is then never resumed, so a set() placed after this yield never runs
                    fails.append(("checkpoint", n, st, "a non-Pending (final / failure) result is surfaced while the reactor is still paused: set() only follows the yield, and a caller that stops iterating here never resumes the generator - the association reactor stays paused, so e.g. a later A-RELEASE-RQ from the peer is never answered"))
                if fail_kind is not None:
                    v = ys[0].value
                    okv = isinstance(v, ast.Tuple) and len(v.elts) == 2 and norm(v.elts[0]) == "Dataset()" and norm(v.elts[1]) == "None"
                    if not okv:
                        fails.append(("failure-path", n, st, f"the '{fail_kind}' failure path must yield (Dataset(), None), yields {norm(v) if v else None}"))
            for c in calls_at(n):
                d = dotted(c.func) or ""
                if d == "self._reactor_checkpoint.set":
                    set_ok = True
                elif d == "self._c_store_scp":
                    exempt = "substore"
                elif d == "self._handle_no_response" and fail_kind == "timeout":
                    fail_kind = "timeout+handled"
                elif d == "self.abort" and fail_kind in ("wrong-type", "invalid"):
                    fail_kind = fail_kind + "+handled"
        elif n.kind == "test":
            t = n.ast.test
            txt = norm(t)
            pk = _pending_test(t)
            if pk is not None:
                res = []
                res.append(((started, ny, "pending" if pk == "eq" else "final", exempt, set_ok, fail_kind), {"true", "exc"}))
                res.append(((started, ny, "final" if pk == "eq" else "pending", exempt, set_ok, fail_kind), {"false"}))
                # keep knowledge already established on this path
                if cat == "pending":
                    res = [r for r in res if r[0][2] == "pending"]
                elif cat == "final":
                    res = [r for r in res if r[0][2] == "final"]
                return res
            if "RepositoryQuery" in txt and "45057" in txt.replace("0xB001", "45057"):
                return [((started, ny, cat, "b001", set_ok, fail_kind), {"true"}), ((started, ny, cat, exempt, set_ok, fail_kind), {"false", "exc"})]
            if txt == "rsp is None":
                return [((started, ny, cat, exempt, set_ok, "timeout"), {"true"}), (st, {"false", "exc"})]
            if txt.startswith("not isinstance(rsp,"):
                return [((started, ny, cat, exempt, set_ok, "wrong-type"), {"true"}), (st, {"false", "exc"})]
            if txt == "not rsp.is_valid_response":
                return [((started, ny, cat, exempt, set_ok, "invalid"), {"true"}), (st, {"false", "exc"})]
        return [((started, ny, cat, exempt, set_ok, fail_kind), out_labels)]

    ins, pred = typestate(cfg, (False, 0, None, None, False, None), transfer)
    for st in ins.get(cfg.exit.id, ()):
        started, ny, cat, exempt, set_ok, fail_kind = st
        if not started:
            continue
        if ny != 1:
            fails.append(("once", cfg.exit, st, f"{ny} yields between the last get_msg() and the end of the generator"))
        if not set_ok:
            fails.append(("checkpoint", cfg.exit, st, "the generator ends without _reactor_checkpoint.set(): the association reactor stays paused"))
        if fail_kind is not None and not fail_kind.endswith("+handled"):
            what = "_handle_no_response()" if fail_kind == "timeout" else "abort()"
            fails.append(("failure-path", cfg.exit, st, f"the '{fail_kind}' failure path ends without calling {what}"))
    # report
    seen = set()
    for rule, node, st, msg in fails:
        w = witness(cfg, pred, node, st)
        # key by the last yield / branch on the witness path
        anchor, text = (node.ast, node.text()) if node.ast is not None else (fn, "end of generator")
        cur = (node.id, st)
        yl = []
        while cur in pred:
            cur = pred[cur]
            c = cfg.nodes[cur[0]]
            if c is get:
                break
            if c.kind == "stmt" and _yields(c.ast):
                yl.append(c)
        if yl:
            ctx = enclosing(yl[0].ast, (ast.If, ast.ExceptHandler, ast.With, ast.While, ast.For))
            text = " / ".join(f"{norm(y.ast)} under '{head(enclosing(y.ast, (ast.If, ast.ExceptHandler, ast.With, ast.While, ast.For)))}'" for y in reversed(yl))
            anchor = yl[-1].ast
        key = (rule, text)
        if key in seen:
            continue
        seen.add(key)
        rep.fail(rule, fq, text, msg, mod=mod, node=anchor, path=w)
    for rule in ("once", "stop-at-final", "checkpoint", "failure-path"):
        if not any(f[0] == rule for f in fails):
            rep.ok(rule, f"{fq} :: all paths", "")


def run(repo: Repo, rep: Report, tier: str) -> None:
    rep.rule("once", "exactly one yield between consecutive get_msg() calls and before the end (zero on the C-STORE sub-operation path)")
    rep.rule("no-lock-across-yield", "no yield lexically inside a `with <lock>` block (nor between acquire/release) in any generator of the package")
    rep.rule("stop-at-final", "the loop is re-entered only after the category was proven Pending, or for the Repository Query 0xB001 warning")
    rep.rule("checkpoint", "every way out of a response generator / send_* passes _reactor_checkpoint.set() after clear()")
    # the resume belongs to a definite point of the exchange (the final response, the failure path): a set() in the
    # `finally` of a generator runs whenever that generator object is finalised - for an iterator the caller
    # dropped that can be in the middle of the *next* operation, whose responses the resumed reactor then eats
    n_gen = 0
    assoc = repo.mod("association")
    for gfn in [f for f in ast.walk(assoc.tree) if isinstance(f, ast.FunctionDef) and any(isinstance(y, (ast.Yield, ast.YieldFrom)) for y in walk_no_nested(f))]:
        n_gen += 1
        for t_ in [t_ for t_ in walk_no_nested(gfn) if isinstance(t_, ast.Try)]:
            yields_in_body = any(isinstance(y, (ast.Yield, ast.YieldFrom)) for b_ in t_.body for y in ast.walk(b_))
            closers = list(t_.finalbody) + [s_ for h_ in t_.handlers if h_.type is not None and "GeneratorExit" in norm(h_.type) for s_ in h_.body]
            for c_ in [c_ for s_ in closers for c_ in ast.walk(s_) if isinstance(c_, ast.Call) and norm(c_.func).endswith("_reactor_checkpoint.set")]:
                rep.check(not yields_in_body, "checkpoint", f"association.{qualname(gfn)}", enclosing(c_, (ast.stmt,)), "the reactor is resumed from the finalisation of a generator (a `finally` / GeneratorExit clause around its yields): when the caller drops an unfinished iterator that runs at an arbitrary later moment - typically right after the next request was sent - and the resumed reactor takes that operation's responses off the queue and discards them; the caller gets no response and the association is aborted", mod=assoc, node=c_)
    rep.floor("generator methods of Association examined", n_gen, 2)
    rep.rule("failure-path", "timeout -> _handle_no_response(); wrong type / invalid -> abort(); each yields (Dataset(), None) or returns Dataset() and stops")
    for g in GENS:
        check_generator(repo, rep, g)

    check_abort_wakes_reader(repo, rep, "reader-woken")
    check_no_response_aborts(repo, rep, "failure-path")
    from ..delegate import delegate as _delegate24
    rep.rule("lock-owned", "the AE-wide lock the response generators log under is released only by the thread that holds it (C26's lock-released)")
    _delegate24(repo, rep, tier, "C26", ("lock-released",), "lock-owned", "another thread releases the lock a response generator holds while it logs an Identifier: the generator's own `with self.lock` exit raises RuntimeError out of next(responses) - the current and all later responses are lost")

    # ---- no yield while holding a lock (whole package) -------------------------
    n_regions = 0
    n_gens = 0
    for m in repo.modules.values():
        for fn in [n for n in ast.walk(m.tree) if isinstance(n, ast.FunctionDef)]:
            ys = _yields(fn)
            if not ys:
                continue
            n_gens += 1
            fq = f"{m.name.replace('pynetdicom.', '')}.{qualname(fn)}"
            for w in [x for x in walk_no_nested(fn) if isinstance(x, ast.With) and _is_lock_with(x)]:
                n_regions += 1
                inner = [y for s in w.body for y in _yields(s)]
                if inner:
                    for y in inner:
                        st = enclosing(y, (ast.stmt,))
                        ctx = enclosing(st, (ast.If, ast.ExceptHandler, ast.With, ast.While, ast.For, ast.Try))
                        rep.fail("no-lock-across-yield", fq, f"{norm(st)} under '{head(ctx)}' inside '{head(w)}'", "the generator suspends while holding the lock: the caller (and every other association of the AE) is blocked on it for as long as the iterator is held", mod=m, node=y)
                else:
                    rep.ok("no-lock-across-yield", f"{fq} :: {head(w)} (line {w.lineno})", "no yield inside")
            # acquire()/release() pairs with a yield between them
            acq = [c for c in walk_no_nested(fn) if isinstance(c, ast.Call) and isinstance(c.func, ast.Attribute) and c.func.attr == "acquire"]
            for c in acq:
                rel = [r for r in walk_no_nested(fn) if isinstance(r, ast.Call) and isinstance(r.func, ast.Attribute) and r.func.attr == "release" and norm(r.func.value) == norm(c.func.value) and r.lineno > c.lineno]
                n_regions += 1
                lo, hi = c.lineno, (min(r.lineno for r in rel) if rel else 10**9)
                inner = [y for y in ys if lo < y.lineno < hi]
                rep.check(not inner, "no-lock-across-yield", fq, f"{norm(c)} ... yield", "yield between acquire() and release()", mod=m, node=c)
    rep.floor("generators scanned", n_gens, 10)
    rep.counters["lock regions in generators"] = n_regions

    # ---- single-response send_* functions ---------------------------------------
    assoc = repo.mod("association")
    ci = repo.cls("association", "Association")
    n_send = 0
    # methods of the class that raise explicitly (not inside a handler that is a bare re-raise of something caught)
    raising = {mn for mn, mf in ci.methods.items() if any(isinstance(x, ast.Raise) and x.exc is not None for x in walk_no_nested(mf)) and not mn.startswith("send_")}
    for name, fn in ci.methods.items():
        if not name.startswith("send_"):
            continue
        clears = [n for n in walk_no_nested(fn) if isinstance(n, ast.Call) and dotted(n.func) == "self._reactor_checkpoint.clear"]
        if not clears:
            continue
        n_send += 1
        fq = f"association.Association.{name}"
        rep.saw("send functions", fq)
        cfg = CFG(fn, body=body_nodoc(fn), local_exc_only=True)
        clr = [n for n in cfg.nodes if n.kind == "stmt" and any(dotted(c.func) == "self._reactor_checkpoint.clear" for c in calls_at(n))]
        rep.need(len(clr) == 1, f"{fq}: {len(clr)} clear() sites")
        is_gen_wrapper = any(isinstance(r.value, ast.Call) and (dotted(r.value.func) or "").startswith("self._wrap_") for r in walk_no_nested(fn) if isinstance(r, ast.Return) and r.value is not None)

        def is_set(n):
            return n.kind == "stmt" and any(dotted(c.func) == "self._reactor_checkpoint.set" for c in calls_at(n))

        def hands_over(n):
            return n.kind == "stmt" and isinstance(n.ast, ast.Return) and isinstance(n.ast.value, ast.Call) and (dotted(n.ast.value.func) or "").startswith("self._wrap_")

        ok, w = cfg.must_pass(clr[0], lambda n: is_set(n) or hands_over(n), {cfg.exit.id})
        rep.check(ok, "checkpoint", fq, "clear() ... exit without set()", "a path from _reactor_checkpoint.clear() leaves the function without set() (and without handing over to a response generator): the reactor stays paused", mod=assoc, node=clr[0].ast, path=[f"L{x.line}" for x in w if x.ast is not None][-12:])
        # ... nor by an exception: an explicit `raise`, or a call of one of the class's own methods that raises
        # explicitly (e.g. _get_valid_context: ValueError when no context fits), between clear() and set()
        def may_raise(node, raising=raising):
            for x in ast.walk(node):
                if isinstance(x, ast.Raise):
                    return True
                if isinstance(x, ast.Call) and isinstance(x.func, ast.Attribute) and norm(x.func.value) == "self" and x.func.attr in raising:
                    return True
            return False

        cfg_x = CFG(fn, body=body_nodoc(fn), may_raise=may_raise)
        clr_x = [n for n in cfg_x.nodes if n.kind == "stmt" and any(dotted(c.func) == "self._reactor_checkpoint.clear" for c in calls_at(n))]
        okx, wx = cfg_x.must_pass(clr_x[0], lambda n: is_set(n) or hands_over(n), {cfg_x.raise_exit.id})
        rep.check(okx, "checkpoint", fq, "clear() ... raise without set()", "between _reactor_checkpoint.clear() and set() the function can leave by an exception (an explicit raise, or a method of the association that raises, such as _get_valid_context): the caller gets the exception and the reactor stays paused for the rest of the association - the peer's release request is never answered and no timeout is enforced", mod=assoc, node=clr_x[0].ast, path=[f"L{x.line}" for x in wx if x.ast is not None][-12:])
        if is_gen_wrapper:
            continue
        # single response: `if rsp is None: self._handle_no_response(); return Dataset()`
        tests = [n for n in cfg.nodes if n.kind == "test" and norm(n.ast.test) == "rsp is None"]
        rep.need(len(tests) == 1, f"{fq}: 'rsp is None' test vanished")
        body = tests[0].ast.body
        calls = [dotted(c.func) for s in body for c in ast.walk(s) if isinstance(c, ast.Call)]
        rets = [s for s in body if isinstance(s, ast.Return)]
        okf = "self._handle_no_response" in calls and len(rets) == 1 and norm(rets[0].value) in ("Dataset()", "(Dataset(), None)") and body[-1] is rets[0]
        rep.check(okf, "failure-path", fq, tests[0].ast, "no response within the DIMSE timeout must call _handle_no_response() and return the documented empty result (Dataset() or (Dataset(), None))", mod=assoc, node=tests[0].ast)
        # the get_msg result is consumed exactly once
        gets = [c for c in walk_no_nested(fn) if isinstance(c, ast.Call) and (dotted(c.func) or "").endswith("dimse.get_msg")]
        rep.check(len(gets) == 1, "once", fq, f"{len(gets)} get_msg() calls", "a single-response operation must wait for exactly one response", mod=assoc, node=fn)
    rep.floor("send_* functions pausing the reactor", n_send, 11)
    # _handle_no_response aborts when still established; _check_received_status aborts on invalid
    hn = repo.func("association", "Association._handle_no_response")
    rep.check(any(dotted(c.func) == "self.abort" for c in walk_no_nested(hn) if isinstance(c, ast.Call)), "failure-path", "association.Association._handle_no_response", "self.abort()", "a DIMSE timeout on an established association must abort it", mod=assoc, node=hn)
    cs = repo.func("association", "Association._check_received_status")
    inv = [i for i in walk_no_nested(cs) if isinstance(i, ast.If) and norm(i.test) == "rsp.is_valid_response"]
    okc = bool(inv) and any(dotted(c.func) == "self.abort" for s in inv[0].orelse for c in ast.walk(s) if isinstance(c, ast.Call))
    rep.check(okc, "failure-path", "association.Association._check_received_status", "else: self.abort()", "an invalid response must abort the association and give an empty status", mod=assoc, node=cs)
    check_queue_order(repo, rep)
    check_type_dispatch(repo, rep)

    # ---- every response can be converted ------------------------------------------------------------------
    from .c17 import check_dimse_numeric_ranges
    rep.rule("response-convertible", "a response to any legal Message ID (0 .. 65535) converts to a primitive (C17's numeric-range)")
    check_dimse_numeric_ranges(repo, rep, "response-convertible")
    from .c15 import check_every_pdv_classified, check_message_reset
    rep.rule("response-complete", "every received PDV is classified by its control header (C15): a response ending in a zero-length last fragment completes")
    check_every_pdv_classified(repo, rep, "response-complete")
    check_decoded_use_guarded(repo, rep)
    from ..delegate import delegate
    rep.rule("response-direction", "a response is sent as a response whatever its Message ID (0 included) - C20's response-direction / none-not-falsy")
    delegate(repo, rep, tier, "C20", ("response-direction", "none-not-falsy"), "response-direction", "a C-STORE sub-operation the peer sends with Message ID 0 during a C-GET is answered with a request message instead of a response: the peer aborts and the caller gets an empty failure result although the handler succeeded")
    rep.rule("response-seen", "a response sitting in the TLS buffer is seen by the reader on every SSLSocket, requestor sockets included (C03's ready-probe)")
    delegate(repo, rep, tier, "C03", ("ready-probe",), "response-seen", "responses a TLS peer wrote in one record stay in the SSL buffer unseen: the SCU call waits out the DIMSE timeout, aborts a healthy association and surfaces an empty failure result instead of the responses that did arrive")

def check_queue_order(repo: Repo, rep: Report) -> None:
    """DIMSEServiceProvider.get_msg() is the single consumer of the queue the provider thread fills in
    arrival order (responses first, the (None, None) abort sentinel behind them). It may hand out only
    what it dequeues, or (None, None) once the timed wait came back empty: a shortcut that answers
    'nothing' from some other observation (a pending A-ABORT, a flag) overtakes the responses already
    queued, and the caller loses them - possibly the final one."""
    rep.rule("queue-order", "get_msg() returns the head of the message queue, or (None, None) only from the queue.Empty handler of the timed wait")
    dm = repo.mod("dimse")
    fn = repo.func("dimse", "DIMSEServiceProvider.get_msg")
    fq = "dimse.DIMSEServiceProvider.get_msg"
    rets = [r for r in walk_no_nested(fn) if isinstance(r, ast.Return)]
    n = 0
    for r in rets:
        n += 1
        v = strip_cast(r.value) if r.value is not None else None
        from_queue = isinstance(v, ast.Call) and norm(v.func) == "self.msg_queue.get"
        if not from_queue and isinstance(v, ast.Name):
            b_ = [s_ for s_ in walk_no_nested(fn) if isinstance(s_, ast.Assign) and norm(s_.targets[0]) == v.id]
            from_queue = bool(b_) and all(isinstance(strip_cast(s_.value), ast.Call) and norm(strip_cast(s_.value).func) == "self.msg_queue.get" for s_ in b_)
        h = enclosing(r, (ast.ExceptHandler,))
        in_empty = h is not None and h.type is not None and "Empty" in norm(h.type)
        rep.check(from_queue or in_empty, "queue-order", fq, r, "get_msg() answers without having looked at the message queue (or outside the queue.Empty handler): responses the provider thread already queued - possibly the final one - are overtaken and never surfaced to the caller", mod=dm, node=r)
    rep.floor("get_msg return sites", n, 2)


def check_type_dispatch(repo: Repo, rep: Report) -> None:
    """_wrap_get_move_responses admits C_STORE / C_GET / C_MOVE messages and describes the response through
    a table keyed by message type. Every admitted type must either be consumed by its own branch or be a
    key of that table: evaluated per admitted type over the loop body's flow graph (isinstance tests on
    the message are decided, anything else goes both ways)."""
    am = repo.mod("association")
    fn = repo.func("association", "Association._wrap_get_move_responses")
    fq = "association.Association._wrap_get_move_responses"
    guard = None
    for i in walk_no_nested(fn):
        if isinstance(i, ast.If):
            t = i.test
            if isinstance(t, ast.UnaryOp) and isinstance(t.op, ast.Not) and isinstance(t.operand, ast.Call) and norm(t.operand.func) == "isinstance" and isinstance(t.operand.args[1], ast.Tuple):
                guard = t.operand
    tables = [s_ for s_ in walk_no_nested(fn) if isinstance(s_, ast.Assign) and isinstance(s_.value, ast.Dict) and all(isinstance(k_, ast.Constant) and isinstance(k_.value, str) and k_.value.startswith(("C-", "N-")) for k_ in s_.value.keys) and s_.value.keys]
    if guard is None or len(tables) != 1:
        rep.defer(f"{fq}: admitted-type guard / type-keyed table not recognised")
        return
    msgvar = norm(guard.args[0])
    admitted = [norm(e) for e in guard.args[1].elts]
    tname = norm(tables[0].targets[0])
    keys = {k_.value for k_ in tables[0].value.keys}
    cfg = CFG(fn, body=body_nodoc(fn), local_exc_only=True)
    uses = [n for n in cfg.nodes if n.kind in ("stmt", "test") and n.ast is not None and any(isinstance(x, ast.Subscript) and norm(x.value) == tname and isinstance(x.ctx, ast.Load) for x in ast.walk(n.ast.test if n.kind == "test" else n.ast))]
    if not uses:
        rep.defer(f"{fq}: no lookup in {tname}")
        return

    def decide(t, typ):
        """True / False / None for a test given that the message is of class `typ`"""
        if isinstance(t, ast.UnaryOp) and isinstance(t.op, ast.Not):
            v = decide(t.operand, typ)
            return None if v is None else not v
        if isinstance(t, ast.Call) and norm(t.func) == "isinstance" and len(t.args) == 2 and norm(t.args[0]) == msgvar:
            ts = [norm(e) for e in t.args[1].elts] if isinstance(t.args[1], ast.Tuple) else [norm(t.args[1])]
            return typ in ts
        if isinstance(t, ast.Compare) and len(t.ops) == 1 and isinstance(t.ops[0], (ast.Is, ast.IsNot)) and norm(t.left) == msgvar and norm(t.comparators[0]) == "None":
            return isinstance(t.ops[0], ast.IsNot)
        if isinstance(t, ast.BoolOp):
            vs = [decide(v, typ) for v in t.values]
            if isinstance(t.op, ast.And):
                return False if any(v is False for v in vs) else True if all(v is True for v in vs) else None
            return True if any(v is True for v in vs) else False if all(v is False for v in vs) else None
        return None

    for typ in admitted:
        def transfer(n, st, typ=typ):
            if n.kind == "test":
                v = decide(n.ast.test, typ)
                if v is True:
                    return [(st, {"true", "exc"})]
                if v is False:
                    return [(st, {"false", "exc"})]
            return [(st, None)]

        ins, _ = typestate(cfg, "live", transfer)
        reach = [u for u in uses if ins.get(u.id)]
        key = typ.replace("_", "-")
        ok = not reach or key in keys
        rep.check(ok, "failure-path", fq, f"a {typ} message and the lookup {tname}[..]", f"a {typ} message admitted by the type guard can reach `{norm(reach[0].ast)[:60] if reach else ''}` although {tname} has no entry for it ({sorted(keys)}): KeyError escapes the response generator - the caller gets neither the final response nor (Dataset(), None), the real final response stays queued and the reactor stays paused", mod=am, node=reach[0].ast if reach else fn)


def check_decoded_use_guarded(repo: Repo, rep: Report, rule: str = "failure-path") -> None:
    """pydicom decodes lazily: decode() of the peer's Identifier can succeed and the first *access* to a malformed
    element (iterating the data set to log it, pretty_dataset()) raises. In the SCU calls everything done with the
    freshly decoded data set before it is handed to the caller therefore sits in the same guarded try as the
    decode itself - otherwise the exception escapes next(), the remaining responses are never surfaced and the
    reactor stays paused."""
    am = repo.mod("association")
    n = 0
    for fn in [f for f in ast.walk(am.tree) if isinstance(f, ast.FunctionDef)]:
        decs = [a for a in walk_no_nested(fn) if isinstance(a, ast.Assign) and isinstance(a.targets[0], ast.Name) and isinstance(a.value, ast.Call) and dotted(a.value.func) == "decode"]
        for a in decs:
            name = a.targets[0].id
            uses = []
            for x in walk_no_nested(fn):
                if isinstance(x, ast.For) and any(isinstance(y, ast.Name) and y.id == name for y in ast.walk(x.iter)):
                    uses.append(x.iter)
                elif isinstance(x, ast.Call) and dotted(x.func) not in ("isinstance", "len", "bool", "cast", "decode") and any(isinstance(y, ast.Name) and y.id == name for arg in list(x.args) + [k.value for k in x.keywords] for y in ast.walk(arg)) and not isinstance(parent(x), (ast.Return, ast.Yield)):
                    uses.append(x)
                elif isinstance(x, ast.Attribute) and isinstance(x.value, ast.Name) and x.value.id == name:
                    uses.append(x)
            for u in uses:
                n += 1
                t = enclosing(u, (ast.Try,))
                ok = False
                while t is not None and not ok:
                    if any(u is y for s_ in t.body for y in ast.walk(s_)) and any(h.type is None or norm(h.type) in ("Exception", "BaseException") for h in t.handlers):
                        ok = True
                    t = enclosing(t, (ast.Try,))
                rep.check(ok, rule, f"association.{qualname(fn)}", enclosing(u, (ast.stmt,)) or u, f"`{norm(u)[:50]}` works on the data set just decoded from the peer's bytes outside a catch-all try: an element that only fails when it is accessed (pydicom parses lazily) raises out of the response generator - the caller's next() gets an exception instead of (status, None), later responses are lost and the reactor stays paused", mod=am, node=u)
    rep.counters["uses of freshly decoded peer data sets in association.py"] = n


WAKING_ACTIONS = ("AA_2", "AA_3", "AA_4")  # the actions that end an association whose DIMSE user may be waiting for a response


def check_abort_wakes_reader(repo, rep, rule: str) -> None:
    """A send_* call (or a response generator) waiting in DIMSEServiceProvider.get_msg() when the association is
    aborted or the connection drops is woken by the (None, None) sentinel the state machine's abort actions put on
    the DIMSE message queue; it then yields (Dataset(), None) / returns and marks the association aborted. That
    needs (a) each of those actions to put the sentinel on *every* normal path - not only when the queue is empty:
    a reader that is busy with queued responses comes back for the next one afterwards - directly or through a
    helper that does so unconditionally, and (b) the queue to be unbounded, because the put is made by the
    provider thread in the middle of an action (a bounded queue that is full blocks the state machine)."""
    from ..cfg import CFG

    rep.rule(rule, "AA-2 / AA-3 / AA-4 put the (None, None) sentinel on the DIMSE message queue on every normal path; the queue is unbounded")
    fsm = repo.mod("fsm")

    def is_put(c):
        return isinstance(c, ast.Call) and isinstance(c.func, ast.Attribute) and c.func.attr in ("put", "put_nowait") and norm(c.func.value).endswith("msg_queue") and c.args and norm(c.args[0]).replace(" ", "") == "(None,None)"

    def always_puts(fn, depth=0):
        cfg = CFG(fn, body=body_nodoc(fn), local_exc_only=True)
        aliases = {norm(a.targets[0]) for a in walk_no_nested(fn) if isinstance(a, ast.Assign) and isinstance(a.targets[0], ast.Name) and norm(a.value).endswith("msg_queue")}

        def via(nd):
            if nd.ast is None or nd.kind not in ("stmt", "finally"):
                return False
            for c in walk_no_nested(nd.ast):
                if is_put(c) or (isinstance(c, ast.Call) and isinstance(c.func, ast.Attribute) and c.func.attr in ("put", "put_nowait") and norm(c.func.value) in aliases and c.args and norm(c.args[0]).replace(" ", "") == "(None,None)"):
                    return True
                if isinstance(c, ast.Call) and isinstance(c.func, ast.Name) and c.func.id in fsm.funcs and depth < 2 and c.func.id not in WAKING_ACTIONS:
                    if always_puts(fsm.funcs[c.func.id], depth + 1)[0]:
                        return True
            return False

        return cfg.must_pass(cfg.entry, via, {cfg.exit.id}, labels_excluded=("exc",))

    n = 0
    for name in WAKING_ACTIONS:
        fn = fsm.funcs.get(name)
        if fn is None:
            rep.defer(f"fsm.{name} vanished")
            continue
        n += 1
        ok, path = always_puts(fn)
        where = " -> ".join(str(p_.line) for p_ in path[-6:] if p_.line)
        rep.check(ok, rule, f"fsm.{name}", f"every normal path puts (None, None) on dimse.msg_queue", f"{name.replace('_', '-')} has a way to its end (lines {where}) on which the DIMSE message queue does not get the (None, None) sentinel - or gets it only under a condition (e.g. only when the queue is empty): a send_* call or response generator that is working through queued responses then blocks in get_msg() for the whole DIMSE timeout (for ever with dimse_timeout None) instead of yielding (Dataset(), None), and the association is not marked aborted", mod=fsm, node=fn)
    rep.floor("abort actions that wake the DIMSE reader", n, 3)
    dm = repo.mod("dimse")
    ini = repo.func("dimse", "DIMSEServiceProvider.__init__")
    qs = [a for a in walk_no_nested(ini) if isinstance(a, (ast.Assign, ast.AnnAssign)) and norm(a.targets[0] if isinstance(a, ast.Assign) else a.target) == "self.msg_queue"]
    rep.need(len(qs) == 1, "dimse.DIMSEServiceProvider.__init__: self.msg_queue is no longer bound exactly once")
    v = qs[0].value
    unbounded = isinstance(v, ast.Call) and (dotted(v.func) or "").split(".")[-1] in ("Queue", "SimpleQueue", "LifoQueue") and not [a for a in v.args if not (isinstance(a, ast.Constant) and a.value in (0, None))] and not [k for k in v.keywords if k.arg == "maxsize" and not (isinstance(k.value, ast.Constant) and k.value.value in (0, None))]
    rep.check(unbounded, rule, "dimse.DIMSEServiceProvider.__init__", qs[0], f"`{norm(v)}`: the DIMSE message queue is bounded - the abort actions (and receive_primitive) put on it from the provider thread, which blocks in the middle of an action when the user has that many unprocessed messages: the state machine never reaches Sta1, EVT_CONN_CLOSE is never emitted and kill() waits for ever", mod=dm, node=qs[0])


def check_no_response_aborts(repo, rep, rule: str) -> None:
    """send_* gives up on a response only through _handle_no_response(). When no abort is already under way and
    the association is still established it must abort - for the requestor and the acceptor alike: send_*() never
    matches a response to its request's Message ID, so a late response to a request that was given up is taken for
    the answer to the next one (a C-GET SCP would attribute every later sub-operation's outcome to its successor).
    Evaluated (sa/minipy.py) for both roles and every state of the abort flags."""
    from ..minipy import Interp, Obj, Raised, Unsupported

    am = repo.mod("association")
    fn = repo.func("association", "Association._handle_no_response")
    fq = "association.Association._handle_no_response"
    n = 0
    for requestor in (True, False):
        for aborted in (None, "a-abort", "a-p-abort"):
            for established in (True, False):
                calls = []
                acse = Obj("ACSE", {"@is_aborted": lambda s_, kind=None, aborted=aborted: aborted is not None and (kind is None or kind == aborted)})
                me = Obj("Association", {"acse": acse, "is_established": established, "is_requestor": requestor, "is_acceptor": not requestor, "mode": "requestor" if requestor else "acceptor", "@abort": lambda s_, calls=calls: calls.append("abort"), "is_aborted": False, "is_released": False, "@kill": lambda s_, calls=calls: calls.append("kill")})
                try:
                    Interp({}).call_function(fn, {"self": me})
                except Unsupported as exc:
                    rep.defer(f"{fq}: not evaluable with stand-ins ({exc})")
                    return
                except Raised as r:
                    rep.fail(rule, fq, f"raises {r.kind}", "the common no-response path raises", mod=am, node=fn)
                    return
                n += 1
                want = ["abort"] if aborted is None and established else []
                inst = f"{'requestor' if requestor else 'acceptor'}, {'no abort pending' if aborted is None else aborted + ' pending'}, {'established' if established else 'not established'}"
                rep.check(calls == want, rule, fq, f"[{inst}] -> {calls or 'nothing'}", f"a DIMSE timeout on an established association must abort it whatever the local role (expected {want or 'nothing'}): without the abort a late response to the abandoned request is consumed as the answer to the next request - send_*() does not match Message IDs - and e.g. a C-GET SCP files every later sub-operation under its predecessor's status", mod=am, node=fn)
    rep.floor("_handle_no_response evaluations", n, 12)
