"""C10 - acceptor-side presentation context negotiation follows PS3.8 and the role table."""

from __future__ import annotations

import ast
import itertools
import json

from ..cfg import CFG, typestate, witness, calls_at
from ..loader import AnalysisError, Repo, body_nodoc, dotted, norm, walk_no_nested, enclosing, head, strip_cast, qualname
from ..nego_model import AcceptorModel, RoleTable, spec_outcome
from ..report import Report, VERIF

LEVEL = "other"
EXPLANATION = (
    "Table + structure. SCP_SCU_ROLES is evaluated statically and compared, on all 45 cells, with "
    "the outcome computed from the PS3.7 D.3.3.4 formula. The role section of negotiate_as_acceptor "
    "and of its sibling negotiate_unrestricted is extracted by shape into a small parameter record "
    "(default roles, outcome indices, no-role rejection, reply masks) from which the acceptor's "
    "decision table over every (proposal, supported-role setting) is computed: no replied role "
    "beyond the proposal, never accepted without a usable role. A typestate over the loop bodies "
    "proves exactly one result per proposed context on every path (correlated with context.result); "
    "the transfer-syntax loop, the result codes per branch and the mode selection in ACSE are matched "
    "structurally. Not decided: full functional correctness over all lists (dict-key collisions, "
    "duplicate context IDs)."
    ' Fourth session: the accepted / rejected partition is evaluated on result codes 0..4, 5, 255 and None (inline or in a helper); a 128-context request with repeated proposals yields one result object per context id; (registry-live) no import-time copy of a table register_uid() extends is consulted by library code.'
)

B = (True, False)


def check_one_result(rep, mod, fn, fq, result_var, loops_iters):
    """each iteration of the named loops appends to `result_var` exactly once"""
    cfg = CFG(fn, body=body_nodoc(fn), may_raise=lambda n: False)
    heads = [n for n in cfg.nodes if n.kind == "iter" and norm(n.ast.iter) in loops_iters]
    rep.need(len(heads) == len(loops_iters), f"{fq}: result loops {loops_iters} not all found ({[norm(h.ast.iter) for h in heads]})")
    fails = []

    def transfer(n, st):
        cur, cnt, res = st
        if n in heads:
            if cur == n.id and cnt != 1:
                fails.append((n, st, f"one iteration over '{norm(n.ast.iter)}' appends {cnt} results for one proposed context (must be exactly 1)"))
            return [((n.id, 0, None), {"loop"}), ((None, 0, None), {"exhausted"})]
        if n.kind == "stmt":
            a = n.ast
            for c in calls_at(n):
                if dotted(c.func) == f"{result_var}.append" and cur is not None:
                    cnt = min(cnt + 1, 2)
            if isinstance(a, ast.Assign) and norm(a.targets[0]).endswith(".result") and isinstance(a.targets[0], ast.Attribute):
                v = strip_cast(a.value)
                if isinstance(v, ast.Constant):
                    res = "0" if v.value == 0 else "nz"
        if n.kind == "test":
            t = norm(n.ast.test)
            obj = None
            for cand in ("context.result", "cx.result"):
                if t.startswith(cand):
                    obj = cand
            if obj:
                if t == f"{obj} is None":
                    outs = []
                    if res is None:
                        outs.append(((cur, cnt, res), {"true"}))
                    else:
                        outs.append(((cur, cnt, res), {"false"}))
                    return outs
                if t == f"{obj} == 0" or t.startswith(f"{obj} == 0 and"):
                    if res == "0":
                        return [((cur, cnt, res), {"true", "false"} if " and " in t else {"true"})]
                    return [((cur, cnt, res), {"false"})]
        return [((cur, cnt, res), None)]

    ins, pred = typestate(cfg, (None, 0, None), transfer)
    seen = set()
    for n, st, msg in fails:
        w = witness(cfg, pred, n, st)
        cur = (n.id, st)
        text = norm(n.ast.iter)
        chain = []
        while cur in pred:
            cur = pred[cur]
            c = cfg.nodes[cur[0]]
            if c is n:
                break
            chain.append(c)
        apps = [c for c in chain if c.kind == "stmt" and any(dotted(x.func) == f"{result_var}.append" for x in calls_at(c))]
        if apps:
            text = " + ".join(f"append under '{head(enclosing(c.ast, (ast.If, ast.For)))}'" for c in reversed(apps))
        else:
            tests = [c for c in chain if c.kind == "test"]
            text = f"no append; last test '{head(tests[0].ast)}'" if tests else "no append"
        if text in seen:
            continue
        seen.add(text)
        rep.fail("one-result", fq, text, msg, mod=mod, node=(apps[0].ast if apps else n.ast), path=w)
    if not fails:
        rep.ok("one-result", f"{fq} :: loops {loops_iters}", "exactly one append per iteration on every path")


def check_iteration_independent(rep, mod, fn, fq, loop_iter, accumulators):
    """No loop-carried local state: every local that is assigned inside the loop body and read
    inside it must be assigned earlier in the *same* iteration on every path (the accumulators
    excepted).  One proposed context is negotiated independently of the others."""
    cfg = CFG(fn, body=body_nodoc(fn), may_raise=lambda n: False)
    heads = [n for n in cfg.nodes if n.kind == "iter" and norm(n.ast.iter) == loop_iter]
    rep.need(len(heads) == 1, f"{fq}: loop over {loop_iter} not found")
    loop = heads[0]

    def stores(node):
        out = set()
        for x in walk_no_nested(node):
            if isinstance(x, ast.Name) and isinstance(x.ctx, ast.Store):
                out.add(x.id)
        return out

    body_nodes = [n for n in cfg.nodes if loop in n.loops and n.ast is not None]
    from ..cfg import scope
    assigned_in_loop = set()
    for n in body_nodes:
        if n.kind in ("stmt", "iter", "with_enter"):
            assigned_in_loop |= stores(n.ast.target if n.kind == "iter" else scope(n))
    assigned_in_loop |= stores(loop.ast.target)
    assigned_in_loop -= set(accumulators)
    fails = []

    def reads(n):
        sc = scope(n)
        if n.kind == "iter":
            sc = n.ast.iter
        out = set()
        for x in walk_no_nested(sc):
            if isinstance(x, ast.Name) and isinstance(x.ctx, ast.Load):
                out.add(x.id)
        # an augmented assignment reads its target
        if n.kind == "stmt" and isinstance(n.ast, ast.AugAssign) and isinstance(n.ast.target, ast.Name):
            out.add(n.ast.target.id)
        return out

    def transfer(n, st):
        inside, defined = st
        if n is loop:
            return [((True, frozenset(stores(loop.ast.target))), {"loop"}), ((False, frozenset()), {"exhausted"})]
        if not inside or loop not in n.loops:
            return [((False, frozenset()) if loop not in n.loops and n is not loop else st, None)]
        if n.kind in ("stmt", "test", "iter", "with_enter"):
            for v in reads(n) & assigned_in_loop:
                if v not in defined:
                    fails.append((n, st, v))
            if n.kind == "stmt":
                defined = defined | stores(scope(n))
            elif n.kind == "iter":
                defined = defined | stores(n.ast.target)
        return [((inside, defined), None)]

    ins, pred = typestate(cfg, (False, frozenset()), transfer)
    seen = set()
    for n, st, v in fails:
        if v in seen:
            continue
        seen.add(v)
        rep.fail("iteration-independent", fq, f"{v} read at '{head(n.ast)}' without being set in this iteration", f"'{v}' is assigned inside the loop over {loop_iter} but can be read before it is assigned in the same iteration: its value leaks from the previous proposed context", mod=mod, node=n.ast, path=witness(cfg, pred, n, st))
    if not fails:
        rep.ok("iteration-independent", f"{fq} :: loop over {loop_iter}", f"{len(assigned_in_loop)} loop-local variables, all set before use in each iteration")


def check_reply_ownership(rep, mod, fn, fq, var):
    """the role-reply map is only ever *added to* (subscript store) and read at the end"""
    n = 0
    for x in walk_no_nested(fn):
        if isinstance(x, ast.Name) and x.id == var:
            from ..loader import parent
            p = parent(x)
            n += 1
            ok = False
            if isinstance(p, (ast.Assign, ast.AnnAssign)) and (p.targets[0] if isinstance(p, ast.Assign) else p.target) is x:
                ok = isinstance(p.value, ast.Dict) and not p.value.keys
            elif isinstance(p, ast.Subscript) and isinstance(p.ctx, ast.Store):
                ok = True
            elif isinstance(p, ast.Attribute) and p.attr == "values" and isinstance(p.ctx, ast.Load):
                ok = True
            st = enclosing(x, (ast.stmt,))
            rep.check(ok, "reply-ownership", fq, st, f"'{var}' is modified other than by adding the reply decided for an accepted context: a decided SCP/SCU role reply can be dropped or replaced, so the requestor falls back to roles the acceptor does not hold", mod=mod, node=x)
    rep.floor(f"{fq}: uses of {var}", n, 3)


def run(repo: Repo, rep: Report, tier: str) -> None:
    rep.rule("iteration-independent", "no loop-carried local state in the negotiation loops: each proposed context is decided from its own data")
    rep.rule("reply-ownership", "the role-reply map is only added to, under the accepted+proposed guard")
    rep.rule("role-table", "SCP_SCU_ROLES[proposal][acceptor] == outcome of the PS3.7 D.3.3.4 formula on all 5 x 9 cells")
    rep.rule("one-result", "each proposed context yields exactly one entry of the result list, with its context id and abstract syntax")
    rep.rule("ts-choice", "the acceptor's transfer syntaxes are tried in its own preference order; the first one the requestor also proposed is taken")
    rep.rule("result-codes", "0x00 on a transfer-syntax match, 0x03 exactly when the abstract syntax is unsupported, 0x04 exactly on the no-match fall-through, 0x01 for no usable role")
    rep.rule("reply-mask", "a role the requestor did not propose is never granted in the reply")
    rep.rule("role-usable", "an accepted context always has at least one usable role (both negotiation modes)")
    rep.rule("mode-select", "ACSE picks negotiate_unrestricted / negotiate_as_acceptor by one config flag with identical arguments; accepted = result 0")
    pres = repo.mod("presentation")
    sp = json.loads((VERIF / "spec" / "ps3_7_roles.json").read_text())
    rt = RoleTable(repo)
    table = rt.table

    # ---- (1) table vs formula -----------------------------------------------------
    props = [tuple(p) for p in sp["proposals"]]
    accs = [(a, b) for a in sp["acceptor_values"] for b in sp["acceptor_values"]]
    rep.need(set(table) == set(props), f"SCP_SCU_ROLES proposal keys differ: {sorted(map(str, set(table) ^ set(props)))}")
    n = 0
    for p in props:
        rep.need(set(table[p]) == set(accs), f"SCP_SCU_ROLES[{p}] acceptor keys incomplete")
        for a in accs:
            n += 1
            want = spec_outcome(p, a)
            got = table[p][a]
            rep.check(tuple(got) == want, "role-table", "presentation.SCP_SCU_ROLES", f"[{p}][{a}] = {tuple(got)}", f"PS3.7 D.3.3.4 gives (requestor scu, scp, acceptor scu, scp) = {want} for proposal {p}, acceptor {a}", mod=pres, node=rt.node)
    rep.floor("role table cells", n, 45)
    rep.extra["role_cells"] = n

    # ---- models ------------------------------------------------------------------------
    # The decision tables are computed by evaluating the two functions themselves on every point of the
    # role space (sa/nego_eval.py + sa/minipy.py): independent of how the role section is spelled.
    from ..minipy import Unsupported
    from ..nego_eval import NegoEval

    ne = NegoEval(repo)
    fa = repo.func("presentation", "negotiate_as_acceptor")
    fu = repo.func("presentation", "negotiate_unrestricted")

    class _M:
        def __init__(self, fname, fn):
            self.fname, self.fn, self.reply_node, self.role_if = fname, fn, fn, fn

    normal, unres = _M("negotiate_as_acceptor", fa), _M("negotiate_unrestricted", fu)
    # ---- (5)/(6) decision tables -----------------------------------------------------
    wire_props = [None] + [(a, b) for a in B for b in B]  # proposals as they arrive (booleans)
    settings = [(a, b) for a in (True, False, None) for b in (True, False, None)]
    n_pts = 0
    for m, sets in ((normal, settings), (unres, [(True, True)])):
        fq = f"presentation.{m.fname}"
        for p in wire_props:
            for s in sets:
                try:
                    d = ne.acceptor(p, s) if m is normal else ne.unrestricted(p)
                except Unsupported as exc:
                    rep.defer(f"{fq}: not evaluable on proposal={p}, setting={s}: {exc}")
                    continue
                n_pts += 1
                if "raised" in d or "count" in d or "replies" in d:
                    rep.fail("role-table", fq, f"proposal={p} setting={s}: {d}", f"negotiating one proposed context with proposal {p} against supported roles {s} does not produce one result ({d}): a lookup without an entry raises at run time, or the context is dropped / duplicated", mod=pres, node=m.fn)
                    continue
                inst = f"proposal={p}, supported roles={s}"
                # the acceptor's roles are what PS3.7 D.3.3.4 gives for (proposal, supported roles)
                want = spec_outcome(p if p is not None else (None, None), s)[2:]
                if d["result"] == 0 and (m is normal or p is not None):
                    # (unrestricted mode without a role proposal accepts with both roles: its documented purpose)
                    rep.check((d["as_scu"], d["as_scp"]) == want, "role-table", fq, f"[{inst}] -> as_scu={d['as_scu']}, as_scp={d['as_scp']}", f"PS3.7 D.3.3.4 gives the acceptor (scu, scp) = {want} for this proposal and these supported roles", mod=pres, node=m.fn)
                elif m is normal:
                    rep.check(want == (False, False) and d["result"] == 1, "result-codes", fq, f"[{inst}] -> result {d['result']}", f"a context whose transfer syntax matched is refused here although the acceptor could act as (scu, scp) = {want}; only 'no usable role' is a reason, with result 0x01", mod=pres, node=m.fn)
                if d["result"] == 0:
                    rep.check(d["ts"] == ["T2" if m is normal else "T1"] and d["cid"] == 1, "ts-choice", fq, f"[{inst}] -> transfer syntax {d['ts']}, id {d['cid']}", "the accepted context carries the proposal's id and one transfer syntax: the acceptor's first supported one that was proposed (unrestricted: the first proposed)", mod=pres, node=m.fn)
                    if d["reply"] is not None:
                        r0, r1 = d["reply"][0], d["reply"][1]
                        okb = isinstance(r0, bool) and isinstance(r1, bool)
                        rep.check(okb, "reply-mask", fq, f"[{inst}] -> reply ({r0}, {r1})", "a role reply carries two booleans: an unset (None) role in the reply item is not encodable as 'accept / do not accept' and tells the requestor nothing", mod=pres, node=m.fn)
                        if okb and p is not None:
                            # the roles the acceptor takes must be the ones its reply stands for
                            implied = spec_outcome(p, (r0, r1))[2:]
                            rep.check(implied == (d["as_scu"], d["as_scp"]), "reply-mask", fq, f"[{inst}] -> reply ({r0}, {r1}) but acceptor acts as (scu={d['as_scu']}, scp={d['as_scp']})", f"the reply tells the requestor the acceptor accepted (scu, scp) = ({r0}, {r1}), which by PS3.7 D.3.3.4 makes the acceptor {implied}; it acts as ({d['as_scu']}, {d['as_scp']}) instead - both sides then wait for the other to act", mod=pres, node=m.fn)
                        rep.check(d["reply"][2] in ("AB", True), "reply-ownership", fq, f"[{inst}] reply for {d['reply'][2]}", "the role reply must name the proposed context's SOP class", mod=pres, node=m.fn)
                usable = d["result"] != 0 or bool(d["as_scu"]) or bool(d["as_scp"])
                rep.check(usable, "role-usable", fq, f"[{inst}] -> result {d['result']}, as_scu={d['as_scu']}, as_scp={d['as_scp']}", "the context is accepted (result 0x00) although the acceptor may act neither as SCU nor as SCP on it", mod=pres, node=getattr(m, "role_if", m.fn))
                if d["reply"] is not None and p is not None:
                    over = [k for k in (0, 1) if d["reply"][k] and not p[k]]
                    rep.check(not over, "reply-mask", fq, f"[{inst}] -> reply {d['reply']}", "the reply grants a role the requestor did not propose (PS3.7 D.3.3.4: shall not return 1 where 0 was proposed)", mod=pres, node=m.reply_node)
                if d["reply"] is None and p is not None and d["result"] == 0 and m is unres:
                    rep.fail("reply-mask", fq, f"[{inst}] no reply", "a role proposal on an accepted storage context must be answered", mod=pres, node=m.reply_node)
    rep.floor("role-space points evaluated", n_pts, 45)
    # one proposed context is negotiated independently of the others - also of another context with the same
    # abstract syntax: proposed twice (one with a supported transfer syntax, one without) the first must come
    # out exactly as when it is proposed alone, role reply included, the second with 0x04
    n_pair = 0
    for p in wire_props:
        for s_ in settings:
            try:
                alone = ne.acceptor(p, s_)
                first, second = ne.acceptor_pair(p, s_)
            except Unsupported as exc:
                rep.defer(f"presentation.negotiate_as_acceptor: pair scenario not evaluable: {exc}")
                continue
            n_pair += 1
            rep.check(first == alone and second == 4, "one-result", "presentation.negotiate_as_acceptor", f"[proposal={p}, supported roles={s_}] proposed twice -> {first}, second context result {second}", f"the same abstract syntax proposed in two contexts (one acceptable, one without a common transfer syntax): the acceptable one must be answered exactly as when proposed alone ({alone}) and the other with 0x04 - otherwise what one context gets depends on its siblings (e.g. the role reply is dropped, and the requestor falls back to default roles while the acceptor keeps the negotiated ones)", mod=pres, node=fa)
    rep.floor("pair scenarios evaluated", n_pair, 45)
    # the largest request PS3.8 allows - 128 contexts, many of them the same proposal: one answer per context, each its
    # own object with its own id (results are keyed by id when the A-ASSOCIATE-AC is built)
    try:
        many = ne.acceptor_many(128)
        ids = [m_[0] for m_ in many]
        want_ids = [2 * k + 1 for k in range(128)]
        okm = sorted(i_ for i_ in ids if isinstance(i_, int)) == want_ids and len({m_[2] for m_ in many}) == len(many) and all((r_ == 0) == (k % 3 != 2) for k, (_, r_, _) in enumerate(sorted(many, key=lambda m_: m_[0] if isinstance(m_[0], int) else 0)))
        rep.check(okm, "one-result", "presentation.negotiate_as_acceptor", f"128 proposed contexts (repeated proposals) -> {len(many)} results, {len(set(ids))} distinct ids, {len({m_[2] for m_ in many})} distinct objects", "a request with the maximum number of presentation contexts, many repeating the same proposal, must be answered with one result per context id, each result its own object: results that share one object carry the last id only, the A-ASSOCIATE-AC then lacks result items for the earlier contexts (and repeats ids)", mod=pres, node=fa)
    except Unsupported as exc:
        rep.defer(f"presentation.negotiate_as_acceptor: 128-context scenario not evaluable: {exc}")
    # the other two outcomes of one proposed context: no common transfer syntax (0x04), abstract syntax not supported (0x03)
    for kw, want_res in ((dict(ts_match=False), 4), (dict(supported=False), 3)):
        for p in (None, (True, True)):
            try:
                d = ne.acceptor(p, (None, None), **kw)
            except Unsupported as exc:
                rep.defer(f"presentation.negotiate_as_acceptor: not evaluable ({exc})")
                continue
            rep.check(d.get("result") == want_res and d.get("reply") is None and d.get("cid") == 1 and d.get("ab") == "AB", "result-codes", "presentation.negotiate_as_acceptor", f"{kw}, proposal={p} -> {d}", f"a proposed context {'without a common transfer syntax' if want_res == 4 else 'whose abstract syntax is not supported'} is answered with result {want_res:#04x}, the proposal's id and abstract syntax, and no role reply", mod=pres, node=fa)

    # ---- (2) one result per proposed context ----------------------------------------------
    check_one_result(rep, pres, fa, "presentation.negotiate_as_acceptor", "result_contexts", ["rq_contexts", "requestor_contexts.items()"])
    check_one_result(rep, pres, fu, "presentation.negotiate_unrestricted", "result_cx", ["storage_contexts"])
    check_iteration_independent(rep, pres, fa, "presentation.negotiate_as_acceptor", "requestor_contexts.items()", ["result_contexts", "reply_roles"])
    check_iteration_independent(rep, pres, fu, "presentation.negotiate_unrestricted", "storage_contexts", ["result_cx", "reply_roles"])
    check_reply_ownership(rep, pres, fa, "presentation.negotiate_as_acceptor", "reply_roles")
    check_reply_ownership(rep, pres, fu, "presentation.negotiate_unrestricted", "reply_roles")
    # (identity of the result - id, abstract syntax, one transfer syntax - is part of the point evaluation above)
    # partition in unrestricted mode: every proposed context goes to exactly one list
    part = [f for f in walk_no_nested(fu) if isinstance(f, ast.For) and norm(f.iter) == "rq_contexts"]
    okp = False
    if len(part) == 1:
        ifs = [i for i in part[0].body if isinstance(i, ast.If)]
        if len(ifs) == 1 and len(ifs[0].body) == 1 and len(ifs[0].orelse) == 1:
            okp = {norm(ifs[0].body[0]), norm(ifs[0].orelse[0])} == {"storage_contexts.append(cx)", "non_storage_contexts.append(cx)"}
    rep.check(okp, "one-result", "presentation.negotiate_unrestricted", "rq_contexts partitioned into storage / non-storage", "every proposed context must be negotiated by exactly one of the two procedures", mod=pres, node=fu)
    dele = [c for c in walk_no_nested(fu) if isinstance(c, ast.Call) and dotted(c.func) == "negotiate_as_acceptor"]
    rep.check(len(dele) == 1 and [norm(a) for a in dele[0].args] == ["non_storage_contexts", "ac_contexts", "roles"], "one-result", "presentation.negotiate_unrestricted", dele[0] if dele else "negotiate_as_acceptor(...)", "non-storage contexts must be negotiated normally with the same supported contexts and roles", mod=pres, node=fu)

    # ---- (3) transfer syntax choice -------------------------------------------------------------
    ts = [f for f in walk_no_nested(fa) if isinstance(f, ast.For) and "transfer_syntax" in norm(f.iter)]
    okt = False
    if len(ts) == 1:
        f = ts[0]
        it, var = norm(f.iter), norm(f.target)
        first = f.body[0] if f.body else None
        if it == "ac_context.transfer_syntax" and isinstance(first, ast.If) and norm(first.test) == f"{var} in rq_context.transfer_syntax":
            b = [norm(s) for s in first.body]
            okt = f"context.transfer_syntax = [{var}]" in b and "context.result = 0" in b and b[-1] == "break" and len(f.body) == 1 and not f.orelse
    rep.check(okt, "ts-choice", "presentation.negotiate_as_acceptor", ts[0] if ts else "transfer syntax loop", "iterate the acceptor's list in order, accept the first syntax that the requestor proposed, and stop", mod=pres, node=(ts[0] if ts else fa))

    # ---- (4) result codes per branch ---------------------------------------------------------------
    n_codes = 0
    for s in walk_no_nested(fa):
        if isinstance(s, ast.Assign) and norm(s.targets[0]) == "context.result":
            n_codes += 1
            k = s.value.value if isinstance(s.value, ast.Constant) else None
            conds = []
            p = s
            from ..loader import parent
            while parent(p) is not None and parent(p) is not fa:
                pp = parent(p)
                if isinstance(pp, ast.If):
                    conds.append((norm(pp.test), p in pp.body))
                if isinstance(pp, ast.For):
                    conds.append((f"for {norm(pp.iter)}", True))
                p = pp
            want = {
                0: [("tr_syntax in rq_context.transfer_syntax", True)],
                1: [("context.as_scu is False and context.as_scp is False", True)],
                4: [("context.result is None", True)],
            }
            if k == 3:
                ok = conds[0] in (("ab_syntax in acceptor_contexts", False), ("for rq_contexts", True))
            else:
                ok = k in want and conds[0] == want[k][0]
            rep.check(ok, "result-codes", "presentation.negotiate_as_acceptor", f"context.result = {k} under {conds[0] if conds else None}", f"result code 0x{k if k is not None else 0:02X} is assigned on the wrong branch", mod=pres, node=s)
    rep.floor("result code assignments", n_codes, 3)

    # ---- (7) mode selection ----------------------------------------------------------------------------
    acse = repo.mod("acse")
    na = repo.func("acse", "ACSE._negotiate_as_acceptor")
    sel = [i for i in walk_no_nested(na) if isinstance(i, ast.If) and norm(i.test) == "_config.UNRESTRICTED_STORAGE_SERVICE"]
    oks = False
    if len(sel) == 1 and len(sel[0].body) == 1 and len(sel[0].orelse) == 1:
        a, b = sel[0].body[0], sel[0].orelse[0]
        if isinstance(a, ast.Assign) and isinstance(b, ast.Assign) and isinstance(a.value, ast.Call) and isinstance(b.value, ast.Call):
            oks = dotted(a.value.func) == "negotiate_unrestricted" and dotted(b.value.func) == "negotiate_as_acceptor" and [norm(x) for x in a.value.args] == [norm(x) for x in b.value.args] == ["assoc_rq.presentation_context_definition_list", "self.acceptor.supported_contexts", "rq_roles"] and norm(a.targets[0]) == norm(b.targets[0]) == "(result, ac_roles)"
    rep.check(oks, "mode-select", "acse.ACSE._negotiate_as_acceptor", sel[0] if sel else "mode selection", "both modes must negotiate the proposed list against the supported contexts with the proposed roles", mod=acse, node=(sel[0] if sel else na))
    src = [norm(s) for s in walk_no_nested(na) if isinstance(s, ast.stmt)]
    from ..nego_eval import eval_context_partition
    from ..minipy import Unsupported as _Unsup
    try:
        probs, n_sites = eval_context_partition(repo, na)
        rep.check(n_sites >= 1 and not probs, "mode-select", "acse.ACSE._negotiate_as_acceptor", probs[0][0] if probs else "accepted = result 0, rejected = the rest", f"every result must land in exactly one of the accepted / rejected collections, the accepted one exactly for result 0 (evaluated for the result codes 0..4, 5, 255 and None){': ' + probs[0][1] if probs else ''}", mod=acse, node=probs[0][0] if probs else na)
    except _Unsup as exc:
        rep.defer(f"acse.ACSE._negotiate_as_acceptor: the accepted / rejected partition could not be evaluated ({exc})")
    rq = [s for s in walk_no_nested(na) if isinstance(s, ast.Assign) and norm(s.targets[0]) == "rq_roles"]
    rep.check(len(rq) == 1 and norm(rq[0].value) == "{uid: (item.scu_role, item.scp_role) for uid, item in self.requestor.role_selection.items()}", "mode-select", "acse.ACSE._negotiate_as_acceptor", rq[0] if rq else "rq_roles", "proposed roles must be passed as (scu_role, scp_role) per SOP class", mod=acse, node=na)
    check_config_copy(repo, rep)
    check_registries_live(repo, rep)


CONTEXT_FIELDS = ("abstract_syntax", "transfer_syntax", "scu_role", "scp_role")

def check_config_copy(repo, rep) -> None:
    """The acceptor negotiates against a per-association copy of the server's supported contexts. The
    copy must carry every setting the negotiation reads - abstract syntax, transfer syntaxes and both role
    settings, where False (refuse the role) and None (not configured) are different values: deepcopy of the
    list / of each element, or a hand-written copy that assigns each of those fields unconditionally."""
    rep.rule("config-copy", "the per-association copy of the supported contexts is a deepcopy, or assigns abstract syntax, transfer syntaxes and both role settings unconditionally")
    tr = repo.mod("transport")
    n = 0
    for st in ast.walk(tr.tree):
        if not (isinstance(st, ast.Assign) and norm(st.targets[0]).endswith(".supported_contexts")):
            continue
        n += 1
        fq = f"transport.{qualname(st)}"
        v = strip_cast(st.value)

        def is_deepcopy(e):
            e = strip_cast(e)
            return isinstance(e, ast.Call) and (dotted(e.func) or "").split(".")[-1] == "deepcopy"

        if is_deepcopy(v) or (isinstance(v, ast.ListComp) and is_deepcopy(v.elt)):
            rep.ok("config-copy", f"{fq} :: {norm(st)[:70]}", "deepcopy")
            continue
        helper = tr.funcs.get(v.func.id) if isinstance(v, ast.Call) and isinstance(v.func, ast.Name) else None
        if helper is None:
            rep.fail("config-copy", fq, st, "the supported contexts are handed to the association without a recognisable copy: shared objects are modified by the negotiation (context IDs, results) of every association, or settings are lost", mod=tr, node=st)
            continue
        missing = []
        for f_ in CONTEXT_FIELDS:
            writes = [s_ for s_ in walk_no_nested(helper) if isinstance(s_, ast.Assign) and isinstance(s_.targets[0], ast.Attribute) and s_.targets[0].attr.lstrip("_") == f_]
            uncond = [s_ for s_ in writes if enclosing(s_, (ast.If, ast.Try, ast.While)) is None]
            if not uncond:
                missing.append(f_ + (" (only under a condition)" if writes else ""))
        rep.check(not missing, "config-copy", f"transport.{helper.name}", helper, f"the hand-written copy of the supported contexts does not always carry {missing}: a configured value (e.g. scu_role = scp_role = False, 'refuse both roles') silently becomes 'not configured' and the context is negotiated with the default roles", mod=tr, node=helper)
    rep.floor("supported_contexts assignments in transport.py", n, 1)


def check_registries_live(repo, rep, rule: str = "registry-live") -> None:
    """register_uid() adds SOP classes at run time by writing into the per-service tables of sop_class.py
    (the values of _SERVICE_TO_UID_GROUP). Whatever decides 'is this a storage / known SOP class' must read
    those tables when it is asked: a set, list, tuple or dict *built from* one of them when the module is
    imported is a snapshot that never sees a later registration - the unrestricted acceptor then treats a
    registered storage UID as a non-storage one and rejects it. (A dict view such as `T.values()` is live and
    is not a copy.)"""
    rep.rule(rule, "no import-time copy of a SOP class table that register_uid() extends at run time")
    from .c27 import pkg_modules

    sm = repo.mod("sop_class")
    regs = set()
    for a in sm.tree.body:
        if isinstance(a, ast.Assign) and norm(a.targets[0]) == "_SERVICE_TO_UID_GROUP" and isinstance(a.value, ast.Dict):
            regs = {norm(v) for v in a.value.values if isinstance(v, ast.Name)}
    rep.need(len(regs) >= 10, "sop_class._SERVICE_TO_UID_GROUP: the per-service tables were not found")
    copiers = ("frozenset", "set", "list", "tuple", "sorted", "dict", "OrderedDict")
    n = 0
    for short, m in pkg_modules(repo):
        scopes = [m.tree.body] + [c.body for c in ast.walk(m.tree) if isinstance(c, ast.ClassDef)]
        for body in scopes:
            for a in body:
                if not isinstance(a, (ast.Assign, ast.AnnAssign)) or getattr(a, "value", None) is None:
                    continue
                n += 1
                v = a.value
                hit = None
                for x in ast.walk(v):
                    reads = lambda e: any(isinstance(y, ast.Name) and y.id in regs for y in ast.walk(e))  # noqa: E731
                    if isinstance(x, ast.Call) and isinstance(x.func, ast.Name) and x.func.id in copiers and any(reads(arg) for arg in x.args):
                        hit = x
                    if isinstance(x, (ast.ListComp, ast.SetComp, ast.DictComp, ast.GeneratorExp)) and any(reads(g.iter) for g in x.generators):
                        hit = x
                    if isinstance(x, ast.Dict) and any(k is None and reads(val) for k, val in zip(x.keys, x.values)):
                        hit = x
                    if isinstance(x, ast.Call) and isinstance(x.func, ast.Attribute) and x.func.attr == "copy" and reads(x.func.value):
                        hit = x
                if hit is not None:
                    tg = norm(a.targets[0] if isinstance(a, ast.Assign) else a.target)
                    # a convenience list offered to the user (XxxPresentationContexts) is a documented snapshot; what
                    # matters is a copy that the library's own run-time code consults
                    users = []
                    for short2, m2 in pkg_modules(repo):
                        for f2 in ast.walk(m2.tree):
                            if isinstance(f2, (ast.FunctionDef, ast.Lambda)) and any((isinstance(y, ast.Name) and y.id == tg and isinstance(y.ctx, ast.Load)) or (isinstance(y, ast.Attribute) and y.attr == tg and isinstance(y.ctx, ast.Load)) for y in ast.walk(f2)):
                                users.append(f"{short2}.{getattr(f2, 'name', 'lambda')}")
                    if not users:
                        continue
                    rep.fail(rule, f"{short}.{tg}", a, f"`{tg}` is built from a SOP class table when the module is imported ({norm(hit)[:50]}): register_uid() extends the table afterwards, the copy stays as it was - a UID registered at run time is missing from it, and {users[0]}() consults the copy - it decides differently before and after the registration (the unrestricted acceptor stops treating a registered storage UID as storage and rejects it)", mod=m, node=hit)
    rep.counters["module / class level assignments scanned for registry copies"] = n
    if not any(f["rule"] == rule for f in rep.failures):
        rep.ok(rule, f"pynetdicom :: {len(regs)} run-time extensible tables, no import-time copy", "")
