"""C23 - a C-CANCEL reaches exactly the operation it names."""

from __future__ import annotations

import ast

from ..cfg import CFG, calls_at
from ..loader import AnalysisError, Repo, body_nodoc, dotted, norm, parent, walk_no_nested, enclosing, qualname, strip_cast
from ..report import Report

LEVEL = "other"
EXPLANATION = (
    "Structural clauses on the one dictionary that carries cancel requests (DIMSEServiceProvider."
    "cancel_req). (store-key) the only insertion is in receive_primitive, under isinstance(.., C_CANCEL), "
    "keyed by that primitive's own MessageIDBeingRespondedTo (def-use), with a size bound. (query-key) "
    "Event.is_cancelled asks with the *current request's* MessageID; the callable it asks is bound at "
    "the C-FIND/C-GET/C-MOVE trigger sites to ServiceClass.is_cancelled, which answers True only on a "
    "membership hit for exactly that id and removes exactly that entry. (scoped) in _serve_request the "
    "dictionary is emptied on every path into the SCP call and again on the normal path out of it, so "
    "nothing carries over to the next operation. (writers) the who-writes set of cancel_req is frozen: "
    "a new writer is a violation until read. (not-queued) a stored C-CANCEL is not also put on the "
    "message queue. Not decided: arrival-time races between the provider thread inserting and the "
    "association thread clearing (a cancel that overtakes the start of its own operation)."
    " Fifth round: (cancel-id-range) the C-CANCEL message id keeps C17's numeric range."
    " Sixth round: (never-queued) receive_primitive evaluated on a C-CANCEL for 0..30 pending cancels, new and repeated IDs: never queued, pending cancels never dropped, table bounded; (reported) _wrap_handler resumes the generator before it tests the peer's state."
)

WRITERS_ALLOWED = {
    "dimse.DIMSEServiceProvider.__init__": "creates the empty dict",
    "dimse.DIMSEServiceProvider.receive_primitive": "the insertion",
    "service_class.ServiceClass.is_cancelled": "removes the entry it reports",
    "association.Association._serve_request": "clears around each SCP run",
}
CANCELLABLE = {"EVT_C_FIND", "EVT_C_GET", "EVT_C_MOVE"}


def run(repo: Repo, rep: Report, tier: str) -> None:
    rep.rule("store-key", "the only insertion into cancel_req is keyed by the C-CANCEL's own MessageIDBeingRespondedTo, under isinstance(.., C_CANCEL), size-bounded")
    rep.rule("query-key", "Event.is_cancelled queries with the current request's MessageID; ServiceClass.is_cancelled answers True only for that key and removes only that key")
    rep.rule("scoped", "_serve_request empties cancel_req before every SCP run and after it on the normal path")
    rep.rule("writers", "cancel_req is written only by the four known functions")
    rep.rule("not-queued", "a stored C-CANCEL is not put on msg_queue as well")
    check_handler_always_resumed(repo, rep, "reported")
    from ..delegate import delegate as _delegate23
    rep.rule("cancel-id-range", "a C-CANCEL can name every Message ID 0 .. 65535 (C17's numeric-range on the C_CANCEL primitive)")
    _delegate23(repo, rep, tier, "C17", ("numeric-range",), "cancel-id-range", "a C-CANCEL naming that Message ID cannot be built or converted: the operation with that ID can no longer be cancelled (the association is aborted instead)", only=lambda f: "C_CANCEL" in (f.get("function") or "") or "C_CANCEL" in str(f.get("key")))
    dm = repo.mod("dimse")
    rp = repo.func("dimse", "DIMSEServiceProvider.receive_primitive")
    fq = "dimse.DIMSEServiceProvider.receive_primitive"

    # ---- store-key -----------------------------------------------------------
    ins = [s for s in walk_no_nested(rp) if isinstance(s, ast.Assign) and isinstance(s.targets[0], ast.Subscript) and norm(s.targets[0].value) == "self.cancel_req"]
    for rb in [s_ for s_ in walk_no_nested(rp) if isinstance(s_, ast.Assign) and norm(s_.targets[0]) == "self.cancel_req"]:
        rep.fail("store-key", fq, rb, "receive_primitive replaces the whole table of pending C-CANCEL requests when one arrives: a C-CANCEL that named another Message ID and was not yet looked at is dropped, so the operation it names is never told", mod=dm, node=rb)
    if not ins and rep.failures:
        rep.defer(f"{fq}: no keyed insertion into cancel_req (the rest of the store-key rule is not applicable)")
        return
    rep.need(len(ins) >= 1, f"{fq}: insertion into cancel_req vanished")
    rep.check(len(ins) == 1, "store-key", fq, f"{len(ins)} insertions into cancel_req", "exactly one insertion site", mod=dm, node=rp)
    s = ins[0]
    key = strip_cast(s.targets[0].slice)
    val = norm(s.value)
    # resolve the key through local single assignments
    def resolve(e, depth=0):
        e = strip_cast(e)
        if isinstance(e, ast.Name) and depth < 4:
            defs = [a for a in walk_no_nested(rp) if isinstance(a, ast.Assign) and isinstance(a.targets[0], ast.Name) and a.targets[0].id == e.id]
            if len(defs) == 1:
                return resolve(defs[0].value, depth + 1)
        return e
    k = resolve(key)
    okk = isinstance(k, ast.Attribute) and k.attr == "MessageIDBeingRespondedTo" and norm(strip_cast(k.value)) == val
    rep.check(okk, "store-key", fq, s, f"the cancel is stored under {norm(k)} (value {val}): it must be keyed by its own MessageIDBeingRespondedTo, the id of the operation it names; any other key reports it to a different operation or to none", mod=dm, node=s)
    g = enclosing(s, (ast.If,))
    conds = []
    while g is not None and enclosing(g, (ast.FunctionDef,)) is rp:
        if any(x is s for st in g.body for x in ast.walk(st)):
            conds.append(g.test)
        g = enclosing(g, (ast.If,))
    flat = []
    for c in conds:
        flat += c.values if isinstance(c, ast.BoolOp) and isinstance(c.op, ast.And) else [c]
    texts = [norm(c) for c in flat]
    rep.check(f"isinstance({val}, C_CANCEL)" in texts, "store-key", fq, f"insertion guarded by {texts}", "only C-CANCEL primitives may be stored as cancel requests", mod=dm, node=s)
    bound = [c for c in flat if isinstance(c, ast.Compare) and norm(c.left) == "len(self.cancel_req)" and isinstance(c.ops[0], (ast.Lt, ast.LtE)) and isinstance(c.comparators[0], ast.Constant) and isinstance(c.comparators[0].value, int)]
    sizes = check_cancel_never_queued(repo, rep, "never-queued")
    if sizes:
        # decided by the evaluation: the table never grows past its limit whatever arrives, and an empty one takes a cancel
        grows = [k for k, v in sizes.items() if k[0] >= 10 and v > k[0]]
        okb = not grows and sizes.get((0, False)) == 1 and max(v for k, v in sizes.items() if k[0] <= 10) <= 1000
        rep.check(okb, "store-key", fq, f"table sizes after one more C-CANCEL: {dict(sorted(sizes.items()))}", "the number of stored cancel requests must be bounded (a peer could otherwise grow it without limit) and at least one must fit", mod=dm, node=s)
    else:
        rep.check(len(bound) == 1 and 1 <= bound[0].comparators[0].value <= 1000, "store-key", fq, f"size bound {[norm(b) for b in bound]}", "the number of stored cancel requests must be bounded (a peer could otherwise grow it without limit) and at least one must fit", mod=dm, node=s)
    # not also queued: msg_queue.put must be in the orelse chain of the insertion's if
    top = enclosing(s, (ast.If,))
    puts = [c for c in walk_no_nested(rp) if isinstance(c, ast.Call) and dotted(c.func) == "self.msg_queue.put"]
    rep.need(len(puts) >= 1, f"{fq}: msg_queue.put vanished")
    if sizes:
        # decided by the evaluation above (never-queued: nothing reaches msg_queue for any fill level)
        rep.ok("not-queued", f"{fq} :: {len(puts)} msg_queue.put site(s)", "decided by evaluating receive_primitive on a C-CANCEL (never-queued)")
        puts = []
    for c in puts:
        in_body = any(x is c for st in top.body for x in ast.walk(st))
        in_else = any(x is c for st in top.orelse for x in ast.walk(st))
        rep.check(in_else and not in_body, "not-queued", fq, enclosing(c, (ast.stmt,)), "a C-CANCEL that was stored must not also be queued as a message (it would later be served as a request)", mod=dm, node=c)

    # ---- query-key --------------------------------------------------------------
    ev = repo.mod("events")
    ec = repo.cls("events", "Event")
    g_ = ec.getters.get("is_cancelled")
    rep.need(g_ is not None, "events.Event.is_cancelled vanished")
    calls = [c for c in walk_no_nested(g_) if isinstance(c, ast.Call) and norm(c.func) == "self._is_cancelled"]
    ok = len(calls) == 1 and len(calls[0].args) == 1 and norm(strip_cast(calls[0].args[0])) == "self.request.MessageID"
    rep.check(ok, "query-key", "events.Event.is_cancelled", calls[0] if calls else "self._is_cancelled(..)", "the query must use the current request's MessageID (the cancel names the operation by MessageIDBeingRespondedTo = that id)", mod=ev, node=g_)
    rets = [r for r in walk_no_nested(g_) if isinstance(r, ast.Return)]
    okr = all((isinstance(strip_cast(r.value), ast.Call) and strip_cast(r.value) in calls) or (isinstance(r.value, ast.Constant) and r.value.value is False) for r in rets)
    rep.check(okr, "query-key", "events.Event.is_cancelled", f"returns {[norm(r.value) for r in rets]}", "is_cancelled may only report what the service class answers, or False", mod=ev, node=g_)
    sc = repo.mod("service_class")
    ic = repo.func("service_class", "ServiceClass.is_cancelled")
    p = ic.args.args[1].arg
    body = body_nodoc(ic)
    ok = (
        len(body) == 2
        and isinstance(body[0], ast.If)
        and norm(body[0].test) == f"{p} in self.dimse.cancel_req"
        and [norm(x) for x in body[0].body] == [f"del self.dimse.cancel_req[{p}]", "return True"]
        and not body[0].orelse
        and norm(body[1]) == "return False"
    )
    if not ok:
        # tolerate equivalent shapes: pop with default / try-del
        src = " ; ".join(norm(x) for x in body)
        ok = src in (
            f"return self.dimse.cancel_req.pop({p}, None) is not None",
            f"if {p} in self.dimse.cancel_req: self.dimse.cancel_req.pop({p}) ; return True ; return False",
        )
    rep.check(ok, "query-key", "service_class.ServiceClass.is_cancelled", " ; ".join(norm(x) for x in body)[:120], "True exactly when the id is stored, removing exactly that entry; False otherwise", mod=sc, node=ic)
    # binding at the trigger sites
    n_bind = 0
    for c in ast.walk(sc.tree):
        if isinstance(c, ast.Call) and (dotted(c.func) or "") == "evt.trigger" and len(c.args) >= 3:
            ename = (dotted(c.args[1]) or "").split(".")[-1]
            d = c.args[2]
            if not isinstance(d, ast.Dict):
                continue
            keys = {k.value: v for k, v in zip(d.keys, d.values) if isinstance(k, ast.Constant)}
            if ename in CANCELLABLE:
                n_bind += 1
                okb = "_is_cancelled" in keys and norm(keys["_is_cancelled"]) == "self.is_cancelled" and norm(keys.get("request", ast.Constant(value=None))) == "req"
                rep.check(okb, "query-key", f"service_class.{qualname(c)}", f"{ename}: _is_cancelled -> {norm(keys['_is_cancelled']) if '_is_cancelled' in keys else 'absent'}, request -> {norm(keys['request']) if 'request' in keys else 'absent'}", "the event of a cancellable operation must carry the service class's is_cancelled and the request it is serving", mod=sc, node=c)
            elif "_is_cancelled" in keys:
                rep.fail("query-key", f"service_class.{qualname(c)}", enclosing(c, (ast.stmt,)), f"{ename} is not a cancellable operation but its event is hooked to cancel requests", mod=sc, node=c)
    rep.floor("cancellable trigger sites", n_bind, 4)

    # ---- scoped ---------------------------------------------------------------------
    am = repo.mod("association")
    sr = repo.func("association", "Association._serve_request")
    fqs = "association.Association._serve_request"
    cfg = CFG(sr, body=body_nodoc(sr), local_exc_only=True)
    scp = [n for n in cfg.nodes if n.kind == "stmt" and any((dotted(c.func) or "").endswith(".SCP") for c in calls_at(n))]
    rep.need(len(scp) == 1, f"{fqs}: SCP call site not found")
    clears = [n for n in cfg.nodes if n.kind == "stmt" and norm(n.ast) in ("self.dimse.cancel_req = {}", "self.dimse.cancel_req.clear()", "self.dimse.cancel_req = dict()")]
    pre = [n for n in clears if cfg.dominates(n, scp[0])]
    rep.check(bool(pre), "scoped", fqs, "cancel_req emptied on every path into service_class.SCP(..)", "a cancel left over from an earlier operation (same message id reused, or never consumed) would be reported to the next one", mod=am, node=scp[0].ast)
    # nothing between the last pre-clear and the SCP call may block/yield to the provider thread for long: only flag assignments allowed
    # after: every normal path from SCP to exit passes a clear
    okp, wp = cfg.must_pass(scp[0], lambda n: n in clears and n is not scp[0] and not cfg.dominates(n, scp[0]), {cfg.exit.id}, labels_excluded=("exc",))
    rep.check(okp, "scoped", fqs, "cancel_req emptied after service_class.SCP(..) returns", "cancel requests received during an operation and not acted upon must not survive it", mod=am, node=scp[0].ast, path=[f"L{n.line}" for n in (wp or [])])

    # ---- writers ----------------------------------------------------------------------------
    seen = set()
    for mname, m in sorted(repo.modules.items()):
        short = mname.replace("pynetdicom.", "")
        if short.startswith(("apps.", "tests.", "benchmarks.")):
            continue
        for n in ast.walk(m.tree):
            if isinstance(n, ast.Attribute) and n.attr == "cancel_req":
                p_ = parent(n)
                write = isinstance(n.ctx, (ast.Store, ast.Del))
                if isinstance(p_, ast.Subscript) and p_.value is n and isinstance(p_.ctx, (ast.Store, ast.Del)):
                    write = True
                if isinstance(p_, ast.Attribute) and p_.attr in ("clear", "pop", "popitem", "update", "setdefault", "__setitem__", "__delitem__"):
                    write = True
                if write:
                    w = f"{short}.{qualname(n)}"
                    seen.add(w)
                    rep.check(w in WRITERS_ALLOWED, "writers", w, enclosing(n, (ast.stmt,)) or n, "cancel_req is written by a function outside the frozen set: read it and decide whether it can report a cancel to the wrong operation or drop one", mod=m, node=n)
    rep.floor("cancel_req writers", len(seen), 4)
    rep.extra["writers"] = sorted(seen)

    # ---- one dictionary per association --------------------------------------------------------
    rep.rule("per-association", "cancel_req is created per DIMSEServiceProvider instance (a fresh dict in __init__), never shared through a class attribute")
    dci = repo.cls("dimse", "DIMSEServiceProvider")
    init = dci.methods.get("__init__")
    inst = [s for s in (walk_no_nested(init) if init is not None else []) if isinstance(s, (ast.Assign, ast.AnnAssign)) and norm(s.targets[0] if isinstance(s, ast.Assign) else s.target) == "self.cancel_req"]
    ok = len(inst) == 1 and inst[0].value is not None and norm(inst[0].value) in ("{}", "dict()")
    rep.check(ok, "per-association", "dimse.DIMSEServiceProvider.__init__", inst[0] if inst else "self.cancel_req = {}", "every association needs its own cancel dictionary, created when its DIMSE provider is created", mod=dm, node=init or dci.node)
    for s in dci.node.body:
        if isinstance(s, (ast.Assign, ast.AnnAssign)):
            t = s.targets[0] if isinstance(s, ast.Assign) else s.target
            if norm(t) == "cancel_req" and getattr(s, "value", None) is not None:
                rep.fail("per-association", "dimse.DIMSEServiceProvider", s, "cancel_req is a class attribute with a mutable value: every association in the process shares one dictionary, so a C-CANCEL received on one association is reported to (and consumed by) an operation with the same message id on another", mod=dm, node=s)


def check_cancel_never_queued(repo, rep, rule: str) -> None:
    """A C-CANCEL is not a service request: Association._serve_request() reads `is_valid_request`, which C_CANCEL
    does not have - one that reaches the DIMSE message queue kills the association thread when the reactor gets
    to it (the operation it names is never cancelled, and a later A-RELEASE-RQ is never answered).
    receive_primitive() is evaluated (sa/minipy.py) on a completed message that converts to a C_CANCEL, with 0, 1,
    9, 10, 11 and 30 cancels already pending, for a new Message ID and for one that is already pending: nothing is
    ever put on msg_queue, no event is raised, and below the limit the cancel is stored under the ID it names."""
    from ..minipy import Interp, Obj, Raised, Unsupported

    rep.rule(rule, "receive_primitive never puts a C-CANCEL on the message queue (evaluated for every fill level of cancel_req, new and repeated IDs)")
    dm = repo.mod("dimse")
    fn = repo.func("dimse", "DIMSEServiceProvider.receive_primitive")
    fq = "dimse.DIMSEServiceProvider.receive_primitive"
    n = 0
    sizes = {}
    for pending in (0, 1, 9, 10, 11, 30):
        for repeated in (False, True):
            if repeated and pending == 0:
                continue
            queued, events = [], []
            msg_id = 1000 if repeated else 7
            cancel = Obj("C_CANCEL", {"MessageIDBeingRespondedTo": msg_id, "@bases": ("DIMSEPrimitive",)})
            message = Obj("DIMSEMessage", {"context_id": 3, "encoded_command_set": None, "data_set": None, "_data_set_file": None, "_data_set_path": None, "@decode_msg": lambda s_, *a: True, "@message_to_primitive": lambda s_: cancel})
            q = Obj("Queue", {"@put": lambda s_, item, *a, queued=queued: queued.append(item), "@put_nowait": lambda s_, item, queued=queued: queued.append(item)})
            evq = Obj("Queue", {"@put": lambda s_, item, *a, events=events: events.append(item)})
            table = {1000 + k: Obj("C_CANCEL", {"MessageIDBeingRespondedTo": 1000 + k}) for k in range(pending)}
            assoc = Obj("Association", {"is_established": True, "_serve_request": None})
            me = Obj("DIMSEServiceProvider", {"message": message, "cancel_req": table, "msg_queue": q, "dul": Obj("DUL", {"event_queue": evq}), "assoc": assoc})
            g = {"evt": Obj("evt", {"@trigger": lambda s_, *a, **k: None, "EVT_DIMSE_RECV": "EVT_DIMSE_RECV"}), "BytesIO": lambda *a: ("BytesIO",), "DimseServiceType": None}
            for cn in repo.mod("dimse_primitives").classes:
                g.setdefault(cn, cn)
            g.setdefault("threading", Obj("threading", {"@Thread": lambda s_, *a, **k: Obj("Thread", {"@start": lambda t_: None})}))
            g.setdefault("make_target", lambda f_: f_)
            ci_ = dm.classes.get("DIMSEServiceProvider")

            def resolver(cls, name, ci_=ci_):
                if cls != "DIMSEServiceProvider" or ci_ is None or name == "receive_primitive":
                    return None
                _, f_ = repo.lookup_method(ci_, name, "method")
                return None if f_ is None else (f_, any(norm(d_) == "staticmethod" for d_ in f_.decorator_list))

            it = Interp(g, classes={"DIMSEMessage": lambda: message}, method_resolver=resolver)
            inst = f"{pending} cancels pending, a C-CANCEL naming {'an ID that is already pending' if repeated else 'a new ID'}"
            try:
                it.call_function(fn, {"self": me, "primitive": Obj("P_DATA", {})})
            except Unsupported as exc:
                rep.defer(f"{fq}: not evaluable with stand-ins ({exc})")
                return {}
            except Raised as r:
                rep.fail(rule, fq, f"[{inst}] raises {r.kind}", f"receiving a C-CANCEL raises {r.kind} in the provider thread", mod=dm, node=fn)
                continue
            n += 1
            ok = not queued and not events
            rep.check(ok, rule, fq, f"[{inst}] msg_queue gets {len(queued)} item(s), events {events}", "a C-CANCEL reaches the DIMSE message queue (or ends the association): the reactor hands it to _serve_request() as if it were a service request, where reading `is_valid_request` raises AttributeError and the association thread dies - the peer's later A-RELEASE-RQ is never answered", mod=dm, node=fn)
            sizes[(pending, repeated)] = len(table)
            lost = [k for k in range(1000, 1000 + pending) if k not in table]
            rep.check(not lost, rule, fq, f"[{inst}] pending cancels still stored afterwards: {pending - len(lost)} of {pending}", f"receiving another C-CANCEL drops {len(lost)} cancel(s) that were already pending (Message IDs {lost[:3]}): a cancel that named the operation in progress is lost to later, unrelated ones - the handler is never told", mod=dm, node=fn)
            if pending < 10 and not repeated:
                st = table.get(msg_id)
                rep.check(st is cancel, rule, fq, f"[{inst}] stored under its own Message ID: {st is cancel}", "below the limit the C-CANCEL must be stored under the Message ID it names", mod=dm, node=fn)
    rep.floor("C-CANCEL receptions evaluated", n, 8)
    return sizes


def check_handler_always_resumed(repo, rep, rule: str) -> None:
    """The handler learns about a C-CANCEL only by polling event.is_cancelled when it is resumed. _wrap_handler
    therefore resumes the user's generator whenever the SCP asks for the next result and looks at the peer's state
    (aborted / release requested) only *after* a result came back: a test in front of the advance ends the
    operation without the handler ever being told about a cancel that arrived together with the release / abort.
    Structural: on no path from the function's entry, or from a yield, to the next advance of the generator lies a
    test of is_aborted() / is_release_requested() (directly or through a local function)."""
    from ..cfg import CFG

    rep.rule(rule, "_wrap_handler resumes the handler's generator before it looks at the peer's state: a matching C-CANCEL is always reported to the running handler")
    sc = repo.mod("service_class")
    fn = repo.func("service_class", "ServiceClass._wrap_handler")
    fq = "service_class.ServiceClass._wrap_handler"
    peer_fns = {f.name for f in ast.walk(fn) if isinstance(f, ast.FunctionDef) and f is not fn and any(isinstance(c, ast.Call) and isinstance(c.func, ast.Attribute) and c.func.attr in ("is_aborted", "is_release_requested") for c in ast.walk(f))}

    def peer_test(nd):
        if nd.ast is None:
            return False
        root = nd.ast.test if nd.kind == "test" and hasattr(nd.ast, "test") else nd.ast if nd.kind in ("stmt",) else None
        if root is None:
            return False
        for c in walk_no_nested(root):
            if isinstance(c, ast.Call) and ((isinstance(c.func, ast.Attribute) and c.func.attr in ("is_aborted", "is_release_requested")) or (isinstance(c.func, ast.Name) and c.func.id in peer_fns)):
                return True
        return False

    params = [a.arg for a in fn.args.args]
    gen = params[1] if len(params) > 1 else "handler"
    cfg = CFG(fn, body=body_nodoc(fn), local_exc_only=True)
    aliases = {gen} | {norm(a.targets[0]) for a in walk_no_nested(fn) if isinstance(a, ast.Assign) and isinstance(a.targets[0], ast.Name) and isinstance(a.value, ast.Call) and norm(a.value.func) == "iter" and a.value.args and norm(a.value.args[0]) == gen}

    def advance(nd):
        if nd.kind == "iter" and norm(nd.ast.iter) in aliases:
            return True
        if nd.ast is not None and nd.kind == "stmt":
            return any(isinstance(c, ast.Call) and norm(c.func) == "next" and c.args and norm(c.args[0]) in aliases for c in walk_no_nested(nd.ast))
        return False

    adv = [nd for nd in cfg.nodes if advance(nd)]
    if not adv:
        rep.defer(f"{fq}: the advance of the handler's generator was not found")
        return
    starts = [cfg.entry] + [nd for nd in cfg.nodes if nd.kind == "stmt" and nd.ast is not None and any(isinstance(y, ast.Yield) for y in walk_no_nested(nd.ast))]
    bad = None
    for st in starts:
        seen = cfg.reachable(st, without={a.id for a in adv if a is not st}, labels_excluded=("exc",))
        for nid in seen:
            nd = cfg.nodes[nid]
            if nd is st or not peer_test(nd):
                continue
            # the test matters only if an advance lies behind it
            behind = cfg.reachable(nd, labels_excluded=("exc",))
            if any(a.id in behind for a in adv):
                bad = (st, nd)
                break
        if bad:
            break
    rep.check(bad is None, rule, fq, bad[1].ast if bad else f"{len(adv)} advance site(s), {len(starts)} resume points", f"the peer's state is tested (line {bad[1].line if bad else '?'}) before the handler's generator is resumed: when a C-CANCEL and then an A-RELEASE-RQ / A-ABORT arrive between two results the handler is never resumed - a cancel whose message ID matches the running operation is not reported to its handler", mod=sc, node=bad[1].ast if bad else fn)
