"""C03 - PDU framing is independent of how TCP splits the byte stream."""

from __future__ import annotations

import ast

from ..cfg import CFG, typestate, witness, calls_at
from ..loader import AnalysisError, Repo, body_nodoc, dotted, norm, qualname, walk_no_nested, enclosing, strip_cast
from ..report import Report

LEVEL = "other"
EXPLANATION = (
    "Exact-count framing, decided structurally. AssociationSocket.recv(n): the loop runs while "
    "fewer than n bytes were read; the size handed to socket.recv is bounded by the remaining "
    "count on every path (recognised: the if-clamp and min()), so bytes of the *next* PDU are never "
    "consumed; exactly what was read is appended and counted; the only exits are 'count reached' "
    "and 'empty read' (peer closed). _read_pdu_data asks for exactly 6 header bytes, unpacks "
    "type/reserved/length big-endian, asks for exactly `length` more; every short or failed read "
    "ends in Evt17 and the length test dominates decoding, so a connection closed mid-PDU is "
    "reported as closed, never as a truncated PDU; one event and one PDU are queued per call. "
    "Independent of how the stream is segmented because no step depends on chunk boundaries. "
    "(gap-tolerant) a typestate over connect() shows the connected socket carries no timeout or the "
    "network timeout, never the connection timeout, so a gap between segments cannot turn into a "
    "'closed connection'. Not "
    "decided: behaviour under real inter-chunk delays (C08) and kernel semantics."
    ' Second session: what the decoder is handed is computed by a small dataflow over the receive buffer (must be exactly recv(6) followed by recv(pdu_length)); header fields are extracted semantically (struct.unpack / int.from_bytes / index spellings); the connect() timeout typestate is path-sensitive over pure local tests (sock_model.ConnectModel).'
    " Fourth session: (tls-portable) no flags argument on reads / writes of a socket that may be an SSLSocket; (ready-probe) once select() reports the socket readable `ready` never answers False; socket reads are counted per path through the loop; the length model names reads by their order on the path so branches can be joined; (gap-tolerant) borrows C08's wait rules."
    " Fifth round: (one-per-call) at most one PDU read per pass of the reactor (counted structurally over the paths of a pass, not by text), one event source per pass, the DIMSE queue is served before a release request is acted on; (gap-tolerant) the idle timer is restarted after the read, and C08's bounded waits are borrowed; socket reads may go through a helper whose body is the read; the short-header guard may be `not header or len(header) < 6`. The rule that the event be queued before its PDU was removed (the order inside one pass does not matter - a false alarm found by a correct twin)."
)


def run(repo: Repo, rep: Report, tier: str) -> None:
    rep.rule("recv-exact", "recv(n) loops until n bytes or EOF, never asks the socket for more than the remaining count, appends exactly what it read")
    rep.rule("header-body", "_read_pdu_data reads exactly 6 bytes, then exactly pdu_length bytes from the big-endian length field")
    rep.rule("short-is-closed", "a short or failed read is Evt17 and never reaches the decoder")
    rep.rule("one-per-call", "each call queues one event and at most one PDU, from the reactor thread only")
    tr = repo.mod("transport")
    fn = repo.func("transport", "AssociationSocket.recv")
    fq = "transport.AssociationSocket.recv"
    n_param = fn.args.args[1].arg
    check_tls_portable(repo, rep)
    _check_recv(repo, rep, tr, fn, fq, n_param)

    # ---- header / body ---------------------------------------------------------
    dul = repo.mod("dul")
    rd = repo.func("dul", "DULServiceProvider._read_pdu_data")
    fqd = "dul.DULServiceProvider._read_pdu_data"
    # a helper method that is `return self.socket.recv(n)` (None on a socket error) is the same read
    dci_ = dul.classes.get("DULServiceProvider")
    RECV_HELPERS = set()
    for hn_, hf_ in (dci_.methods.items() if dci_ is not None else []):
        if hn_ == "_read_pdu_data" or len(hf_.args.args) != 2:
            continue
        par_ = hf_.args.args[1].arg
        rets_ = [r_ for r_ in walk_no_nested(hf_) if isinstance(r_, ast.Return)]
        reads_h = [c_ for c_ in walk_no_nested(hf_) if isinstance(c_, ast.Call) and dotted(c_.func) == "self.socket.recv"]
        if reads_h and all(norm(c_.args[0]) == par_ and len(c_.args) == 1 for c_ in reads_h) and rets_ and all(r_.value is None or (isinstance(r_.value, ast.Constant) and r_.value.value is None) or (isinstance(strip_cast(r_.value), ast.Call) and strip_cast(r_.value) in reads_h) or (isinstance(r_.value, ast.Name) and any(isinstance(a_, ast.Assign) and norm(a_.targets[0]) == r_.value.id and strip_cast(a_.value) in reads_h for a_ in walk_no_nested(hf_))) for r_ in rets_):
            RECV_HELPERS.add(f"self.{hn_}")

    def is_recv(c_):
        return isinstance(c_, ast.Call) and (dotted(c_.func) == "self.socket.recv" or dotted(c_.func) in RECV_HELPERS) and len(c_.args) == 1

    recvs = sorted([c for c in walk_no_nested(rd) if is_recv(c)], key=lambda c: c.lineno)
    fields = header_fields(rd)
    for name, want in (("pdu_type", (0, 1, "big")), ("pdu_length", (2, 4, "big"))):
        got = fields.get(name)
        if got is None:
            rep.defer(f"{fqd}: how {name} is taken from the 6 header bytes was not recognised")
            continue
        hdr_names = {"bytestream"} | {norm(a_.targets[0]) for a_ in walk_no_nested(rd) if isinstance(a_, ast.Assign) and len(a_.targets) == 1 and isinstance(a_.targets[0], ast.Name) and is_recv(strip_cast(a_.value)) and norm(strip_cast(a_.value).args[0]) == "6"}
        ok_f = got[0][:2] == want[:2] and (want[1] == 1 or got[0][2] == want[2]) and got[1] in hdr_names
        rep.check(ok_f, "header-body", fqd, f"{name} <- bytes [{got[0][0]}:{got[0][0] + got[0][1]}] {got[0][2]}-endian of {got[1]}", f"{name} is the {'big-endian 32-bit field at offset 2' if name == 'pdu_length' else 'first byte'} of the header (PS3.8 9.3.1): any other slice mis-frames the stream (e.g. a dropped top byte wraps lengths >= 16 MiB)", mod=dul, node=got[2])
    # what the decoder is handed: abstract content of every local buffer as a sequence of recv(n) chunks
    bcfg = CFG(rd, body=body_nodoc(rd), local_exc_only=True)

    def chunks(e, env):
        e = strip_cast(e)
        if isinstance(e, ast.Call) and norm(e.func) in ("bytearray", "bytes") and not e.args:
            return ()
        if isinstance(e, ast.Call) and norm(e.func) in ("bytearray", "bytes") and len(e.args) == 1:
            return chunks(e.args[0], env)
        if isinstance(e, ast.Constant) and e.value == b"":
            return ()
        if is_recv(e):
            return (("recv", norm(e.args[0])),)
        if isinstance(e, ast.Name):
            return dict(env).get(e.id)
        if isinstance(e, ast.BinOp) and isinstance(e.op, ast.Add):
            l, r = chunks(e.left, env), chunks(e.right, env)
            return None if l is None or r is None else l + r
        return None

    def btransfer(n, env):
        if n.kind == "stmt":
            a_ = n.ast
            d = dict(env)
            normal = {l for _, l in n.succ if l != "exc"}
            new_env = None
            if isinstance(a_, ast.Assign) and len(a_.targets) == 1 and isinstance(a_.targets[0], ast.Name):
                v = chunks(a_.value, env)
                if v is not None or a_.targets[0].id in d:
                    d[a_.targets[0].id] = v
                    new_env = d
            elif isinstance(a_, ast.AugAssign) and isinstance(a_.op, ast.Add) and isinstance(a_.target, ast.Name) and a_.target.id in d:
                l, r = d[a_.target.id], chunks(a_.value, env)
                d[a_.target.id] = None if l is None or r is None else l + r
                new_env = d
            elif isinstance(a_, ast.Expr) and isinstance(a_.value, ast.Call) and isinstance(a_.value.func, ast.Attribute) and a_.value.func.attr == "extend" and isinstance(a_.value.func.value, ast.Name) and a_.value.func.value.id in d and len(a_.value.args) == 1:
                nm = a_.value.func.value.id
                l, r = d[nm], chunks(a_.value.args[0], env)
                d[nm] = None if l is None or r is None else l + r
                new_env = d
            if new_env is not None:
                ne = tuple(sorted(new_env.items(), key=lambda kv: kv[0]))
                return [(ne, normal), (env, {"exc"})]
        return [(env, None)]

    bins, _bp = typestate(bcfg, (), btransfer)
    bdec = [n for n in bcfg.nodes if n.kind == "stmt" and any(dotted(c.func) == "self._decode_pdu" for c in calls_at(n))]
    rep.need(len(bdec) == 1, f"{fqd}: decode site not found")
    dcall = next(c for c in calls_at(bdec[0]) if dotted(c.func) == "self._decode_pdu")
    want_seq = (("recv", "6"), ("recv", "pdu_length"))
    got_seqs = sorted({repr(chunks(dcall.args[0], env)) for env in bins.get(bdec[0].id, ())}) if dcall.args else []
    rep.check(got_seqs == [repr(want_seq)], "header-body", fqd, f"decoder is handed {got_seqs}", "the decoder must be handed exactly recv(6) followed by recv(pdu_length) - first the 6-byte header, then exactly pdu_length bytes, in arrival order and nothing else", mod=dul, node=bdec[0].ast)

    # ---- short is closed -------------------------------------------------------------
    cfg = CFG(rd, body=body_nodoc(rd), local_exc_only=True)
    dec = [n for n in cfg.nodes if n.kind == "stmt" and any(dotted(c.func) == "self._decode_pdu" for c in calls_at(n))]
    rep.need(len(dec) == 1, f"{fqd}: decode site not found")
    lt = [n for n in cfg.nodes if n.kind == "test" and norm(n.ast.test).replace(" ", "") in ("len(bytestream)!=6+pdu_length", "len(bytestream)!=pdu_length+6")]
    ok = len(lt) == 1 and cfg.dominates(lt[0], dec[0])
    rep.check(ok, "short-is-closed", fqd, "len(bytestream) != 6 + pdu_length dominates decoding", "a PDU cut short by a closing connection must never be decoded", mod=dul, node=rd)
    if lt:
        body = [norm(s) for s in lt[0].ast.body if not norm(s).startswith("LOGGER")]
        rep.check(body == ["self.event_queue.put('Evt17')", "return"], "short-is-closed", fqd, f"short body: {body}", "a short body is a closed connection (Evt17), not an invalid PDU", mod=dul, node=lt[0].ast)
        # the false edge must not be reachable when lengths differ: decode only on the false edge
        f_succ = [m for m, l in lt[0].succ if l == "false"]
        rep.check(bool(f_succ) and dec[0].id in cfg.reachable(f_succ[0]) and dec[0].id not in cfg.reachable([m for m, l in lt[0].succ if l == "true"][0], labels_excluded=()), "short-is-closed", fqd, "decode only on the equal-length branch", "decoding must be unreachable from the short-read branch", mod=dul, node=lt[0].ast)
    for h in [x for x in walk_no_nested(rd) if isinstance(x, ast.ExceptHandler)]:
        types = norm(h.type) if h.type else ""
        body = [norm(s) for s in h.body if not norm(s).startswith("LOGGER")]
        if "OSError" in types or "struct.error" in types:
            rep.check(body == ["self.event_queue.put('Evt17')", "return"], "short-is-closed", fqd, f"except {types}: {body}", "a socket error or a header shorter than 6 bytes is a closed connection (Evt17)", mod=dul, node=h)
    trys = [x for x in walk_no_nested(rd) if isinstance(x, ast.Try)]
    for c in recvs:
        tr_ = enclosing(c, (ast.Try,))
        ok = tr_ is not None and any("OSError" in (norm(h.type) if h.type else "") for h in tr_.handlers)
        if not ok and dotted(c.func) in RECV_HELPERS:
            # the read helper contains the socket error itself and answers None: the caller must turn that into Evt17
            hf_ = dci_.methods[dotted(c.func).split(".")[-1]]
            inner = all(enclosing(x_, (ast.Try,)) is not None and any("OSError" in (norm(h.type) if h.type else "") or h.type is None or norm(h.type) in ("Exception",) for h in enclosing(x_, (ast.Try,)).handlers) for x_ in walk_no_nested(hf_) if isinstance(x_, ast.Call) and dotted(x_.func) == "self.socket.recv")
            st_ = enclosing(c, (ast.stmt,))
            nm_ = norm(st_.targets[0]) if isinstance(st_, ast.Assign) and len(st_.targets) == 1 else None
            tested = nm_ is not None and any(isinstance(i_, ast.If) and any(norm(p_).replace(" ", "") in (f"not{nm_}", f"{nm_}isNone") for p_ in (i_.test.values if isinstance(i_.test, ast.BoolOp) and isinstance(i_.test.op, ast.Or) else [i_.test])) and [norm(x_) for x_ in i_.body if not norm(x_).startswith("LOGGER")] == ["self.event_queue.put('Evt17')", "return"] for i_ in walk_no_nested(rd))
            ok = inner and tested
        rep.check(ok, "short-is-closed", fqd, enclosing(c, (ast.stmt,)), "socket reads must be inside try/except OSError -> Evt17", mod=dul, node=c)
    check_header_guard(repo, rep, "short-is-closed")

    # ---- one per call --------------------------------------------------------------------
    def transfer2(n, st):
        nput, nq = st
        if n.kind == "stmt":
            for c in calls_at(n):
                if dotted(c.func) == "self.event_queue.put":
                    nput = min(nput + 1, 2)
                if dotted(c.func) == "self._recv_pdu.put":
                    nq = min(nq + 1, 2)
        other = {l for _, l in n.succ if l != "exc"}
        return [((nput, nq), other), (st, {"exc"})]

    ins, pred = typestate(cfg, (0, 0), transfer2)
    bad = [s for s in ins.get(cfg.exit.id, ()) if s[0] != 1 or s[1] > 1 or (s[1] == 1 and s[0] != 1)]
    rep.check(not bad, "one-per-call", fqd, f"exit states {sorted(ins.get(cfg.exit.id, ()))}", "exactly one event per call, and a PDU is queued on _recv_pdu only together with its event (an event-less PDU stays behind and is handed to the next action that expects one)", mod=dul, node=rd)
    # who calls _read_pdu_data: only the reactor's transport step
    n_callers = 0
    for m in repo.modules.values():
        for c in [x for x in ast.walk(m.tree) if isinstance(x, ast.Call) and isinstance(x.func, ast.Attribute) and x.func.attr == "_read_pdu_data"]:
            n_callers += 1
            from ..loader import qualname
            q = qualname(c)
            rep.check(m.name == "pynetdicom.dul" and q == "DULServiceProvider._is_transport_event", "one-per-call", f"{m.name.replace('pynetdicom.', '')}.{q}", enclosing(c, (ast.stmt,)), "PDUs must be read from one place (the reactor thread), otherwise two readers interleave on one byte stream", mod=m, node=c)
    rep.floor("_read_pdu_data call sites", n_callers, 1)
    # the idle (network) timeout measures silence *after* a PDU: the timer is restarted once the PDU has been read,
    # never before the blocking read - otherwise the time a PDU takes to arrive in several segments is charged to
    # the quiet period that follows it, and an association whose every gap is below the timeout is aborted
    for f_ in [x for x in ast.walk(dul.tree) if isinstance(x, ast.FunctionDef)]:
        reads_ = [c_ for c_ in walk_no_nested(f_) if isinstance(c_, ast.Call) and isinstance(c_.func, ast.Attribute) and c_.func.attr == "_read_pdu_data"]
        rst_ = [c_ for c_ in walk_no_nested(f_) if isinstance(c_, ast.Call) and norm(c_.func) in ("self._idle_timer.restart", "self._idle_timer.start")]
        if not reads_ or not rst_:
            continue
        cfg_f = CFG(f_, body=body_nodoc(f_), may_raise=lambda n_: False)
        for r_ in rst_:
            rn = cfg_f.nodes_containing(r_)
            if not rn:
                continue
            reach = cfg_f.reachable(rn[0], without=set(), labels_excluded=("loop", "continue"))
            early = [c_ for c_ in reads_ if any(n_.id in reach and n_ is not rn[0] for n_ in cfg_f.nodes_containing(c_))]
            rep.check(not early, "gap-tolerant", f"dul.{qualname(f_)}", enclosing(r_, (ast.stmt,)), "the idle timer is restarted before the blocking PDU read instead of after it: the seconds a segmented PDU takes to arrive count against the quiet period that follows, so 'PDU spread over d seconds, then q seconds of silence' is aborted as soon as d + q exceeds the network timeout although neither does", mod=dul, node=r_)
    # what arrived first is handled first: PDUs are queued in arrival order by the provider thread, and in every pass
    # the association's reactor looks at the DIMSE queue before it looks for a release request - otherwise a
    # request and the A-RELEASE-RQ that follows it are handled in order when they arrive a moment apart and out of
    # order (the request is dropped unserved) when they arrive in one segment
    am_ = repo.mod("association")
    rr_ = repo.func("association", "Association._run_reactor")
    cfg_r = CFG(rr_, body=body_nodoc(rr_), may_raise=lambda n_: False)
    gm_ = [n_ for n_ in cfg_r.nodes if n_.kind in ("stmt", "test") and any(isinstance(c_.func, ast.Attribute) and c_.func.attr in ("get_msg", "peek_msg") for c_ in calls_at(n_))]
    rl_ = [n_ for n_ in cfg_r.nodes if n_.kind in ("stmt", "test") and any(isinstance(c_.func, ast.Attribute) and c_.func.attr == "is_release_requested" for c_ in calls_at(n_))]
    if gm_ and rl_:
        rep.check(all(any(cfg_r.dominates(g_, r_, labels_excluded=("loop", "continue")) for g_ in gm_) for r_ in rl_), "one-per-call", "association.Association._run_reactor", "DIMSE queue checked before the release request in each pass", "the reactor looks for a release request before it looks at the DIMSE message queue: a request that arrived in the same TCP segment as the A-RELEASE-RQ following it is discarded unserved (the release is answered first), while the same two PDUs a moment apart are served in order - the outcome depends on how the byte stream was segmented", mod=am_, node=rl_[0].ast)
    else:
        rep.defer("association.Association._run_reactor: get_msg / is_release_requested not found")
    # one event source per pass: the reactor either takes a primitive from the local user or reads a PDU - the PDU is
    # looked for only when there was no primitive. Evaluating both in the same pass queues two events for one pass of
    # a loop that handles one: the surplus event lags behind and reaches an action that no longer has its PDU / primitive
    for f_ in [x for x in ast.walk(dul.tree) if isinstance(x, ast.FunctionDef)]:
        tcalls = [c_ for c_ in walk_no_nested(f_) if isinstance(c_, ast.Call) and isinstance(c_.func, ast.Attribute) and c_.func.attr == "_is_transport_event"]
        pcalls = [c_ for c_ in walk_no_nested(f_) if isinstance(c_, ast.Call) and isinstance(c_.func, ast.Attribute) and c_.func.attr == "_process_recv_primitive"]
        if not tcalls or not pcalls:
            continue
        pnames = {norm(a_.targets[0]) for a_ in walk_no_nested(f_) if isinstance(a_, ast.Assign) and any(a_.value is p_ or any(y is p_ for y in ast.walk(a_.value)) for p_ in pcalls)}

        def _mentions_prim(e_):
            return any(y is p_ for p_ in pcalls for y in ast.walk(e_)) or any(isinstance(y, ast.Name) and y.id in pnames for y in ast.walk(e_))

        for t_ in tcalls:
            excl = False
            child, g_ = t_, enclosing(t_, (ast.If,))
            while g_ is not None and not excl:
                in_test = any(y is t_ for y in ast.walk(g_.test))
                in_body = any(y is child or any(z is child for z in ast.walk(y)) for y in g_.body)
                in_else = any(y is child or any(z is child for z in ast.walk(y)) for y in g_.orelse)
                if _mentions_prim(g_.test) and not in_test:
                    tt = g_.test
                    negated = isinstance(tt, ast.UnaryOp) and isinstance(tt.op, ast.Not)
                    if (in_else and not negated) or (in_body and negated):
                        excl = True
                if in_test and isinstance(g_.test, ast.BoolOp):
                    # `if not prim() and transport():` / `prim() or transport()`
                    vals = g_.test.values
                    k_ = next((i_ for i_, v_ in enumerate(vals) if any(y is t_ for y in ast.walk(v_))), None)
                    if k_ is not None and k_ > 0 and any(_mentions_prim(v_) for v_ in vals[:k_]):
                        excl = True
                child, g_ = g_, enclosing(g_, (ast.If,))
            # `prim() or transport()` as an expression statement
            bo = enclosing(t_, (ast.BoolOp,))
            if not excl and bo is not None:
                k_ = next((i_ for i_, v_ in enumerate(bo.values) if any(y is t_ for y in ast.walk(v_))), None)
                if k_ is not None and k_ > 0 and any(_mentions_prim(v_) for v_ in bo.values[:k_]):
                    excl = True
            rep.check(excl, "one-per-call", f"dul.{qualname(f_)}", enclosing(t_, (ast.stmt,)) or t_, "the transport is polled in the same pass in which a primitive from the local user was taken: two events are queued for one pass of a reactor that handles one per pass - the surplus event lags in the queue and reaches its action when the PDU / primitive it announced is gone (AR-7 pops a P-DATA as a release response, the provider thread dies and the peer's release request is never answered)", mod=dul, node=t_)
    # ... and at most once per pass of the reactor: the loop turns every pass into at most one new event and then
    # processes one; a second read in the same pass queues events faster than they are consumed, and the
    # primitive check (which only peeks at the head of its queue) announces the same primitive again on every
    # pass behind that backlog - a surplus Evt9 / Evt14 finds an empty queue or an undefined state
    ite = repo.func("dul", "DULServiceProvider._is_transport_event")
    cfg_t = CFG(ite, body=body_nodoc(ite), may_raise=lambda n_: False)

    def tr_reads(n_, st_):
        if n_.kind in ("stmt", "test") and any(isinstance(c_.func, ast.Attribute) and c_.func.attr == "_read_pdu_data" for c_ in calls_at(n_)):
            return [(min(st_ + 1, 2), None)]
        return [(st_, None)]

    ins_t, _p = typestate(cfg_t, 0, tr_reads)
    worst = max(ins_t.get(cfg_t.exit.id, {0}) or {0})
    in_loop = any(isinstance(l_, (ast.For, ast.While)) and any(isinstance(c_, ast.Call) and isinstance(c_.func, ast.Attribute) and c_.func.attr == "_read_pdu_data" for c_ in ast.walk(l_)) for l_ in walk_no_nested(ite))
    rep.check(worst <= 1 and not in_loop, "one-per-call", "dul.DULServiceProvider._is_transport_event", f"at most {worst} PDU read(s) per call{' (inside a loop)' if in_loop else ''}", "the reactor's transport step reads more than one PDU in one pass: events are queued faster than the loop consumes them (it handles one per pass), the primitive check behind that backlog announces the head of its queue once per pass - the surplus event runs its action on an empty queue (queue.Empty) or in a state where it is undefined, and the provider thread dies", mod=dul, node=ite)
    # and who reads the raw socket
    n_sock = 0
    for m in repo.modules.values():
        if m.name.startswith("pynetdicom.apps"):
            continue
        for c in [x for x in ast.walk(m.tree) if isinstance(x, ast.Call) and isinstance(x.func, ast.Attribute) and x.func.attr == "recv" and "socket" in norm(x.func.value)]:
            n_sock += 1
            from ..loader import qualname
            q = qualname(c)
            ok = (m.name == "pynetdicom.transport" and q == "AssociationSocket.recv") or (m.name == "pynetdicom.dul" and q == "DULServiceProvider._read_pdu_data")
            if not ok and m.name == "pynetdicom.dul" and f"self.{q.split('.')[-1]}" in RECV_HELPERS:
                # a read helper of _read_pdu_data: fine as long as nobody else calls it
                callers = {qualname(x_) for x_ in ast.walk(m.tree) if isinstance(x_, ast.Call) and dotted(x_.func) == f"self.{q.split('.')[-1]}"}
                ok = callers <= {"DULServiceProvider._read_pdu_data"}
            rep.check(ok, "one-per-call", f"{m.name.replace('pynetdicom.', '')}.{q}", enclosing(c, (ast.stmt,)), "a second reader of the association's socket would steal bytes from the PDU stream", mod=m, node=c)
    rep.floor("socket read sites", n_sock, 2)
    check_gap_tolerance(repo, rep)
    from ..delegate import delegate as _delegate
    _delegate(repo, rep, tier, "C08", ("queue-waits", "timeout-propagation"), "gap-tolerant", "a wait for the peer's PDU gives up earlier than the configured timeout allows (a placeholder such as Timer.remaining's 1 s for 'no timeout'): a PDU that arrives in two TCP segments with a pause inside the configured limits is never answered")
    rep.rule("ready-probe", "the readiness probe sees TLS-buffered data on every SSLSocket, whichever side wrapped it")
    check_ready_probe(repo, rep, "ready-probe")
    check_readable_is_ready(repo, rep, "ready-probe")


def check_gap_tolerance(repo: Repo, rep: Report) -> None:
    """the connected socket must not carry the *connection* timeout: recv() would raise on an
    intra-PDU gap longer than it and the partial PDU would be reported as a closed connection"""
    rep.rule("gap-tolerant", "once connected the socket's timeout is None or the network timeout, never the connection timeout; accepted sockets are not given a shorter one")
    tr = repo.mod("transport")
    fn = repo.func("transport", "AssociationSocket.connect")
    fq = "transport.AssociationSocket.connect"
    cfg = CFG(fn, body=body_nodoc(fn), local_exc_only=True)

    def classify(arg: ast.AST) -> str:
        t = norm(strip_cast(arg))
        if t == "None":
            return "none"
        if t.endswith("network_timeout"):
            return "network"
        if t.endswith("connection_timeout"):
            return "connection"
        return f"other:{t}"

    from ..sock_model import ConnectModel
    cm = ConnectModel(repo)
    cfg, init, init_calls, cs = cm.cfg, cm.init, cm.init_calls, repo.func("transport", "AssociationSocket._create_socket")
    rep.check(init in ("none", "network"), "gap-tolerant", "transport.AssociationSocket._create_socket", init_calls[-1] if init_calls else "no settimeout", f"a new socket starts with timeout class '{init}'", mod=tr, node=cs)
    marks = cm.marks
    rep.need(len(marks) == 1, f"{fq}: `self._is_connected = True` not found")
    states = cm.classes(marks[0])
    bad = [s for s in states if s not in ("none", "network")]
    bad_state = next((s for s in cm.states(marks[0]) if s[0][0] in bad), None)
    rep.check(not bad and bool(states), "gap-tolerant", fq, f"socket timeout at the point the connection is marked open: {states}", f"the connected socket keeps timeout class {bad}: a PDU arriving in two segments with a gap longer than that timeout makes recv() raise, which _read_pdu_data reports as a closed connection (Evt17) although the peer is alive and within the network timeout", mod=tr, node=marks[0].ast, path=witness(cfg, cm.pred, marks[0], bad_state) if bad_state else None)
    # nobody else puts a timeout on an association socket (accepted sockets stay blocking)
    n_other = 0
    for mname, m in sorted(repo.modules.items()):
        short = mname.replace("pynetdicom.", "")
        if short.startswith(("apps.", "tests.", "benchmarks.")):
            continue
        for c in ast.walk(m.tree):
            if isinstance(c, ast.Call) and isinstance(c.func, ast.Attribute) and c.func.attr == "settimeout":
                from ..loader import qualname
                q = f"{short}.{qualname(c)}"
                n_other += 1
                if q in ("transport.AssociationSocket.connect", "transport.AssociationSocket._create_socket"):
                    continue
                cls = classify(c.args[0]) if c.args else "none"
                # the listening socket of a server may carry the network timeout (accept() wake-ups)
                ok = q == "transport.AssociationServer.server_bind" and cls == "network"
                rep.check(ok, "gap-tolerant", q, enclosing(c, (ast.stmt,)), f"a socket timeout of class '{cls}' is set outside the two known places: if it lands on an association socket, recv() gives up on slow segments", mod=m, node=c)
    rep.floor("settimeout call sites", n_other, 3)


def check_ready_probe(repo: Repo, rep: Report, rule: str) -> None:
    """AssociationSocket.ready decides whether the reactor reads at all. Bytes that TLS already
    decrypted into its own buffer are invisible to select(): they are seen only through
    SSLSocket.pending(), and that must be asked whenever the socket *is* an SSLSocket - on both
    roles (the requestor wraps in connect(), the acceptor's socket arrives wrapped from
    AssociationServer.get_request)."""
    tr = repo.mod("transport")
    ci = repo.cls("transport", "AssociationSocket")
    fn = ci.getters.get("ready")
    if fn is None:
        rep.defer("transport.AssociationSocket.ready vanished")
        return
    fq = "transport.AssociationSocket.ready"
    sel = [c for c in walk_no_nested(fn) if isinstance(c, ast.Call) and dotted(c.func) == "select.select"]
    ok = len(sel) == 1 and len(sel[0].args) == 4 and norm(sel[0].args[0]) == "[self.socket]" and isinstance(sel[0].args[3], ast.Constant)
    rep.check(ok, rule, fq, sel[0] if sel else "select.select([self.socket], [], [], 0)", "readiness must be probed on the association's own socket with a finite timeout", mod=tr, node=fn)
    pend = [c for c in walk_no_nested(fn) if isinstance(c, ast.Call) and isinstance(c.func, ast.Attribute) and c.func.attr == "pending"]
    rep.check(len(pend) >= 1, rule, fq, "SSLSocket.pending() consulted", "data already decrypted into the TLS layer's buffer is invisible to select(): without pending() a PDU that arrived in the same TLS record as the previous one is never read", mod=tr, node=fn)
    for c in pend:
        g = enclosing(c, (ast.If,))
        conds = []
        while g is not None and enclosing(g, (ast.FunctionDef,)) is fn:
            if any(x is c for s in g.body for x in ast.walk(s)):
                conds += g.test.values if isinstance(g.test, ast.BoolOp) and isinstance(g.test.op, ast.And) else [g.test]
            g = enclosing(g, (ast.If,))
        texts = [norm(x) for x in conds]
        type_test = any(t in ("isinstance(self.socket, ssl.SSLSocket)", "isinstance(self.socket, SSLSocket)") for t in texts)
        other = [t for t in texts if t not in ("isinstance(self.socket, ssl.SSLSocket)", "isinstance(self.socket, SSLSocket)", "_HAS_SSL")]
        rep.check(type_test and not other, rule, fq, f"pending() consulted under {texts}", "whether the TLS buffer is consulted must depend only on the socket being an SSLSocket: a condition on configuration (tls_args is set on requestor sockets only; an acceptor's socket is wrapped by the server) leaves one role blind to buffered PDUs - a complete, conformant PDU is then never processed", mod=tr, node=c)
        # the verdict must be `readable or pending`
        r = enclosing(c, (ast.Return,))
        okr = r is not None and isinstance(r.value, ast.BoolOp) and isinstance(r.value.op, ast.Or) and any("ready" in norm(v) for v in r.value.values)
        if not okr and r is not None:
            # equivalent spelling: `if ready: return True` earlier, then `return bool(pending)`
            early = [i for i in walk_no_nested(fn) if isinstance(i, ast.If) and norm(i.test) in ("ready", "bool(ready)") and i.lineno < r.lineno and i.body and isinstance(i.body[-1], ast.Return) and isinstance(i.body[-1].value, ast.Constant) and i.body[-1].value.value is True]
            okr = bool(early)
        rep.check(okr, rule, fq, r if r is not None else "return bool(ready) or bool(pending)", "buffered TLS data must make the socket ready in addition to, not instead of, select()", mod=tr, node=c)


def check_readable_is_ready(repo: Repo, rep: Report, rule: str) -> None:
    """select() reporting the socket readable means: bytes have arrived, or the peer has closed / reset the
    connection. Either way the reactor has to read - that is how a short header, a FIN in the middle of a PDU
    and a reset become Evt17. `ready` may add reasons to read (TLS-buffered data) but must never answer False
    once select() said readable: a probe that waits for 'enough' bytes never sees the close that arrives
    1-5 bytes into a header, and the association stays established for ever."""
    from ..cfg import path_summaries

    tr = repo.mod("transport")
    ci = repo.cls("transport", "AssociationSocket")
    fn = ci.getters.get("ready")
    if fn is None:
        rep.defer("transport.AssociationSocket.ready vanished")
        return
    fq = "transport.AssociationSocket.ready"
    sel = [s_ for s_ in walk_no_nested(fn) if isinstance(s_, ast.Assign) and isinstance(s_.value, ast.Call) and dotted(s_.value.func) == "select.select"]
    if len(sel) != 1 or not isinstance(sel[0].targets[0], (ast.Tuple, ast.List)) or not isinstance(sel[0].targets[0].elts[0], ast.Name):
        rep.defer(f"{fq}: `readable, _, _ = select.select(..)` not found")
        return
    rd = sel[0].targets[0].elts[0].id
    truthy = {rd, f"bool({rd})", f"len({rd}) > 0", f"{rd} != []"}
    n = 0
    for ps in path_summaries(fn, body=body_nodoc(fn), may_raise=lambda n_: False):
        if ps.raised or ps.ret is None or not any(st_ is sel[0] for st_ in ps.stmts):
            continue
        known_falsy = False
        for t_, taken in ps.conds:
            atoms = [t_]
            if isinstance(t_, ast.BoolOp):
                # `not ready or X` false => ready truthy; `ready and X` true => ready truthy: only a *sufficient* sign of falsy matters
                if isinstance(t_.op, ast.Or) and not taken:
                    atoms = list(t_.values)
                    taken_each = False
                elif isinstance(t_.op, ast.And) and taken:
                    atoms = list(t_.values)
                    taken_each = True
                else:
                    continue
            else:
                taken_each = taken
            for a_ in atoms:
                txt = norm(a_)
                if (txt in truthy and not taken_each) or (txt in {f"not {x}" for x in truthy} and taken_each):
                    known_falsy = True
        if known_falsy:
            continue
        n += 1
        v = ps.ret
        parts = list(v.values) if isinstance(v, ast.BoolOp) and isinstance(v.op, ast.Or) else [v]
        ok = any(norm(p_) in truthy or (isinstance(p_, ast.Constant) and p_.value is True) for p_ in parts)
        rep.check(ok, rule, fq, f"return {norm(v)[:60]} (line {getattr(v, 'lineno', '?')})", "on a path where select() may have reported the socket readable `ready` answers with something that can be False: readable also means 'the peer closed or reset the connection' - a probe that holds off until enough bytes are queued never reads the close that arrives 1-5 bytes into a PDU header, so no Evt17 is raised, nothing aborts and the association stays established", mod=tr, node=v)
    rep.floor("returns of `ready` reachable with a readable socket", n, 1)


def check_header_guard(repo: Repo, rep: Report, rule: str) -> None:
    """struct.unpack('>BBL', <header>) raises struct.error unless exactly 6 bytes were read. A peer
    (or the network) can end the stream 1-5 bytes into a header, so the unpack must either sit in a
    try whose handler for struct.error queues Evt17 and returns, or be dominated by a test of
    len(<header>) against 6 whose short branch does. Otherwise the exception escapes to the reactor's
    catch-all: no Evt17, no AA-4/AA-5, no abort indication."""
    dul = repo.mod("dul")
    rd = repo.func("dul", "DULServiceProvider._read_pdu_data")
    fqd = "dul.DULServiceProvider._read_pdu_data"
    fields = header_fields(rd)
    sites = []
    for name in ("pdu_type", "pdu_length"):
        if name in fields and fields[name][2] not in [x[0] for x in sites]:
            sites.append((fields[name][2], fields[name][1]))
    if not sites:
        rep.defer(f"{fqd}: header parse not found")
        return

    def evt17_return(stmts):
        body = [norm(s) for s in stmts if not norm(s).startswith("LOGGER")]
        return body == ["self.event_queue.put('Evt17')", "return"]

    for c, buf in sites:
        ok, how = False, ""
        raises_struct = any(isinstance(x, ast.Call) and (dotted(x.func) or "").endswith("unpack") for x in ast.walk(c))
        t = enclosing(c, (ast.Try,)) if raises_struct else None
        while t is not None and not ok:
            in_body = any(c in list(ast.walk(s_)) for s_ in t.body)
            for h in t.handlers if in_body else []:
                types = norm(h.type) if h.type else "BaseException"
                if any(x in types for x in ("struct.error", "Exception", "BaseException")):
                    if evt17_return(h.body):
                        ok, how = True, f"inside try / except {types} -> Evt17, return"
                    break
            t = enclosing(t, (ast.Try,))
        if not ok:
            cfg = CFG(rd, body=body_nodoc(rd), local_exc_only=True)
            site = [n for n in cfg.nodes if n.kind == "stmt" and n.ast is c]
            for n in cfg.nodes:
                if n.kind != "test" or not isinstance(n.ast, ast.If):
                    continue
                t_ = n.ast.test
                parts_ = list(t_.values) if isinstance(t_, ast.BoolOp) and isinstance(t_.op, ast.Or) else [t_]
                texts_ = [norm(p_).replace(" ", "") for p_ in parts_]
                short_ = any(x_ in (f"len({buf})!=6", f"len({buf})<6", f"6>len({buf})", f"6!=len({buf})") for x_ in texts_)
                others_ok = all(x_ in (f"len({buf})!=6", f"len({buf})<6", f"6>len({buf})", f"6!=len({buf})", f"not{buf}", f"{buf}isNone") for x_ in texts_)
                if short_ and others_ok and site and cfg.dominates(n, site[0]) and evt17_return(n.ast.body):
                    f_succ = [m for m, l in n.succ if l == "true"]
                    if f_succ and site[0].id not in cfg.reachable(f_succ[0]):
                        ok, how = True, f"dominated by `if {norm(n.ast.test)}` -> Evt17, return"
        if ok:
            rep.ok(rule, f"{fqd} :: {norm(c)}", how)
        else:
            rep.fail(rule, fqd, c, f"`{norm(c)}` takes the PDU type/length from the header although fewer than 6 bytes may have arrived (stream ended inside a PDU header) and nothing turns that case into Evt17: struct.error / IndexError escapes the state machine, or a garbage length is used - no connection-closed handling, no abort indication", mod=dul, node=c)


_STRUCT_W = {"B": 1, "b": 1, "H": 2, "h": 2, "L": 4, "l": 4, "I": 4, "i": 4, "Q": 8, "q": 8, "x": 1}


def header_fields(rd: ast.AST) -> dict:
    """{name: ((offset, width, endian), buffer text, node)} for the local names assigned from the header bytes:
    struct.unpack(fmt, buf) destructuring, struct.unpack(fmt, buf[a:b])[0], int.from_bytes(buf[a:b], 'big'), buf[i]"""
    out = {}
    for st in walk_no_nested(rd):
        if not isinstance(st, ast.Assign) or len(st.targets) != 1:
            continue
        tgt, v = st.targets[0], strip_cast(st.value)
        # struct.unpack(fmt, buf) -> tuple
        if isinstance(v, ast.Call) and (dotted(v.func) or "").endswith("unpack") and len(v.args) == 2 and isinstance(v.args[0], ast.Constant) and isinstance(v.args[0].value, str) and isinstance(tgt, ast.Tuple):
            fmt = v.args[0].value
            endian = "big" if fmt[:1] in (">", "!") else "little" if fmt[:1] == "<" else "native"
            codes = [c for c in fmt.lstrip("<>!=@") if c in _STRUCT_W]
            off = 0
            vals = []
            for c in codes:
                if c != "x":
                    vals.append((off, _STRUCT_W[c], endian))
                off += _STRUCT_W[c]
            base, lo = _slice_base(v.args[1])
            if len(vals) == len(tgt.elts):
                for e, (o, w, en) in zip(tgt.elts, vals):
                    if isinstance(e, ast.Name):
                        out[e.id] = ((o + lo, w, en), base, st)
            continue
        if not isinstance(tgt, ast.Name):
            continue
        # struct.unpack(fmt, buf[a:b])[0]
        if isinstance(v, ast.Subscript) and isinstance(v.value, ast.Call) and (dotted(v.value.func) or "").endswith("unpack") and len(v.value.args) == 2 and isinstance(v.value.args[0], ast.Constant) and norm(v.slice) == "0":
            fmt = str(v.value.args[0].value)
            endian = "big" if fmt[:1] in (">", "!") else "little" if fmt[:1] == "<" else "native"
            codes = [c for c in fmt.lstrip("<>!=@") if c in _STRUCT_W]
            base, lo = _slice_base(v.value.args[1])
            off = 0
            for c in codes:
                if c != "x":
                    out[tgt.id] = ((off + lo, _STRUCT_W[c], endian), base, st)
                    break
                off += 1
            continue
        # int.from_bytes(buf[a:b], "big")
        if isinstance(v, ast.Call) and norm(v.func) == "int.from_bytes" and v.args:
            base, lo, hi = _slice_base(v.args[0], want_hi=True)
            order = v.args[1] if len(v.args) > 1 else next((k.value for k in v.keywords if k.arg == "byteorder"), None)
            en = order.value if isinstance(order, ast.Constant) else "big" if order is None else "?"
            if hi is not None:
                out[tgt.id] = ((lo, hi - lo, en), base, st)
            continue
        # buf[i]
        if isinstance(v, ast.Subscript) and isinstance(v.slice, ast.Constant) and isinstance(v.slice.value, int) and isinstance(v.value, ast.Name):
            out[tgt.id] = ((v.slice.value, 1, "big"), v.value.id, st)
    return out


def _slice_base(e: ast.AST, want_hi: bool = False):
    e = strip_cast(e)
    if isinstance(e, ast.Call) and norm(e.func) in ("bytes", "bytearray", "memoryview") and len(e.args) == 1:
        e = e.args[0]
    lo, hi = 0, None
    if isinstance(e, ast.Subscript) and isinstance(e.slice, ast.Slice):
        sl = e.slice
        lo = sl.lower.value if isinstance(sl.lower, ast.Constant) else 0 if sl.lower is None else None
        hi = sl.upper.value if isinstance(sl.upper, ast.Constant) else None
        e = e.value
        if lo is None:
            lo = -1
    return (norm(e), lo, hi) if want_hi else (norm(e), lo)


def check_tls_portable(repo, rep, rule: str = "tls-portable") -> int:
    """The association's socket is a plain socket or - after wrap_socket() - an ssl.SSLSocket, and the same
    code drives both. SSLSocket.recv / recv_into / send / sendall raise ValueError for a non-zero `flags`
    argument (and ValueError is not the OSError the callers turn into 'connection closed'): a flags argument
    works on the plain socket of the tests and kills the provider thread on a TLS connection."""
    rep.rule(rule, "socket reads and writes on the association socket pass no flags argument (ssl.SSLSocket refuses them with ValueError)")
    tr = repo.mod("transport")
    n = 0
    for c in ast.walk(tr.tree):
        if not (isinstance(c, ast.Call) and isinstance(c.func, ast.Attribute) and c.func.attr in ("recv", "recv_into", "send", "sendall") and norm(c.func.value) in ("self.socket", "sock", "self.socket.socket")):
            continue
        n += 1
        limit = 2 if c.func.attr == "recv_into" else 1
        flags = list(c.args[limit:]) + [k.value for k in c.keywords if k.arg == "flags"]
        nonzero = [f for f in flags if not (isinstance(f, ast.Constant) and f.value == 0)]
        rep.check(not nonzero, rule, f"transport.{qualname(c)}", enclosing(c, (ast.stmt,)) or c, f"`{norm(c)[:60]}` passes flags ({norm(nonzero[0]) if nonzero else ''}) to a socket that is an ssl.SSLSocket on TLS connections: SSLSocket raises ValueError('non-zero flags not allowed'), which is not caught as a transport error - the provider thread takes its internal-error exit (an A-ABORT written without notification, no connection-close event) or dies", mod=tr, node=c)
    rep.floor("socket reads / writes in transport.py", n, 2)
    return n


def _check_recv(repo, rep, tr, fn, fq, n_param):
    """AssociationSocket.recv(n): (1) every socket read is bounded by what is still missing, (2) what is
    returned is exactly what was received (recv_model: symbolic length bookkeeping, any loop shape),
    (3) every read loop runs exactly while fewer than n bytes were read."""
    from ..recv_model import RecvModel, Refused

    ws = [w for w in walk_no_nested(fn) if isinstance(w, ast.While)]
    rep.need(len(ws) >= 1, f"{fq}: read loop not found")
    n_reads = 0
    for w in ws:
        t = w.test
        ok = isinstance(t, ast.Compare) and len(t.ops) == 1 and isinstance(t.ops[0], ast.Lt) and isinstance(t.left, ast.Name) and norm(t.comparators[0]) == n_param
        rep.check(ok, "recv-exact", fq, w, f"the read loop must continue exactly while fewer than {n_param} bytes were read", mod=tr)
        cnt = t.left.id if ok else "nr_read"
        remaining = {f"{n_param} - {cnt}"}
        reads = [c for c in ast.walk(w) if isinstance(c, ast.Call) and isinstance(c.func, ast.Attribute) and c.func.attr in ("recv", "recv_into") and norm(c.func.value) in ("self.socket", "sock")]
        # one socket read on every way through one iteration (two sites in the two branches of an if are one read)
        def _n_reads(node):
            return sum(1 for c_ in ast.walk(node) if any(c_ is r_ for r_ in reads))

        def _ways(stmts):
            """{(reads made, leaves the iteration early)} over the ways through a block"""
            cur = {(0, False)}
            for st_ in stmts:
                nxt_ = set()
                for k_, done_ in cur:
                    if done_:
                        nxt_.add((k_, True))
                        continue
                    if isinstance(st_, ast.If):
                        t_ = _n_reads(st_.test)
                        for b_ in (st_.body, st_.orelse):
                            for k2, d2 in _ways(b_):
                                nxt_.add((k_ + t_ + k2, d2))
                    elif isinstance(st_, (ast.With, ast.Try)):
                        blocks = [st_.body] if isinstance(st_, ast.With) else [st_.body + st_.orelse + st_.finalbody] + [h_.body + st_.finalbody for h_ in st_.handlers]
                        for b_ in blocks:
                            for k2, d2 in _ways(b_):
                                nxt_.add((k_ + k2, d2))
                    elif isinstance(st_, (ast.Return, ast.Break, ast.Continue, ast.Raise)):
                        nxt_.add((k_ + _n_reads(st_), True))
                    else:
                        nxt_.add((k_ + _n_reads(st_), False))
                cur = nxt_
            return cur

        per_path = {k_ for k_, done_ in _ways(w.body) if not (done_ and k_ == 0)}
        rep.check(per_path <= {1} and reads, "recv-exact", fq, f"socket reads per way through the loop at line {w.lineno}: {sorted(per_path)}", "one socket read per iteration (the count is re-tested before each)", mod=tr, node=w)
        # names that hold the remaining count
        for s_ in ast.walk(w):
            if isinstance(s_, ast.Assign) and isinstance(s_.targets[0], ast.Name) and norm(s_.value) in remaining:
                others = [o_ for o_ in ast.walk(fn) if isinstance(o_, (ast.Assign, ast.AugAssign)) and o_ is not s_ and any(norm(t_) == s_.targets[0].id for t_ in (o_.targets if isinstance(o_, ast.Assign) else [o_.target]))]
                if not others:
                    remaining = remaining | {s_.targets[0].id}
        for rd in reads:
            n_reads += 1
            if rd.func.attr == "recv_into":
                # filling a slice of a buffer pre-allocated with n bytes: the slice cannot reach past the buffer
                tgt = strip_cast(rd.args[0]) if rd.args else None
                base = tgt.value if isinstance(tgt, ast.Subscript) else tgt
                bname = norm(base) if base is not None else ""
                allocs = [s_ for s_ in walk_no_nested(fn) if isinstance(s_, ast.Assign) and norm(s_.targets[0]) == bname]
                views = [s_ for s_ in allocs if isinstance(strip_cast(s_.value), ast.Call) and norm(strip_cast(s_.value).func) == "memoryview"]
                if views:
                    bname = norm(strip_cast(views[0].value).args[0])
                    allocs = [s_ for s_ in walk_no_nested(fn) if isinstance(s_, ast.Assign) and norm(s_.targets[0]) == bname]
                # the allocation that reaches this loop: the last one before it in the loop's own block
                blk = next((b_ for p_ in ast.walk(fn) for b_ in (getattr(p_, "body", None), getattr(p_, "orelse", None)) if isinstance(b_, list) and any(x is w for x in b_)), [])
                pre = [s_ for s_ in blk[: next((k_ for k_, x in enumerate(blk) if x is w), 0)] if s_ in allocs]
                allocs = pre[-1:] if pre else allocs
                okb = bool(allocs) and all(isinstance(strip_cast(s_.value), ast.Call) and norm(strip_cast(s_.value).func) == "bytearray" and len(strip_cast(s_.value).args) == 1 and norm(strip_cast(s_.value).args[0]) == n_param for s_ in allocs) and isinstance(tgt, ast.Subscript) and isinstance(tgt.slice, ast.Slice) and tgt.slice.lower is not None and norm(tgt.slice.lower) == cnt
                rep.check(okb, "recv-exact", fq, enclosing(rd, (ast.stmt,)), f"recv_into must fill a slice starting at the count of a buffer allocated with exactly {n_param} bytes: anything larger lets bytes of the following PDU into this one", mod=tr, node=rd)
                continue
            size = rd.args[0] if rd.args else None
            bounded, how = False, ""
            if size is not None and norm(size) in remaining:
                bounded, how = True, "exact remaining count"
            elif isinstance(size, ast.Call) and dotted(size.func) == "min" and any(norm(a_) in remaining for a_ in size.args):
                bounded, how = True, "min(.., remaining)"
            elif isinstance(size, ast.Name):
                var = size.id
                cfg = CFG(fn, body=body_nodoc(fn), may_raise=lambda n: False)
                rn = cfg.nodes_containing(rd)[0]

                def transfer(n, st, var=var, remaining=remaining):
                    if n.kind == "stmt" and isinstance(n.ast, ast.Assign) and norm(n.ast.targets[0]) == var:
                        v = n.ast.value
                        if norm(v) in remaining or (isinstance(v, ast.Call) and dotted(v.func) == "min" and any(norm(a_) in remaining for a_ in v.args)):
                            return [("bounded", None)]
                        return [("unbounded", None)]
                    if n.kind == "test":
                        tt = n.ast.test
                        if isinstance(tt, ast.Compare) and len(tt.ops) == 1:
                            l, r = norm(tt.left).strip("()"), norm(tt.comparators[0]).strip("()")
                            if (l in remaining and r == var and isinstance(tt.ops[0], (ast.Lt, ast.LtE))) or (l == var and r in remaining and isinstance(tt.ops[0], (ast.Gt, ast.GtE))):
                                return [(st, {"true"}), ("bounded", {"false"})]
                            if (l in remaining and r == var and isinstance(tt.ops[0], (ast.Gt, ast.GtE))) or (l == var and r in remaining and isinstance(tt.ops[0], (ast.Lt, ast.LtE))):
                                return [("bounded", {"true"}), (st, {"false"})]
                    return [(st, None)]

                ins, pred = typestate(cfg, "unbounded", transfer)
                bounded = ins.get(rn.id, set()) == {"bounded"}
                how = "if-clamp"
                if not bounded:
                    rep.fail("recv-exact", fq, enclosing(rd, (ast.stmt,)), f"socket.recv may be asked for more than the {n_param} - {cnt} bytes still missing: bytes of the following PDU would be swallowed into this one", mod=tr, node=rd, path=witness(cfg, pred, rn, "unbounded"))
                    continue
            if bounded:
                rep.ok("recv-exact", f"{fq} :: socket.recv size at line {rd.lineno} bounded by the remaining count", how)
            else:
                rep.fail("recv-exact", fq, enclosing(rd, (ast.stmt,)), f"socket.recv size {norm(size) if size is not None else '?'} is not bounded by the remaining count", mod=tr, node=rd)
    rep.floor("socket reads in recv()", n_reads, 1)
    # what is returned is what was received
    try:
        rm_ = RecvModel(fn, n_param)
        rets = rm_.run()
    except Refused as exc:
        rep.defer(f"{fq}: length bookkeeping not decidable ({exc})")
        return
    for w_, ctr_, c0_ in rm_.counter_issues:
        rep.fail("recv-exact", fq, w_, f"the loop is steered by `{ctr_}`, which is {'not a function of the bytes received' if c0_ is None else c0_.show() + ' when T bytes were received'}: it must count exactly the bytes the socket delivered, otherwise the loop stops before (or runs past) the {n_param} bytes asked for", mod=tr, node=w_)
    rep.need(bool(rets), f"{fq}: no return found")
    seen = set()
    for node, L, tot in rets:
        key = (node.lineno, None if L is None else L.show(), tot.show())
        if key in seen:
            continue
        seen.add(key)
        if L is None:
            rep.defer(f"{fq}: length of `{norm(node)}` not determined")
            continue
        rep.check(L == tot, "recv-exact", fq, f"{norm(node)} (line {node.lineno}): len = {L.show()}, received = {tot.show()}", f"recv() returns a buffer of length {L.show()} when {tot.show()} bytes were received (T = bytes received so far, n = bytes asked for): the caller tells a complete PDU from a connection that closed part-way by that length - a buffer padded to n passes for a complete PDU and is decoded", mod=tr, node=node)
