"""C30 - storage apps never write outside their storage directory."""

from __future__ import annotations

import ast
import re
import re._parser as sre_parse  # regex AST of *literal* patterns found in the analysed source

from ..loader import AnalysisError, Repo, body_nodoc, dotted, norm, parent, walk_no_nested, enclosing, qualname, strip_cast
from ..report import Report

LEVEL = "other"
EXPLANATION = (
    "Path taint analysis over every function of pynetdicom/apps (tests excluded) that contains a "
    "file-system write sink (open() for writing, Dataset.save_as, os.makedirs/remove/unlink/rename, "
    "shutil.*, Path.write_*/mkdir/unlink) or hands a path to the qrscp database (add_instance). "
    "Sources: everything reachable from a handler's `event` parameter except the local objects "
    "(assoc, timestamp, context). Values are classified U (operator/library controlled), C (peer "
    "influenced but free of path separators: the result of re.sub whose literal pattern - parsed with "
    "the regex parser - is a single negated character class, the replacement and the allowed set "
    "excluding '/', '\\\\', ':' and NUL), P (os.path.join of a U base with U/C components, abspath of "
    "such) and T (tainted). A sink's path argument must be U, C or P; a sink that also acts on directories (rmdir, "
    "rmtree, rename) additionally refuses a component that may be '', '.' or '..'. For write sinks "
    "those three names denote existing directories (the storage directory or its parent): opening "
    "them for writing fails without creating or modifying anything. Decides the property for every "
    "dataset because no rule depends on the value. Not decided: symlinks planted inside the storage "
    "directory by a local user, the database engine's own files."
    " Fifth round (end): The taint engine follows module-level helpers and flags paths that went through os.path.abspath / normpath before a write (lexical '..' collapsing); (config-faithful) the configuration is parsed with configparser's standard value syntax."
)

SAFE_EVENT_ATTRS = {"assoc", "timestamp", "context", "event"}
WRITE_SINK_FUNCS = {"os.makedirs": 0, "os.mkdir": 0}
# os.remove / os.unlink refuse directories, so a '', '.' or '..' component (an existing directory) is
# harmless for them exactly as for a write-open; the functions below act on directories too
FILE_ONLY_FUNCS = {"os.remove": (0,), "os.unlink": (0,)}
DESTRUCTIVE_FUNCS = {"os.rmdir": (0,), "shutil.rmtree": (0,), "os.rename": (0, 1), "os.replace": (0, 1), "shutil.move": (0, 1), "shutil.copy": (1,), "shutil.copyfile": (1,), "shutil.copy2": (1,)}
PATH_WRITE_METHODS = {"save_as", "write_bytes", "write_text", "mkdir", "touch"}
FORBIDDEN = ["/", "\\", ":", "\0"]


class V:
    """abstract value: kind in U/C/P/T, dots = the last path component may be '', '.' or '..'"""

    def __init__(self, kind, dots=False, why="", lex=False):
        # lex: os.path.abspath / normpath was applied to (part of) the path - '..' components were collapsed
        # *textually*, which names another directory than the OS would reach when a component before the '..'
        # is a symbolic link
        self.kind, self.dots, self.why, self.lex = kind, dots, why, lex

    def __repr__(self):
        return f"{self.kind}{'(dots?)' if self.dots else ''}{'(normalised lexically)' if self.lex else ''}"

    def with_lex(self, lex=True):
        return V(self.kind, self.dots, self.why, lex or self.lex)


U = V("U")


def sanitiser(call: ast.Call):
    """re.sub(<literal negated class>, <literal repl>, x) -> (ok, may_be_dots, description) or None"""
    if dotted(call.func) != "re.sub" or len(call.args) < 3:
        return None
    pat, repl = call.args[0], call.args[1]
    if not (isinstance(pat, ast.Constant) and isinstance(pat.value, str) and isinstance(repl, ast.Constant) and isinstance(repl.value, str)):
        return (False, True, "pattern / replacement is not a literal")
    try:
        tree = sre_parse.parse(pat.value)
    except Exception as exc:  # not a valid regex: the app would crash, not sanitise
        return (False, True, f"pattern does not parse: {exc}")
    items = list(tree)
    if len(items) != 1:
        return (False, True, f"pattern {pat.value!r} is not a single character class")
    op, arg = items[0]
    if str(op) in ("MAX_REPEAT", "MIN_REPEAT"):
        lo, hi, sub = arg
        sub = list(sub)
        if lo < 1 or len(sub) != 1:
            return (False, True, f"pattern {pat.value!r}: repeat of a non-class")
        op, arg = sub[0]
    if str(op) != "IN" or not arg or str(arg[0][0]) != "NEGATE":
        return (False, True, f"pattern {pat.value!r} is not a negated character class: characters are removed by listing them, so anything not listed (a separator) passes")
    bad_repl = [c for c in FORBIDDEN if c in repl.value]
    if bad_repl:
        return (False, True, f"replacement {repl.value!r} contains {bad_repl}")
    # allowed set = complement of the negated class; evaluate the literal class on the forbidden characters
    rx = re.compile(pat.value)
    passed = [c for c in FORBIDDEN if rx.sub(repl.value, c) == c]
    if passed:
        return (False, True, f"pattern {pat.value!r} lets {[repr(c) for c in passed]} through")
    dots = rx.sub(repl.value, ".") == "."
    return (True, dots, f"re.sub({pat.value!r}, {repl.value!r}, .)")


def _must_exit(stmts) -> bool:
    for s in stmts:
        if isinstance(s, (ast.Return, ast.Raise, ast.Continue)):
            return True
        if isinstance(s, ast.If) and s.orelse and _must_exit(s.body) and _must_exit(s.orelse):
            return True
    return False


NORMALISERS = ("os.path.abspath", "os.path.realpath", "os.path.normpath")


def containment_guards(fn: ast.FunctionDef) -> dict[str, tuple[ast.If, str]]:
    """names of `fn` that hold a *normalised* path (abspath / realpath / normpath, bound once) and are
    checked against a base directory by a guard whose failing branch leaves the function, the guard
    standing in the function's own body after the binding:
        os.path.commonpath([base, p]) != base   |   not p.startswith(base + os.sep)   |   not p.is_relative_to(base)
    (character-wise os.path.commonprefix is *not* a containment test: '/srv/store' is a prefix of
    '/srv/store_old'; neither is startswith(base) without the separator).  -> {name: (guard, base text)}"""
    out = {}
    binds: dict[str, list[ast.AST]] = {}
    for s_ in walk_no_nested(fn):
        if isinstance(s_, ast.Assign) and len(s_.targets) == 1 and isinstance(s_.targets[0], ast.Name):
            binds.setdefault(s_.targets[0].id, []).append(s_)
    for i in body_nodoc(fn):
        if not isinstance(i, ast.If):
            continue
        t, neg = i.test, False
        while isinstance(t, ast.UnaryOp) and isinstance(t.op, ast.Not):
            t, neg = t.operand, not neg
        p = base = None
        if isinstance(t, ast.Compare) and len(t.ops) == 1 and isinstance(t.ops[0], (ast.Eq, ast.NotEq)):
            l, r = strip_cast(t.left), strip_cast(t.comparators[0])
            call, other = (l, r) if isinstance(l, ast.Call) else (r, l)
            if isinstance(call, ast.Call) and dotted(call.func) == "os.path.commonpath" and len(call.args) == 1 and isinstance(call.args[0], (ast.List, ast.Tuple)) and len(call.args[0].elts) == 2:
                names = [norm(strip_cast(e)) for e in call.args[0].elts]
                if norm(other) in names:
                    base = norm(other)
                    p = [n for n in names if n != base]
                    p = p[0] if len(p) == 1 else None
                    if isinstance(t.ops[0], ast.NotEq):
                        neg = not neg
        elif isinstance(t, ast.Call) and isinstance(t.func, ast.Attribute) and t.func.attr == "startswith" and len(t.args) == 1:
            a = strip_cast(t.args[0])
            ok_sep = False
            if isinstance(a, ast.BinOp) and isinstance(a.op, ast.Add) and (norm(a.right) in ("os.sep", "os.path.sep") or (isinstance(a.right, ast.Constant) and a.right.value in ("/", "\\"))):
                base, ok_sep = norm(a.left), True
            elif isinstance(a, ast.Call) and dotted(a.func) == "os.path.join" and len(a.args) == 2 and isinstance(a.args[1], ast.Constant) and a.args[1].value == "":
                base, ok_sep = norm(a.args[0]), True
            if ok_sep:
                p = norm(t.func.value)
        elif isinstance(t, ast.Call) and isinstance(t.func, ast.Attribute) and t.func.attr == "is_relative_to" and len(t.args) == 1:
            p, base = norm(t.func.value), norm(t.args[0])
        if p is None or base is None:
            continue
        # `neg` True: the test holds when the path is NOT contained -> the body is the failing branch
        failing = i.body if neg else i.orelse
        if not failing or not _must_exit(failing):
            continue
        b = binds.get(p, [])
        if len(b) != 1 or b[0].lineno >= i.lineno:
            continue
        v = strip_cast(b[0].value)
        if not (isinstance(v, ast.Call) and (dotted(v.func) in NORMALISERS or (isinstance(v.func, ast.Attribute) and v.func.attr == "resolve"))):
            continue
        out[p] = (i, base)
    return out


def helper_summaries(module_tree: ast.Module) -> dict[str, str]:
    """module-level functions every `return` of which hands back None or a name validated by a containment
    guard against one of the function's own parameters: -> {function name: base parameter}"""
    res = {}
    for f in module_tree.body:
        if not isinstance(f, ast.FunctionDef):
            continue
        g = containment_guards(f)
        if not g:
            continue
        rets = [r for r in walk_no_nested(f) if isinstance(r, ast.Return)]
        params = [a.arg for a in f.args.args]
        bases = set()
        ok = bool(rets)
        for r in rets:
            if r.value is None or (isinstance(r.value, ast.Constant) and r.value.value is None):
                continue
            nm = norm(r.value)
            if nm in g and r.lineno > g[nm][0].lineno and g[nm][1] in params:
                bases.add(g[nm][1])
            else:
                ok = False
        # the base itself may be re-bound to its normalised form (`base = os.path.abspath(base)`): still the parameter
        if ok and len(bases) == 1:
            res[f.name] = bases.pop()
    return res


class Taint:
    def __init__(self, fn: ast.FunctionDef, sources: set[str], helpers: dict[str, tuple[str, list[str]]] | None = None, init_env: dict | None = None, funcs: dict | None = None, depth: int = 0):
        self.fn = fn
        self.sources = sources
        self.env: dict[str, V] = dict(init_env or {})
        self.helpers = helpers or {}
        self.funcs = {k: v for k, v in (funcs or {}).items() if k not in self.helpers}
        self.depth = depth
        self.guards = containment_guards(fn)
        self.fixpoint()
        # a guarded name is inside its base on every path that gets past the guard - when the base is not
        # itself peer-controlled
        for nm, (g, base) in self.guards.items():
            try:
                bexpr = ast.parse(base, mode="eval").body
            except SyntaxError:
                continue
            if self.value(bexpr).kind in ("U", "P"):
                self.env[nm] = V("P", dots=True, why=f"contained in {base} by the guard at line {g.lineno}")

    def fixpoint(self):
        for _ in range(12):
            changed = False
            for s in walk_no_nested(self.fn):
                tgts, val = [], None
                if isinstance(s, ast.Assign):
                    tgts, val = s.targets, s.value
                elif isinstance(s, ast.AnnAssign) and s.value is not None:
                    tgts, val = [s.target], s.value
                elif isinstance(s, ast.AugAssign):
                    tgts, val = [s.target], ast.BinOp(left=s.target, op=s.op, right=s.value)
                elif isinstance(s, (ast.For, ast.comprehension)):
                    tgts, val = [s.target], s.iter
                elif isinstance(s, ast.withitem) and s.optional_vars is not None:
                    tgts, val = [s.optional_vars], s.context_expr
                elif isinstance(s, ast.NamedExpr):
                    tgts, val = [s.target], s.value
                if val is None:
                    continue
                v = self.value(val)
                for t in tgts:
                    for nm in [n for n in ast.walk(t) if isinstance(n, ast.Name)]:
                        old = self.env.get(nm.id)
                        new = v if old is None else join(old, v)
                        if old is None or (old.kind, old.dots) != (new.kind, new.dots):
                            self.env[nm.id] = new
                            changed = True
            if not changed:
                return
        raise AnalysisError(f"taint fixpoint did not converge in {self.fn.name}")

    def value(self, e: ast.AST) -> V:
        e = strip_cast(e)
        if isinstance(e, ast.Constant):
            return V("U", dots=isinstance(e.value, str) and e.value.strip(".") == "")
        if isinstance(e, ast.Name):
            if e.id in self.sources:
                return V("T", why=f"parameter {e.id}")
            return self.env.get(e.id, U)
        if isinstance(e, ast.Attribute):
            b = strip_cast(e.value)
            if isinstance(b, ast.Name) and b.id in self.sources and e.attr in SAFE_EVENT_ATTRS:
                return U
            if e.attr in PEER_COLUMNS:
                # a column of the qrscp index that add_instance() fills from the peer's data set as it came (the
                # keys are matched against C-FIND identifiers, so they are stored raw); only `filename` holds the
                # sanitised name the instance was written under
                return V("T", why=f"database column {e.attr}, stored raw from the peer's data set")
            return self._derived(self.value(e.value))
        if isinstance(e, ast.Subscript):
            b = self.value(e.value)
            if b.kind == "U":
                return U  # lookup in an operator/library table: the *value* comes from the table
            return self._derived(b)
        if isinstance(e, ast.JoinedStr):
            parts = []
            literal_nondot = False
            for p in e.values:
                if isinstance(p, ast.Constant):
                    if any(c in p.value for c in "/\\"):
                        parts.append(V("U"))
                    if p.value.strip(".") != "":
                        literal_nondot = True
                    continue
                parts.append(self.value(p.value))
            return self._concat(parts, literal_nondot)
        if isinstance(e, ast.FormattedValue):
            return self.value(e.value)
        if isinstance(e, ast.BinOp) and isinstance(e.op, (ast.Add, ast.Mod)):
            l, r = self.value(e.left), self.value(e.right)
            nondot = isinstance(e.left, ast.Constant) and isinstance(e.left.value, str) and e.left.value.strip(".") != ""
            return self._concat([l, r], nondot)
        if isinstance(e, ast.BinOp) and isinstance(e.op, ast.Div):
            # pathlib: base / name
            return self._pathjoin([self.value(e.left), self.value(e.right)])
        if isinstance(e, (ast.Tuple, ast.List, ast.Set)):
            out = U
            for x in e.elts:
                out = join(out, self.value(x))
            return out
        if isinstance(e, ast.IfExp):
            return join(self.value(e.body), self.value(e.orelse))
        if isinstance(e, ast.BoolOp):
            out = None
            for x in e.values:
                out = self.value(x) if out is None else join(out, self.value(x))
            return out
        if isinstance(e, ast.Starred):
            return self.value(e.value)
        if isinstance(e, ast.Call):
            fn = dotted(e.func) or ""
            s = sanitiser(e)
            if s is not None:
                arg = self.value(e.args[2])
                if arg.kind in ("U",):
                    return arg
                if s[0]:
                    return V("C", dots=s[1], why=s[2])
                return V("T", why=f"insufficient sanitiser: {s[2]}")
            if isinstance(e.func, ast.Name) and e.func.id in self.helpers:
                base_param, params = self.helpers[e.func.id]
                k = params.index(base_param)
                barg = e.args[k] if k < len(e.args) else next((kw.value for kw in e.keywords if kw.arg == base_param), None)
                if barg is not None and self.value(barg).kind in ("U", "P"):
                    return V("P", dots=True, why=f"{e.func.id}() returns None or a path it checked to be inside {norm(barg)}")
            if fn in ("os.path.join", "Path", "pathlib.Path", "PurePath"):
                return self._pathjoin([self.value(a) for a in e.args])
            if fn in ("os.path.abspath", "os.path.normpath"):
                return self.value(e.args[0]).with_lex() if e.args else U
            if fn in ("os.path.realpath", "os.fspath", "str", "os.path.expanduser", "os.path.dirname"):
                return self.value(e.args[0]) if e.args else U
            if isinstance(e.func, ast.Name) and e.func.id in self.funcs and self.depth < 3 and e.func.id != self.fn.name:
                # a function of the same module: its returns, with its parameters bound to the arguments' values
                f_ = self.funcs[e.func.id]
                ps_ = [a.arg for a in f_.args.args]
                init = {}
                for p_, a_ in zip(ps_, e.args):
                    init[p_] = self.value(a_)
                for k_ in e.keywords:
                    if k_.arg in ps_:
                        init[k_.arg] = self.value(k_.value)
                rets_ = [r for r in walk_no_nested(f_) if isinstance(r, ast.Return) and r.value is not None]
                if rets_:
                    sub = Taint(f_, set(), self.helpers, init_env=init, funcs=self.funcs, depth=self.depth + 1)
                    out = None
                    for r in rets_:
                        v_ = sub.value(r.value)
                        out = v_ if out is None else join(out, v_)
                    return out
            if fn in ("os.path.basename",):
                v = self.value(e.args[0])
                return v if v.kind != "T" else V("T", why=v.why)  # basename('..') is still '..'; keep T (not a sanitiser on Windows paths)
            if fn in ("len", "int", "bool", "isinstance", "hasattr", "os.path.exists", "os.path.isdir", "os.path.isfile", "float"):
                return U
            # any other call: tainted if the receiver or any argument is
            vs = [self.value(a) for a in e.args] + [self.value(k.value) for k in e.keywords]
            if isinstance(e.func, ast.Attribute):
                vs.append(self.value(e.func.value))
            out = U
            for v in vs:
                out = join(out, self._derived(v))
            return out
        if isinstance(e, (ast.ListComp, ast.GeneratorExp, ast.SetComp)):
            return self._derived(self.value(e.elt))
        if isinstance(e, ast.Compare) or isinstance(e, ast.UnaryOp) and isinstance(e.op, ast.Not):
            return U
        if isinstance(e, ast.UnaryOp):
            return self.value(e.operand)
        if isinstance(e, (ast.Dict, ast.DictComp, ast.Lambda, ast.Await, ast.Yield, ast.YieldFrom, ast.Slice, ast.BinOp)):
            out = U
            for c in ast.iter_child_nodes(e):
                if isinstance(c, ast.expr):
                    out = join(out, self._derived(self.value(c)))
            return out
        raise AnalysisError(f"taint: unmodelled expression {type(e).__name__}: {norm(e)[:60]}")

    @staticmethod
    def _derived(v: V) -> V:
        """a value computed from v by an unmodelled operation"""
        if v.kind == "U":
            return U.with_lex(v.lex) if v.lex else U
        return V("T", why=v.why or "derived from peer data", lex=v.lex)

    @staticmethod
    def _concat(parts: list[V], literal_nondot: bool) -> V:
        return Taint._concat0(parts, literal_nondot).with_lex(any(p.lex for p in parts))

    @staticmethod
    def _pathjoin(parts: list[V]) -> V:
        return Taint._pathjoin0(parts).with_lex(any(p.lex for p in parts))

    @staticmethod
    def _concat0(parts: list[V], literal_nondot: bool) -> V:
        if any(p.kind == "T" for p in parts):
            return V("T", why=next(p.why for p in parts if p.kind == "T"))
        if any(p.kind == "P" for p in parts):
            # a path with text appended: still inside the base as long as the appended parts are separator-free
            return V("P", dots=False)
        if any(p.kind == "C" for p in parts):
            return V("C", dots=not literal_nondot, why="; ".join(p.why for p in parts if p.why))
        return V("U", dots=not literal_nondot and all(p.dots for p in parts) if parts else False)

    @staticmethod
    def _pathjoin0(parts: list[V]) -> V:
        if not parts:
            return U
        if any(p.kind == "T" for p in parts):
            return V("T", why=next(p.why for p in parts if p.kind == "T"))
        if all(p.kind == "U" for p in parts):
            return V("U", dots=parts[-1].dots)
        # a peer-influenced component that is not the last one is a *directory* name: separator-free is not enough
        # there, it must not be '..' either (the components after it are then created outside the base)
        for p in parts[:-1]:
            if p.kind == "C" and p.dots:
                return V("T", why=f"a peer-influenced directory component that may be '..' ({p.why})")
            if p.kind == "P" and p.dots:
                return V("T", why="a base that may end in a peer-chosen '..'")
        if parts[0].kind in ("U", "P"):
            return V("P", dots=parts[-1].dots and parts[-1].kind == "C", why="join(base, separator-free name)")
        # first component peer-influenced: relative to the working directory
        return V("P", dots=parts[-1].dots, why="relative join of separator-free names")


PEER_COLUMNS: set[str] = set()


def join(a: V, b: V) -> V:
    order = {"U": 0, "C": 1, "P": 1, "T": 3}
    lex = a.lex or b.lex
    if a.kind == b.kind:
        return V(a.kind, a.dots or b.dots, a.why or b.why, lex)
    hi = a if order[a.kind] >= order[b.kind] else b
    if {a.kind, b.kind} == {"C", "P"}:
        return V("P", a.dots or b.dots, a.why or b.why, lex)
    return V(hi.kind, a.dots or b.dots, hi.why, lex)


def sinks_in(fn: ast.FunctionDef):
    """-> list of (call, [path arg exprs], destructive, description)"""
    out = []
    for c in walk_no_nested(fn):
        if not isinstance(c, ast.Call):
            continue
        name = dotted(c.func) or ""
        if name in ("open", "io.open", "builtins.open"):
            mode = None
            if len(c.args) >= 2:
                mode = c.args[1]
            for k in c.keywords:
                if k.arg == "mode":
                    mode = k.value
            if mode is None:
                continue  # default 'r'
            if isinstance(mode, ast.Constant) and isinstance(mode.value, str) and not any(ch in mode.value for ch in "wax+"):
                continue
            if c.args:
                out.append((c, [c.args[0]], False, "open(.., write mode)"))
        elif name in WRITE_SINK_FUNCS:
            if c.args:
                out.append((c, [c.args[WRITE_SINK_FUNCS[name]]], False, name))
        elif name in FILE_ONLY_FUNCS:
            args = [c.args[i] for i in FILE_ONLY_FUNCS[name] if i < len(c.args)]
            if args:
                out.append((c, args, False, name))
        elif name in DESTRUCTIVE_FUNCS:
            args = [c.args[i] for i in DESTRUCTIVE_FUNCS[name] if i < len(c.args)]
            if args:
                out.append((c, args, True, name))
        elif isinstance(c.func, ast.Attribute) and c.func.attr in PATH_WRITE_METHODS:
            if c.func.attr == "save_as":
                if c.args:
                    out.append((c, [c.args[0]], False, ".save_as(path)"))
                else:
                    kw = [k.value for k in c.keywords if k.arg == "filename"]
                    if kw:
                        out.append((c, kw, False, ".save_as(filename=)"))
            else:
                out.append((c, [c.func.value], False, f"Path.{c.func.attr}()"))
        elif isinstance(c.func, ast.Attribute) and c.func.attr == "open" and (c.args or c.keywords):
            # Path.open("wb")
            mode = c.args[0] if c.args else next((k.value for k in c.keywords if k.arg == "mode"), None)
            if isinstance(mode, ast.Constant) and isinstance(mode.value, str) and any(ch in mode.value for ch in "wax+"):
                out.append((c, [c.func.value], False, "Path.open(write mode)"))
        elif name.split(".")[-1] == "add_instance" and len(c.args) >= 3:
            out.append((c, [c.args[2]], False, "add_instance(.., path): the stored path is later passed to os.remove by qrscp --clean"))
    return out


def run(repo: Repo, rep: Report, tier: str) -> None:
    rep.rule("path-taint", "the path argument of every file-system write sink in pynetdicom/apps is operator-controlled, a separator-free name, or a join of an operator-controlled base with separator-free names")
    rep.rule("sanitiser", "a re.sub used on peer data before a sink is a single negated character class whose complement and replacement exclude '/', '\\', ':' and NUL")
    n_funcs = n_sinks = n_handlers = n_san = 0
    mods = [(n, m) for n, m in sorted(repo.modules.items()) if n.startswith("pynetdicom.apps.") and ".tests" not in n]
    # the raw (peer-filled) columns of the qrscp index: the values of db._TRANSLATION plus the two UID columns
    PEER_COLUMNS.clear()
    try:
        from ..consteval import Evaluator
        tr_ = Evaluator(repo, repo.mod("apps.qrscp.db")).name("_TRANSLATION")
        PEER_COLUMNS.update(v for v in tr_.values() if isinstance(v, str))
    except Exception:
        pass
    PEER_COLUMNS.update({"sop_instance_uid", "sop_class_uid", "transfer_syntax_uid", "study_instance_uid", "series_instance_uid", "patient_id"})
    rep.counters["raw database columns treated as peer data"] = len(PEER_COLUMNS)
    rep.floor("app modules", len(mods), 8)
    tainted_sinks = 0
    for mname, m in mods:
        short = mname.replace("pynetdicom.", "")
        for fn in [f for f in ast.walk(m.tree) if isinstance(f, (ast.FunctionDef, ast.AsyncFunctionDef))]:
            sk = sinks_in(fn)
            if not sk:
                continue
            n_funcs += 1
            params = [a.arg for a in fn.args.args + fn.args.kwonlyargs]
            sources = {p for p in params if p == "event"}
            if sources:
                n_handlers += 1
            rep.saw("functions with a write sink", f"{short}.{qualname(fn) or fn.name}")
            hs = helper_summaries(m.tree)
            helpers = {name: (bp, [a.arg for a in next(f for f in m.tree.body if isinstance(f, ast.FunctionDef) and f.name == name).args.args]) for name, bp in hs.items()}
            mfuncs = {f.name: f for f in m.tree.body if isinstance(f, ast.FunctionDef)}
            ta = Taint(fn, sources, helpers, funcs=mfuncs)
            fq = f"{short}.{qualname(fn) or fn.name}"
            for c in walk_no_nested(fn):
                if isinstance(c, ast.Call):
                    s = sanitiser(c)
                    if s is not None and ta.value(c.args[2]).kind != "U":
                        n_san += 1
                        rep.check(s[0], "sanitiser", fq, c, f"{s[2]}: a peer-supplied value sanitised this way can still carry a path separator into a file name", mod=m, node=c)
            for c, args, destructive, desc in sk:
                for a in args:
                    n_sinks += 1
                    v = ta.value(a)
                    st = enclosing(c, (ast.stmt,)) or c
                    if v.lex and "add_instance" not in desc:
                        rep.fail("path-taint", fq, st, f"{desc}: the path {norm(a)!r} went through os.path.abspath / normpath before the write: '..' components of the configured directory are collapsed textually, which names a different directory than the operating system reaches when a component before the '..' is a symbolic link - the instance is written outside the configured storage directory (hand the configured path to the OS as it is, or resolve it with os.path.realpath)", mod=m, node=c)
                    elif v.kind == "T":
                        tainted_sinks += 1
                        rep.fail("path-taint", fq, st, f"{desc}: the path {norm(a)!r} is built from peer-controlled data ({v.why}) without a sanitiser: a SOP Instance UID such as '../x' or an absolute path writes outside the storage directory", mod=m, node=c)
                    elif destructive and v.dots and v.kind != "U":
                        rep.fail("path-taint", fq, st, f"{desc}: the peer-influenced name in {norm(a)!r} may be '', '.' or '..', which this sink would act on", mod=m, node=c)
                    else:
                        rep.ok("path-taint", f"{fq} :: {norm(st)[:70]}", f"{desc}: path class {v}")
    # a directory handed on to a function that writes into it: the fields of a parameter that sink functions use as
    # the base of their paths (args.output_directory ...) are themselves sinks for whoever assigns them from peer data
    base_fields = set()
    for mname, m in mods:
        for fn in [f for f in ast.walk(m.tree) if isinstance(f, (ast.FunctionDef, ast.AsyncFunctionDef)) and sinks_in(f)]:
            params = {a.arg for a in fn.args.args + fn.args.kwonlyargs} - {"event", "self"}
            for c in walk_no_nested(fn):
                if isinstance(c, ast.Call) and (dotted(c.func) or "") in ("os.path.join", "Path", "pathlib.Path", "os.path.abspath", "os.makedirs"):
                    for a in ast.walk(c):
                        if isinstance(a, ast.Attribute) and isinstance(a.value, ast.Name) and a.value.id in params:
                            base_fields.add(a.attr)
    rep.counters["configuration fields used as the base of written paths"] = len(base_fields)
    n_dir = 0
    for mname, m in mods:
        short = mname.replace("pynetdicom.", "")
        for fn in [f for f in ast.walk(m.tree) if isinstance(f, (ast.FunctionDef, ast.AsyncFunctionDef)) and any(a.arg == "event" for a in f.args.args)]:
            wr = [s_ for s_ in walk_no_nested(fn) if isinstance(s_, ast.Assign) and any(isinstance(t_, ast.Attribute) and t_.attr in base_fields for t_ in s_.targets)]
            wr += [c_ for c_ in walk_no_nested(fn) if isinstance(c_, ast.Call) and dotted(c_.func) == "setattr" and len(c_.args) == 3 and isinstance(c_.args[1], ast.Constant) and c_.args[1].value in base_fields]
            if not wr:
                continue
            hs = helper_summaries(m.tree)
            helpers = {name: (bp, [a.arg for a in next(f for f in m.tree.body if isinstance(f, ast.FunctionDef) and f.name == name).args.args]) for name, bp in hs.items()}
            ta = Taint(fn, {"event"}, helpers)
            fq = f"{short}.{qualname(fn) or fn.name}"
            for s_ in wr:
                n_dir += 1
                val = s_.value if isinstance(s_, ast.Assign) else s_.args[2]
                v = ta.value(val)
                bad = v.kind == "T" or (v.kind in ("C", "P") and v.dots)
                rep.check(not bad, "path-taint", fq, s_ if isinstance(s_, ast.stmt) else enclosing(s_, (ast.stmt,)), f"the directory handed to the storing code ({norm(val)[:60]}) has a component taken from the peer's data set that {'is not sanitised (' + v.why + ')' if v.kind == 'T' else 'is separator-free but may be `..`'}: the instance is then written outside the configured storage directory (a Study Instance UID of '..' selects the parent directory)", mod=m, node=val)
    rep.counters["directory fields assigned in handlers"] = n_dir
    rep.floor("functions with write sinks", n_funcs, 4)
    rep.floor("write sinks", n_sinks, 6)
    rep.floor("handlers (event parameter) with write sinks", n_handlers, 2)
    rep.floor("sanitiser applications on peer data", n_san, 1)
    rep.counters["tainted sinks"] = tainted_sinks
    check_configured_dir_used(repo, rep)
    check_config_read_faithfully(repo, rep)


def check_config_read_faithfully(repo: Repo, rep: Report) -> None:
    """qrscp's storage directory and database file are configuration values. 'Inside the configured directory' means
    the directory the configuration *denotes*: configparser's value syntax (%(name)s interpolation, as the shipped
    default.ini documents) is part of it. A parser constructed with interpolation switched off or replaced, a
    RawConfigParser, or a raw read of a location key stores into a directory literally named after the unexpanded
    text instead of the one the operator configured."""
    rep.rule("config-faithful", "the configuration the storage locations come from is read with configparser's standard value syntax (no interpolation override, no raw reads of location keys)")
    n = 0
    for mname, m in sorted(repo.modules.items()):
        if not mname.startswith("pynetdicom.apps.") or ".tests" in mname:
            continue
        short = mname.replace("pynetdicom.", "")
        for c in ast.walk(m.tree):
            if not isinstance(c, ast.Call):
                continue
            nm = (dotted(c.func) or "").split(".")[-1]
            if nm in ("ConfigParser", "RawConfigParser", "SafeConfigParser"):
                n += 1
                kw = next((k.value for k in c.keywords if k.arg == "interpolation"), None)
                std = kw is None or (isinstance(kw, ast.Call) and (kw.func.attr if isinstance(kw.func, ast.Attribute) else getattr(kw.func, "id", "")) == "BasicInterpolation")
                ok = nm != "RawConfigParser" and std
                rep.check(ok, "config-faithful", f"{short}.{qualname(c) or '<module>'}", enclosing(c, (ast.stmt,)) or c, f"`{norm(c)}`: the configuration is parsed without configparser's standard interpolation, so a location such as `instance_location: /srv/archive/%(ae_title)s` is used as that literal text - instances and the database are created in a directory the operator did not configure", mod=m, node=c)
            if isinstance(c.func, ast.Attribute) and c.func.attr == "get" and any(k.arg == "raw" and not (isinstance(k.value, ast.Constant) and k.value.value is False) for k in c.keywords) and any(isinstance(a, ast.Constant) and isinstance(a.value, str) and "location" in a.value for a in c.args):
                n += 1
                rep.fail("config-faithful", f"{short}.{qualname(c) or '<module>'}", enclosing(c, (ast.stmt,)) or c, f"`{norm(c)}` reads a storage location raw: %(name)s references in the configured value are not expanded", mod=m, node=c)
    rep.floor("configuration parsers constructed by the applications", n, 1)


def check_configured_dir_used(repo: Repo, rep: Report) -> None:
    """storescp / the shared handle_store: when an output directory is configured (`args.output_directory is
    not None`) every way from that test to the write must put the directory in front of the file name; a path
    that skips the join (an exception branch that 'passes') writes the instance into the process's current
    directory instead - outside the storage directory - and still answers Success."""
    from ..cfg import CFG, calls_at

    rep.rule("configured-dir", "with an output directory configured, every path from the test to the write joins the directory to the file name")
    n = 0
    for mname, m in sorted(repo.modules.items()):
        if not mname.startswith("pynetdicom.apps.") or ".tests" in mname:
            continue
        short = mname.replace("pynetdicom.", "")
        for fn in [f for f in ast.walk(m.tree) if isinstance(f, ast.FunctionDef)]:
            tests = [i for i in walk_no_nested(fn) if isinstance(i, ast.If) and norm(i.test) in ("args.output_directory is not None", "args.output_directory")]
            if not tests or not sinks_in(fn):
                continue
            cfg = CFG(fn, body=body_nodoc(fn), may_raise=lambda node: True)
            for i in tests:
                n += 1
                tn = [x for x in cfg.nodes if x.kind == "test" and x.ast is i]
                if not tn:
                    continue
                start = [mm for mm, l in tn[0].succ if l == "true"]
                sink_nodes = {x.id for x in cfg.nodes if x.ast is not None and x.kind == "stmt" and any(c in [s_[0] for s_ in sinks_in(fn)] for c in calls_at(x))}

                mfuncs = {f.name: f for f in m.tree.body if isinstance(f, ast.FunctionDef)}

                def join_call(c_):
                    if not isinstance(c_, ast.Call):
                        return False
                    if (dotted(c_.func) or "") in ("os.path.join", "Path") and any("output_directory" in norm(a) for a in c_.args):
                        return True
                    if (dotted(c_.func) or "") in ("os.path.abspath", "os.path.realpath", "os.path.normpath", "os.fspath", "str") and c_.args:
                        return join_call(c_.args[0])
                    if isinstance(c_.func, ast.Name) and c_.func.id in mfuncs:
                        # a helper that joins the directory it is handed to the file name on every return
                        f_ = mfuncs[c_.func.id]
                        ps_ = [a.arg for a in f_.args.args]
                        ks = [k for k, a in enumerate(c_.args) if "output_directory" in norm(a) and k < len(ps_)]
                        rets_ = [r for r in walk_no_nested(f_) if isinstance(r, ast.Return)]
                        return bool(ks) and bool(rets_) and all(r.value is not None and any(isinstance(j, ast.Call) and (dotted(j.func) or "") in ("os.path.join", "Path") and j.args and norm(j.args[0]) in {ps_[k] for k in ks} for j in ast.walk(r.value)) for r in rets_)
                    return False

                def joins(x):
                    return x.kind == "stmt" and isinstance(x.ast, ast.Assign) and join_call(x.ast.value)

                ok, w = True, []
                if any(joins(x) and cfg.dominates(x, tn[0]) for x in cfg.nodes):
                    start = []  # the directory is joined before the test, unconditionally
                for s0 in start:
                    if joins(s0):
                        continue
                    ok, w = cfg.must_pass(s0, joins, sink_nodes)
                    if not ok:
                        break
                rep.check(ok, "configured-dir", f"{short}.{qualname(fn) or fn.name}", i, "with an output directory configured a path reaches the file write without joining the directory to the file name: the instance is written relative to the current working directory, outside the storage directory, and the peer is told Success", mod=m, node=i, path=[f"L{x.line}" for x in w if x.ast is not None][-10:])
    rep.floor("output-directory tests followed", n, 1)
