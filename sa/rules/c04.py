"""C04 - the state machine reacts to every (state, event) pair as PS3.8 prescribes."""

from __future__ import annotations

import ast
import json
import re

from ..cfg import CFG
from ..consteval import Evaluator
from ..fsm_model import ActionModel, PDU_CLASSES
from ..loader import AnalysisError, Repo, body_nodoc, dotted, enclosing, norm, walk_no_nested, qualname
from ..report import Report, VERIF

LEVEL = "proof"
EXPLANATION = (
    "Exhaustive static comparison: TRANSITION_TABLE is evaluated from the syntax tree and "
    "compared with a hand transcription of PS3.8 Table 9-10 on all 247 (event, state) pairs; "
    "every control-flow path of each of the 28 action functions is enumerated and its effect "
    "sequence (PDU sent with constant source/reason, indication issued, ARTIM op, transport "
    "close/connect, returned state, branch condition) compared with Tables 9-6..9-9; the "
    "dispatcher do_action/transition and the PDU-type/primitive -> event maps are checked "
    "structurally. Nothing is executed."
    " Third session: (artim-run-state) only Timer.__init__/start/stop/restart may change whether a timer is running - a getter or the timeout setter that restarts a stopped ARTIM timer makes Evt18 arrive in a state without a transition; (artim-configured) borrowed from C08's timeout propagation."
    " Fifth round: (closed-not-invalid) a connection that closes inside a PDU is Evt17, never Evt19 (borrowed from C02 / C03); (abort-sources) an A-ABORT PDU with an undefined source still converts to an A-ABORT indication; (connect-failure) a failed connect is Evt17 in Sta4; (invalid-pdu) borrowed from C01's evaluated decoders."
    ' Sixth round: (send-failure) AssociationSocket.send() evaluated: a failed write queues exactly one Evt17, close() followed; (event-sources) every `return True` of _is_transport_event passes _read_pdu_data() or socket.close(), the raw socket is read nowhere else in the provider.'
)


def spec():
    return json.loads((VERIF / "spec" / "ps3_8_fsm.json").read_text())


def _match(pattern: str, tag: str) -> bool:
    if pattern.endswith("*"):
        return tag.startswith(pattern[:-1])
    return tag in pattern.split("|") if "|" in pattern else tag == pattern


def effect_tag(e) -> str:
    kind, detail, _ = e
    if kind == "send":
        return f"send:{detail.cls if detail is not None and detail.kind == 'new' else '?'}"
    if kind == "user":
        if detail.kind == "prim_of_pdu":
            return "user:pdu"
        if detail.kind == "new":
            return f"user:{detail.cls}"
        return "user:?"
    if kind == "dimse":
        return "dimse" if detail.kind == "prim_of_pdu" else "dimse:?"
    if kind == "artim":
        return f"artim:{detail}"
    if kind == "evt":
        return f"evt:{detail}"
    if kind == "other":
        return f"other:{detail}"
    return kind


PROTOCOL = ("send:", "user:", "dimse", "artim:", "close", "connect", "send", "recv", "other:")


def run(repo: Repo, rep: Report, tier: str) -> None:
    sp = spec()
    am = ActionModel(repo)
    mod = am.mod
    rep.rule("table", "TRANSITION_TABLE[(event,state)] == PS3.8 Table 9-10, all 247 pairs")
    rep.rule("action-effects", "every non-raising path of an action has exactly the effects of Tables 9-6..9-9")
    rep.rule("action-next", "returned state per path / branch equals the table's next state; ACTIONS[..][2] agrees")
    rep.rule("dispatch", "do_action: absent pair raises InvalidEventError; state written only by transition()")
    rep.rule("event-map", "PDU type -> event and primitive -> event maps are those of Table 9-10's event list")

    # ---- rule 1: the table ------------------------------------------------
    table = am.table
    rep.need(all(isinstance(k, tuple) and len(k) == 2 for k in table), "table keys are not pairs")
    n_pairs = 0
    for e in sp["events"]:
        for s in sp["states"]:
            n_pairs += 1
            want = sp["table"].get(f"{e},{s}")
            got = table.get((e, s))
            inst = f"({e},{s})"
            if want == got:
                rep.ok("table", inst, f"{got}")
            else:
                rep.fail(
                    "table",
                    "fsm.TRANSITION_TABLE",
                    f"({e!r}, {s!r}): {got!r}",
                    f"PS3.8 Table 9-10 gives {want or 'no entry (not allowed)'} for {inst}, code has {got or 'no entry'}",
                    mod=mod,
                    node=mod.assign_stmts["TRANSITION_TABLE"][0],
                )
    extra = [k for k in table if k[0] not in sp["events"] or k[1] not in sp["states"]]
    for k in extra:
        rep.fail("table", "fsm.TRANSITION_TABLE", f"{k!r}", "entry outside the 19x13 grid", mod=mod,
                 node=mod.assign_stmts["TRANSITION_TABLE"][0])
    rep.floor("table pairs", n_pairs, 247)
    rep.floor("defined entries in code", len(table), 100)
    rep.need(set(am.states) == set(sp["states"]), "STATES keys differ from Sta1..Sta13")
    rep.sample({"pair": "(Evt13,Sta10)", "code": table.get(("Evt13", "Sta10")), "spec": sp["table"].get("Evt13,Sta10")})

    # triggers per action (from the spec table) - used for tolerated effects
    triggers: dict[str, set[str]] = {}
    for k, a in sp["table"].items():
        triggers.setdefault(a, set()).add(k.split(",")[0])

    # ---- rules 3/4: actions -----------------------------------------------
    rep.need(set(am.actions) == set(sp["actions"]), f"ACTIONS keys differ from the 28 of PS3.8: {sorted(set(am.actions) ^ set(sp['actions']))}")
    n_paths = 0
    for name, a_spec in sp["actions"].items():
        fn = am.action_func(name)
        fq = f"fsm.{fn.name}"
        rep.saw("action functions", fq)
        paths = [p for p in am.paths(fn) if not p.raised]
        rep.need(paths, f"{fq}: no normal path")
        declared = am.actions[name][2]
        declared_set = {declared} if isinstance(declared, str) else set(declared)
        rets = set()
        for pe in paths:
            n_paths += 1
            tags = [effect_tag(e) for e in pe.effects]
            rets.add(pe.ret)
            where = f"path L{'/'.join(str(l) for l in pe.lines[-6:])}"
            # next state
            if pe.ret not in a_spec["next"]:
                rep.fail("action-next", fq, f"return {pe.ret!r}", f"{name} must end in {a_spec['next']}, a path returns {pe.ret!r} ({where})", mod=mod, node=fn)
                continue
            must = list(a_spec["must"])
            forbid = list(a_spec.get("forbid", []))
            consts = {}
            br = a_spec.get("branches", {}).get(pe.ret)
            if br:
                must += br.get("must", [])
                forbid += br.get("forbid", [])
                consts = br.get("consts", {})
            ok = True
            # must: exactly once each
            for m in must:
                cnt = sum(1 for t in tags if _match(m, t) or (m == "close" and t == "shutdown"))
                if cnt != 1:
                    ok = False
                    rep.fail("action-effects", fq, f"{m} x{cnt}", f"{name}: effect '{m}' occurs {cnt} times on a path returning {pe.ret} (must be exactly once; effects seen: {[t for t in tags if not t.startswith('evt:')]})", mod=mod, node=fn)
            # nothing of protocol significance beyond the list
            for t, e in zip(tags, pe.effects):
                if not t.startswith(PROTOCOL):
                    continue
                if any(_match(m, t) or (m == "close" and t == "shutdown") for m in must):
                    continue
                if t == "shutdown" and triggers.get(name, set()) <= {"Evt17"}:
                    continue  # making sure an already-closed transport is shut: tolerated
                if t.startswith("other:"):
                    raise AnalysisError(f"{fq}: unrecognised provider operation {t[6:]!r} at line {e[2].lineno}; effect model incomplete")
                ok = False
                rep.fail("action-effects", fq, e[2], f"{name}: effect '{t}' is not among those PS3.8 lists for this action ({must})", mod=mod, node=e[2])
            for f in forbid:
                for t, e in zip(tags, pe.effects):
                    if _match(f, t):
                        ok = False
                        rep.fail("action-effects", fq, e[2], f"{name}: effect '{t}' is forbidden on the branch returning {pe.ret}", mod=mod, node=e[2])
            # constants on the PDU sent
            for kind, v, call in pe.effects:
                if kind != "send" or v.kind != "new":
                    continue
                # values set on the object itself or on the primitive it was built from
                vals = dict(v.consts)
                for a in v.args:
                    vals.update(a.consts)
                for key, want in consts.items():
                    if vals.get(key) != want:
                        ok = False
                        rep.fail("action-effects", fq, f"{key}={vals.get(key)!r}", f"{name}: rejection must carry {key}={want} (PS3.8 Table 9-21), path sets {vals.get(key)!r}", mod=mod, node=call)
                ab = a_spec.get("abort")
                if ab and v.cls == "A_ABORT_RQ":
                    if "source" in ab:
                        if vals.get("source") != ab["source"]:
                            ok = False
                            rep.fail("action-effects", fq, f"source={vals.get('source')!r}", f"{name}: A-ABORT source must be {ab['source']} (service-provider)", mod=mod, node=call)
                    elif ab.get("or_from_primitive"):
                        if v.src is not None and v.src.kind == "provq":
                            pass  # source taken from the user's queued A-ABORT request
                        elif vals.get("source") != ab["default_source"]:
                            ok = False
                            rep.fail("action-effects", fq, f"source={vals.get('source')!r}", f"{name}: A-ABORT source must be {ab['default_source']} (service-user) when no request primitive is queued", mod=mod, node=call)
            # branch condition
            if name == "AE-6":
                ver_tests = [(t, taken) for t, taken in pe.cond_nodes if "protocol_version" in norm(t)]
                rep.need(len(ver_tests) == 1, f"{fq}: protocol-version test not found on a path")
                t, taken = ver_tests[0]
                rep.need(isinstance(t, ast.Compare) and len(t.ops) == 1 and "protocol_version" in norm(t.left) and isinstance(t.comparators[0], ast.Constant) and isinstance(t.comparators[0].value, int), f"{fq}: protocol-version test shape: {norm(t)}")
                import operator as _o
                opf = {ast.Eq: _o.eq, ast.NotEq: _o.ne, ast.Lt: _o.lt, ast.LtE: _o.le, ast.Gt: _o.gt, ast.GtE: _o.ge}.get(type(t.ops[0]))
                rep.need(opf is not None, f"{fq}: protocol-version operator not modelled")
                kk = t.comparators[0].value
                for v in (0, 1, 2, 3, 0x8001, 0xFFFF):
                    if opf(v, kk) != taken:
                        continue
                    want = "Sta3" if v == 1 else "Sta13"
                    if pe.ret != want:
                        ok = False
                        rep.fail("action-next", fq, f"{norm(t)} is {taken} for version {v} -> {pe.ret}", f"AE-6: an A-ASSOCIATE-RQ with protocol version 0x{v:04X} must lead to {want} ({'only version 1 is supported' if v != 1 else 'version 1 is supported'}), this path returns {pe.ret}", mod=mod, node=t)
            if name == "AR-8":
                pol = _branch_polarity(pe.conds, r"is_requestor")
                rep.need(pol is not None, f"{fq}: requestor test not recognised on a path")
                want = "Sta9" if pol else "Sta10"
                if pe.ret != want:
                    ok = False
                    rep.fail("action-next", fq, f"return {pe.ret!r}", f"AR-8: {'requestor' if pol else 'acceptor'} must go to {want}", mod=mod, node=fn)
            if ok:
                rep.ok("action-effects", f"{name} {where} -> {pe.ret}", ", ".join(t for t in tags if t.startswith(PROTOCOL)))
        if rets - {None} != set(a_spec["next"]):
            rep.fail("action-next", fq, f"returns {sorted(x for x in rets if x)}", f"{name}: return set {sorted(str(r) for r in rets)} != {a_spec['next']}", mod=mod, node=fn)
        if declared_set != set(a_spec["next"]):
            rep.fail("action-next", "fsm.ACTIONS", f"{name}: {declared!r}", f"ACTIONS[{name}][2] = {declared!r}, PS3.8 gives {a_spec['next']}", mod=mod, node=mod.assign_stmts["ACTIONS"][0])
        else:
            rep.ok("action-next", f"ACTIONS[{name}][2]", str(declared))
        # function name convention ACTIONS['AE-1'] -> AE_1 is not required, only that it is
        # a distinct function
    fns = [am.action_func(n).name for n in sp["actions"]]
    rep.need(len(set(fns)) == 28, "ACTIONS maps two action names to one function")
    rep.floor("action functions", len(fns), 28)
    rep.floor("action paths", n_paths, 30)
    rep.sample({"action": "AE-6", "paths": [[effect_tag(e) for e in p.effects if effect_tag(e).startswith(PROTOCOL)] + [p.ret] for p in am.paths(am.action_func("AE-6")) if not p.raised]})

    # AE-6's protocol-version compare constant
    # AA-3: A-ABORT vs A-P-ABORT indication chosen by the PDU's source
    _check_abort_to_primitive(repo, rep)

    # ---- rule 2: dispatcher -----------------------------------------------
    _check_dispatch(repo, rep)
    # ---- rule 5: event maps -----------------------------------------------
    _check_event_maps(repo, rep)
    rep.extra["exhaustive"] = True
    rep.extra["pairs"] = n_pairs
    rep.extra["action_paths"] = n_paths
    _delegate_event_sources(repo, rep, tier)

    from .c08 import check_timeout_propagation
    rep.rule("artim-configured", "the ARTIM timer whose expiry raises Evt18 carries the configured ACSE timeout (C08's timeout-propagation)")
    check_timeout_propagation(repo, rep, "artim-configured")
    check_timer_run_state(repo, rep, "artim-run-state")
    check_connect_failure(repo, rep, "connect-failure")
    check_send_failure(repo, rep, "send-failure")
    check_transport_event_sources(repo, rep, "event-sources")
    from ..delegate import delegate
    rep.rule("closed-not-invalid", "a connection that closes in the middle of a PDU is Evt17 (transport closed), not Evt19 (invalid PDU) - C02's no-extra-rejection and C03's short-is-closed")
    delegate(repo, rep, tier, "C02", ("no-extra-rejection",), "closed-not-invalid", "a PDU cut short by the peer closing the connection is classified as an invalid PDU: Sta6 + Evt19 -> AA-8 (A-ABORT PDU sent, ARTIM started, Sta13) instead of Sta6 + Evt17 -> AA-4 (A-P-ABORT indication, Sta1)")
    delegate(repo, rep, tier, "C03", ("short-is-closed",), "closed-not-invalid", "a short or failed read must be reported as Evt17: with Evt19 the machine runs AA-1 / AA-8 instead of AA-4 / AA-5")
    rep.rule("invalid-pdu", "bytes that are not a well-formed PDU fail the decode (Evt19), they are not skipped (C01's evaluation of the item generators)")
    delegate(repo, rep, tier, "C01", ("decoder-complete",), "invalid-pdu", "a malformed A-ASSOCIATE-RQ / -AC is decoded as if it were well-formed: the machine takes Evt6 / Evt3 (the association is accepted / established) where PS3.8 prescribes Evt19 -> AA-1 / AA-8 (A-ABORT)")


def check_connect_failure(repo: Repo, rep: Report, rule: str) -> None:
    """AE-1 issues the transport connect; the outcome comes back as Evt2 (confirmation) or Evt17 (closed) and
    Table 9-10 has exactly those two rows for Sta4. Every way socket.connect() / wrap_socket() can fail is an
    OSError (ENETUNREACH, EHOSTUNREACH, EADDRNOTAVAIL, EACCES are plain OSErrors, not ConnectionError /
    TimeoutError): the try around them must catch OSError itself (or wider) and report Evt17 - a narrower list
    lets the rest escape the action, no transition happens, the provider thread dies in Sta4 and neither the
    A-P-ABORT indication nor the connection-close notification follows."""
    rep.rule(rule, "AssociationSocket.connect() turns every OSError of connect / wrap_socket into Evt17")
    tr = repo.mod("transport")
    fn = repo.func("transport", "AssociationSocket.connect")
    fq = "transport.AssociationSocket.connect"
    calls = [c for c in walk_no_nested(fn) if isinstance(c, ast.Call) and isinstance(c.func, ast.Attribute) and c.func.attr in ("connect", "wrap_socket", "connect_ex", "do_handshake") and ("socket" in norm(c.func.value) or c.func.attr == "wrap_socket")]
    rep.need(len(calls) >= 1, f"{fq}: the socket connect call was not found")
    consts = {}
    for a in tr.tree.body:
        if isinstance(a, ast.Assign) and isinstance(a.targets[0], ast.Name) and isinstance(a.value, (ast.Tuple, ast.BinOp)):
            consts[a.targets[0].id] = a.value
    for c in calls:
        t = enclosing(c, (ast.Try,))
        ok, names = False, []
        while t is not None and not ok:
            if any(c is x for s_ in t.body for x in ast.walk(s_)):
                for h in t.handlers:
                    ty = h.type
                    if isinstance(ty, ast.Name) and ty.id in consts:
                        ty = consts[ty.id]
                    hn = [] if ty is None else [norm(x) for x in ast.walk(ty) if isinstance(x, (ast.Name, ast.Attribute)) and norm(x)[:1].isupper() or norm(x).startswith(("ssl.", "socket."))]
                    names += hn or ([norm(h.type)] if h.type is not None else [])
                    wide = ty is None or any(x in ("OSError", "Exception", "BaseException", "EnvironmentError", "IOError", "socket.error") for x in hn)
                    evt17 = any("'Evt17'" in norm(s_) for s_ in ast.walk(h) if isinstance(s_, ast.stmt))
                    if wide and evt17:
                        ok = True
            t = enclosing(t, (ast.Try,))
        rep.check(ok, rule, fq, enclosing(c, (ast.stmt,)) or c, f"`{norm(c)[:50]}` can fail with any OSError but the handlers around it cover only {sorted(set(names)) or 'nothing'}: an unreachable network / host or an unavailable local address (plain OSError) escapes AE-1 - the state machine gets neither Evt2 nor Evt17, the provider thread dies in Sta4 and AA-4 (A-P-ABORT indication, connection closed) never runs", mod=tr, node=c)
    rep.floor("connect / wrap_socket calls in AssociationSocket.connect", len(calls), 1)


def check_timer_run_state(repo: Repo, rep: Report, rule: str) -> None:
    """Evt18 (ARTIM expired) is defined in Sta2 and Sta13 only - exactly the states in which the actions leave
    the timer running (AE-5 / AA-x start it, AE-6 / AR-x stop it). That holds only while start(), stop() and
    restart() are the *only* operations that change whether a Timer is running: a getter or the timeout
    setter that (re)starts a timer makes a stopped ARTIM timer expire in an established association, Evt18
    meets a state without a transition, the provider thread dies and the connection is never reported closed."""
    rep.rule(rule, "only Timer.__init__ / start / stop / restart change whether a timer is running")
    tm = repo.mod("timer")
    ci = tm.classes.get("Timer")
    rep.need(ci is not None, "timer.Timer vanished")
    start = ci.methods.get("start")
    stop = ci.methods.get("stop")
    rep.need(start is not None and stop is not None, "timer.Timer.start / stop vanished")
    state = set()
    for fn in (start, stop):
        for n in walk_no_nested(fn):
            if isinstance(n, ast.Attribute) and isinstance(n.ctx, ast.Store) and norm(n.value) == "self":
                state.add(n.attr)
    rep.need(len(state) >= 1, "timer.Timer.start / stop no longer assign the run state")
    allowed = {"__init__", "start", "stop", "restart"}
    n = 0
    every = list(ci.methods.items()) + [(f"{k} (getter)", v) for k, v in ci.getters.items()] + [(f"{k} (setter)", v) for k, v in ci.setters.items()]
    seen = set()
    for name, fn in every:
        if id(fn) in seen:
            continue
        seen.add(id(fn))
        n += 1
        if name in allowed:
            continue
        bad = []
        for x in walk_no_nested(fn):
            if isinstance(x, ast.Attribute) and isinstance(x.ctx, (ast.Store, ast.Del)) and norm(x.value) == "self" and x.attr in state:
                bad.append(x)
            if isinstance(x, ast.Call) and norm(x.func) in ("self.start", "self.stop", "self.restart"):
                bad.append(x)
            if isinstance(x, ast.Call) and dotted(x.func) == "setattr" and x.args and norm(x.args[0]) == "self":
                bad.append(x)
        rep.check(not bad, rule, f"timer.Timer.{name}", enclosing(bad[0], (ast.stmt,)) if bad else f"{name}: run state untouched", f"Timer.{name} changes whether the timer is running ({norm(bad[0])[:40] if bad else ''}): a timer the state machine has stopped (the ARTIM timer after AE-6) is running again, expires in a state where Evt18 has no transition (Sta6), the provider thread dies with InvalidEventError, the association is lost and its connection is never reported closed", mod=tm, node=bad[0] if bad else fn)
    rep.floor("Timer methods / accessors examined", n, 6)


def _branch_polarity(conds, pat: str):
    """True iff the path took the branch on which `<x> != 1` / `is_requestor` holds."""
    for text, taken in conds:
        if not re.search(pat, text):
            continue
        t = text
        neg = False
        if t.startswith("not "):
            neg, t = True, t[4:]
        if "protocol_version" in pat:
            m = re.search(r"protocol_version\s*(!=|==)\s*(0x0*1|1)\b", t)
            if not m:
                return None
            holds_ne = (m.group(1) == "!=") == taken
            return holds_ne != neg
        return taken != neg
    return None


def _check_ae6_const(rep: Report, am: ActionModel):
    fn = am.action_func("AE-6")
    found = False
    for n in walk_no_nested(fn):
        if isinstance(n, ast.Compare) and "protocol_version" in ast.unparse(n.left):
            found = True
            c = n.comparators[0]
            ok = isinstance(c, ast.Constant) and c.value == 1 and isinstance(n.ops[0], (ast.NotEq, ast.Eq))
            rep.check(ok, "action-next", "fsm.AE_6", n, "protocol version must be compared with 0x0001", mod=am.mod, node=n)
    rep.need(found, "AE-6: protocol version comparison vanished")


def _check_abort_to_primitive(repo: Repo, rep: Report):
    mod = repo.mod("pdu")
    fn = repo.func("pdu", "A_ABORT_RQ.to_primitive")
    # shape: if self.source == 0x00: A_ABORT ... else/elif: A_P_ABORT
    cfg = CFG(fn, body=body_nodoc(fn))
    results = []
    for path in cfg.paths(max_paths=200):
        if path[-1] is cfg.raise_exit:
            continue
        conds, made = [], None
        for i, n in enumerate(path):
            if n.kind == "test":
                lab = [l for m, l in n.succ if i + 1 < len(path) and m is path[i + 1]]
                m = re.fullmatch(r"self\.source == (\d+)", norm(n.ast.test))
                rep.need(m is not None and lab, f"pdu.A_ABORT_RQ.to_primitive: test not recognised: {norm(n.ast.test)}")
                conds.append((int(m.group(1)), lab[0] == "true"))
            if n.kind == "stmt" and isinstance(n.ast, ast.Assign) and isinstance(n.ast.value, ast.Call):
                c = dotted(n.ast.value.func)
                if c in ("A_ABORT", "A_P_ABORT"):
                    made = c
        results.append((conds, made))

    def for_source(s):
        for conds, made in results:
            if all((s == v) == eq for v, eq in conds):
                return made
        return None

    user, prov = for_source(0), for_source(2)
    rep.need(user is not None, "pdu.A_ABORT_RQ.to_primitive: source test not recognised")
    rep.check(user == "A_ABORT", "action-effects", "pdu.A_ABORT_RQ.to_primitive", "source == 0 -> " + str(user), "AA-3: a service-user abort (source 0) must be indicated as A-ABORT", mod=mod, node=fn)
    rep.check(prov == "A_P_ABORT", "action-effects", "pdu.A_ABORT_RQ.to_primitive", "source == 2 -> " + str(prov), "AA-3: a provider abort (source 2) must be indicated as A-P-ABORT", mod=mod, node=fn)
    # the reserved / undefined sources (1, 3 .. 255): such a PDU is invalid (Evt19: AA-1 / AA-8). It is recognised as
    # invalid by the A-ABORT primitive's abort_source setter, which refuses everything but 0 and 2 - so those sources
    # must be converted into that primitive, not into a provider abort (whose reason setter accepts 0..6)
    pp = repo.mod("pdu_primitives")
    aci = pp.classes.get("A_ABORT")
    st_ = aci.setters.get("abort_source") if aci is not None else None
    validates = st_ is not None and any(isinstance(x, ast.Raise) for x in ast.walk(st_))
    for s_ in (1, 3, 255):
        got = for_source(s_)
        rep.check(got == "A_ABORT" and validates, "action-effects", "pdu.A_ABORT_RQ.to_primitive", f"source == {s_} -> {got}", f"an A-ABORT PDU with the undefined source {s_} is an invalid PDU (Evt19 -> AA-1 / AA-8: A-ABORT sent): it is only recognised as such by A_ABORT.abort_source's range check, so it must be converted to that primitive; converted to {got} it is indicated to the user as an abort (Evt16 -> AA-2 / AA-3) instead", mod=mod, node=fn)


def _check_dispatch(repo: Repo, rep: Report):
    mod = repo.mod("fsm")
    fn = repo.func("fsm", "StateMachine.do_action")
    cfg = CFG(fn, body=body_nodoc(fn))
    fq = "fsm.StateMachine.do_action"
    # (a) membership test whose true branch raises InvalidEventError and does not fall through
    guard = None
    for n in cfg.nodes:
        if n.kind == "test" and isinstance(n.ast, ast.If):
            t = norm(n.ast.test)
            if re.fullmatch(r"\((\w+), self\.current_state\) not in TRANSITION_TABLE", t):
                guard = n
    rep.need(guard is not None, f"{fq}: '(event, self.current_state) not in TRANSITION_TABLE' guard vanished")
    ev_name = re.match(r"\((\w+),", norm(guard.ast.test)).group(1)
    rep.need(ev_name == fn.args.args[1].arg, f"{fq}: guard does not test the event parameter")
    # every path from the true edge ends in raise_exit via `raise InvalidEventError`
    true_succ = [m for m, l in guard.succ if l == "true"]
    rep.need(true_succ, f"{fq}: guard has no true branch")
    reach = cfg.reachable(true_succ[0], labels_excluded=())
    raises = [n for n in cfg.nodes if n.id in reach and isinstance(n.ast, ast.Raise) and n.kind == "stmt"]
    falls = cfg.exit.id in cfg.reachable(true_succ[0], without={r.id for r in raises}, labels_excluded=("exc",))
    lookup_nodes = [n for n in cfg.nodes if n.kind == "stmt" and isinstance(n.ast, ast.Assign) and "TRANSITION_TABLE[" in norm(n.ast.value)]
    rep.need(lookup_nodes, f"{fq}: table lookup vanished")
    reaches_lookup = lookup_nodes[0].id in cfg.reachable(true_succ[0], without={r.id for r in raises}, labels_excluded=("exc",))
    good_raise = bool(raises) and all("InvalidEventError" in norm(r.ast) for r in raises)
    rep.check(good_raise and not falls and not reaches_lookup, "dispatch", fq, guard.ast, "a pair outside the table must raise InvalidEventError and perform no action", mod=mod, node=guard.ast)
    rep.check(cfg.dominates(guard, lookup_nodes[0], labels_excluded=()), "dispatch", fq, lookup_nodes[0].ast, "table lookup not dominated by the membership guard", mod=mod)
    rep.check(norm(lookup_nodes[0].ast.value) == f"TRANSITION_TABLE[{ev_name}, self.current_state]", "dispatch", fq, lookup_nodes[0].ast, "lookup key must be (event, current state)", mod=mod)
    # (b) action = ACTIONS[action_name]; next_state = action[1](self.dul); transition(next_state)
    aname = lookup_nodes[0].ast.targets[0].id
    src = {norm(s) for s in walk_no_nested(fn) if isinstance(s, ast.stmt)}
    act_assign = [s for s in walk_no_nested(fn) if isinstance(s, ast.Assign) and norm(s.value) == f"ACTIONS[{aname}]"]
    rep.need(act_assign, f"{fq}: ACTIONS[{aname}] lookup vanished")
    avar = act_assign[0].targets[0].id
    call_assign = [s for s in walk_no_nested(fn) if isinstance(s, ast.Assign) and norm(s.value) == f"{avar}[1](self.dul)"]
    rep.check(bool(call_assign), "dispatch", fq, f"{avar}[1](self.dul)", "the looked-up action function is not the one called", mod=mod, node=fn)
    if call_assign:
        nvar = call_assign[0].targets[0].id
        trans = [s for s in walk_no_nested(fn) if isinstance(s, ast.Expr) and norm(s.value) == f"self.transition({nvar})"]
        rep.check(bool(trans), "dispatch", fq, f"self.transition({nvar})", "state is not moved to the value the action returned", mod=mod, node=fn)
        if trans:
            cn, tn = cfg.node_of(call_assign[0]), cfg.node_of(trans[0])
            rep.check(cfg.dominates(cn, tn), "dispatch", fq, trans[0], "transition() not dominated by the action call", mod=mod)
            okp, w = cfg.must_pass(cn, lambda n: n is tn, {cfg.exit.id}, labels_excluded=("exc",))
            rep.check(okp, "dispatch", fq, "normal exit without transition()", "a normal path from the action call reaches the exit without transition()", mod=mod, node=fn)
    # (c) transition(): writes current_state = state under `state in STATES`
    tfn = repo.func("fsm", "StateMachine.transition")
    p = tfn.args.args[1].arg
    writes = [s for s in walk_no_nested(tfn) if isinstance(s, ast.Assign) and norm(s.targets[0]) == "self.current_state"]
    rep.check(len(writes) == 1 and norm(writes[0].value) == p, "dispatch", "fsm.StateMachine.transition", "self.current_state = " + (norm(writes[0].value) if writes else "?"), "transition() must store exactly its argument", mod=mod, node=tfn)
    # (d) who writes current_state anywhere in the package
    n_w = 0
    for m in repo.modules.values():
        for node in ast.walk(m.tree):
            tgts = []
            if isinstance(node, ast.Assign):
                tgts = node.targets
            elif isinstance(node, (ast.AugAssign, ast.AnnAssign)):
                tgts = [node.target]
            for t in tgts:
                if isinstance(t, ast.Attribute) and t.attr == "current_state":
                    if isinstance(node, ast.AnnAssign) and node.value is None:
                        continue  # bare annotation, not a write
                    from ..loader import qualname, enclosing
                    q = qualname(node)
                    cls = enclosing(node, (ast.ClassDef,))
                    recv_self = isinstance(t.value, ast.Name) and t.value.id == "self"
                    if recv_self and cls is not None:
                        ci = m.classes.get(cls.name)
                        is_sm = ci is not None and any(c.name == "StateMachine" for c in repo.mro(ci))
                        if not is_sm:
                            continue  # another class's own attribute of the same name
                    n_w += 1
                    ok = m.name == "pynetdicom.fsm" and q in ("StateMachine.__init__", "StateMachine.transition")
                    rep.check(ok, "dispatch", f"{m.name.replace('pynetdicom.', '')}.{q}", node, "state variable written outside StateMachine.__init__/transition", mod=m, node=node)
            if isinstance(node, ast.Call) and dotted(node.func) == "setattr" and len(node.args) >= 2 and isinstance(node.args[1], ast.Constant) and node.args[1].value == "current_state":
                rep.fail("dispatch", m.name, node, "setattr on current_state", mod=m, node=node)
    rep.floor("current_state writers", n_w, 2)


def _check_event_maps(repo: Repo, rep: Report):
    dul = repo.mod("dul")
    ev = Evaluator(repo, dul, symbolic_names=True)
    m = ev.name("_PDU_TYPES")
    want = {
        b"\x01": ("A_ASSOCIATE_RQ", "Evt6"),
        b"\x02": ("A_ASSOCIATE_AC", "Evt3"),
        b"\x03": ("A_ASSOCIATE_RJ", "Evt4"),
        b"\x04": ("P_DATA_TF", "Evt10"),
        b"\x05": ("A_RELEASE_RQ", "Evt12"),
        b"\x06": ("A_RELEASE_RP", "Evt13"),
        b"\x07": ("A_ABORT_RQ", "Evt16"),
    }
    rep.need(isinstance(m, dict), "dul._PDU_TYPES not a dict literal")
    for k in sorted(set(want) | set(m)):
        got = m.get(k)
        g = (getattr(got[0], "name", "?").split(".")[-1], got[1]) if got else None
        rep.check(g == want.get(k), "event-map", "dul._PDU_TYPES", f"{k!r}: {g}", f"PDU type {k!r} must map to {want.get(k)}", mod=dul, node=dul.assign_stmts["_PDU_TYPES"][0])
    # primitive -> event (if/elif chain in _process_recv_primitive)
    fn = repo.func("dul", "DULServiceProvider._process_recv_primitive")
    cfg = CFG(fn, body=body_nodoc(fn))
    got = set()
    for path in cfg.paths(max_paths=500):
        if path[-1] is cfg.raise_exit:
            continue
        conds, event = [], None
        for i, n in enumerate(path):
            if n.kind == "test":
                lab = [l for mm, l in n.succ if i + 1 < len(path) and mm is path[i + 1]]
                if lab and lab[0] == "true":
                    conds.append(norm(n.ast.test))
                elif lab and lab[0] == "false":
                    # the false edge of a negated test asserts the positive form (guard-clause spelling)
                    t_ = n.ast.test
                    if isinstance(t_, ast.UnaryOp) and isinstance(t_.op, ast.Not):
                        conds.append(norm(t_.operand))
                    elif isinstance(t_, ast.Compare) and len(t_.ops) == 1 and isinstance(t_.ops[0], (ast.IsNot, ast.NotEq, ast.NotIn)):
                        pos = {ast.IsNot: ast.Is, ast.NotEq: ast.Eq, ast.NotIn: ast.In}[type(t_.ops[0])]
                        conds.append(norm(ast.Compare(left=t_.left, ops=[pos()], comparators=t_.comparators)))
            if n.kind == "stmt" and isinstance(n.ast, ast.Assign) and norm(n.ast.targets[0]) == "event":
                event = norm(n.ast.value)
        if event is not None:
            got.add((tuple(conds), event))
    want_p = {
        (("isinstance(primitive, T_CONNECT)",), "primitive.result"),
        (("isinstance(primitive, A_ASSOCIATE)", "primitive.result is None"), "'Evt1'"),
        (("isinstance(primitive, A_ASSOCIATE)", "primitive.result == 0"), "'Evt7'"),
        (("isinstance(primitive, A_ASSOCIATE)",), "'Evt8'"),
        (("isinstance(primitive, A_RELEASE)", "primitive.result is None"), "'Evt11'"),
        (("isinstance(primitive, A_RELEASE)",), "'Evt14'"),
        (("isinstance(primitive, (A_ABORT, A_P_ABORT))",), "'Evt15'"),
        (("isinstance(primitive, P_DATA)",), "'Evt9'"),
    }
    for w in sorted(want_p):
        rep.check(w in got, "event-map", "dul.DULServiceProvider._process_recv_primitive", f"{' and '.join(w[0])} -> {w[1]}", "primitive-to-event mapping missing or changed", mod=dul, node=fn)
    for g in sorted(got - want_p):
        rep.fail("event-map", "dul.DULServiceProvider._process_recv_primitive", f"{' and '.join(g[0])} -> {g[1]}", "primitive-to-event mapping not in PS3.8's event list", mod=dul, node=fn)
    # T_CONNECT.result is restricted to Evt2 / Evt17 by its setter
    st = repo.func("transport", "T_CONNECT.result:setter")
    okt = False
    for i in [i for i in walk_no_nested(st) if isinstance(i, ast.If) and isinstance(i.test, ast.Compare) and len(i.test.ops) == 1 and isinstance(i.test.ops[0], (ast.NotIn, ast.In))]:
        c = i.test.comparators[0]
        vals = sorted(e.value for e in c.elts if isinstance(e, ast.Constant)) if isinstance(c, (ast.List, ast.Tuple, ast.Set)) else []
        raising = i.body if isinstance(i.test.ops[0], ast.NotIn) else i.orelse
        if vals == ["Evt17", "Evt2"] and any(isinstance(x, ast.Raise) for x in raising):
            okt = True
    rep.check(okt, "event-map", "transport.T_CONNECT.result", "value not in ('Evt2', 'Evt17') -> raise", "transport connect result must be Evt2 or Evt17", mod=repo.mod("transport"), node=st)


def _delegate_event_sources(repo, rep, tier):
    """Table 9-10 is only honoured if the events it is indexed by are actually raised. The ARTIM expiry
    (Evt18) has a single producer, the provider's reactor loop; C05's reactor-order rule decides that it
    tests the timer unconditionally, first, on every iteration and that exactly one event is processed
    per iteration. Its failures are failures of this property: a state/event pair that can no longer
    occur is not reacted to as prescribed."""
    from ..report import Report as _R
    from . import c05

    rep.rule("event-sources", "ARTIM expiry is raised as Evt18 unconditionally at the top of every reactor iteration; one event is dispatched per iteration (C05 reactor-order)")
    from ..delegate import run_lender
    sub = run_lender(repo, "C04", "C05", tier)
    n = sum(1 for o in sub.obligations if o["rule"] == "reactor-order" and o["ok"])
    rep.ok("event-sources", f"{n} reactor-order obligations (C05) hold", "")
    for f in sub.failures:
        if f["rule"] == "reactor-order":
            f2 = dict(f)
            f2["rule"] = "event-sources"
            rep.obligations.append(f2)
            rep.failures.append(f2)


def check_send_failure(repo: Repo, rep: Report, rule: str) -> None:
    """A write the peer's close / reset makes fail (EPIPE, ECONNRESET) is the transport's 'connection closed'
    indication: Evt17, for which Table 9-10 has a row in every state with a connection. AssociationSocket.send()
    is evaluated (sa/minipy.py; the socket, the event queue and evt are recording stand-ins, the object's other
    methods are resolved from the class source) with a socket whose send() fails at once / after a partial
    write / never: a failed write puts exactly one Evt17 on the event queue - also when the error path goes
    through close(), whose early return for an already unconnected socket queues nothing - and a complete
    write puts none."""
    from ..minipy import Interp, Obj, Raised, Unsupported

    rep.rule(rule, "AssociationSocket.send(): a failed write queues exactly one Evt17, a complete write none (evaluated, close() followed)")
    tr = repo.mod("transport")
    ci = tr.classes.get("AssociationSocket")
    rep.need(ci is not None, "transport.AssociationSocket vanished")
    fn = repo.func("transport", "AssociationSocket.send")
    fq = "transport.AssociationSocket.send"

    def resolver(cls, name):
        if cls != "AssociationSocket":
            return None
        _, f_ = repo.lookup_method(ci, name, "method")
        if f_ is None:
            return None
        return f_, any(norm(d) == "staticmethod" for d in f_.decorator_list)

    n = 0
    for fail_at in (1, 2, None):
        for connected in (True,):
            events, written, calls = [], [], [0]

            def sock_send(s_, data, *a, fail_at=fail_at, written=written, calls=calls):
                calls[0] += 1
                if fail_at is not None and calls[0] >= fail_at:
                    raise Raised("OSError")
                k = 3 if fail_at is not None else len(data)
                written.append(bytes(data[:k]))
                return k

            sock = Obj("socket", {"@send": sock_send, "@sendall": sock_send, "@shutdown": lambda s_, *a: None, "@close": lambda s_: None, "@settimeout": lambda s_, *a: None})
            q = Obj("Queue", {"@put": lambda s_, e_, *a, events=events: events.append(e_), "@put_nowait": lambda s_, e_, events=events: events.append(e_)})
            assoc = Obj("Association", {"dul": Obj("DUL", {"event_queue": q})})
            me = Obj("AssociationSocket", {"socket": sock, "_is_connected": connected, "assoc": assoc, "event_queue": q, "_ready": None, "tls_args": None, "select_timeout": 0.5})
            g = {"evt": Obj("evt", {"@trigger": lambda s_, *a, **k: None, "EVT_DATA_SENT": "EVT_DATA_SENT", "EVT_CONN_CLOSE": "EVT_CONN_CLOSE"}), "socket": Obj("socketmodule", {"SHUT_RDWR": 2, "error": "OSError"}), "memoryview": lambda b: b}
            it = Interp(g, method_resolver=resolver)
            data = b"0123456789"
            inst = "socket.send() fails at once" if fail_at == 1 else "socket.send() fails after a partial write" if fail_at == 2 else "socket.send() succeeds"
            try:
                it.call_function(fn, {"self": me, "bytestream": data})
            except Unsupported as exc:
                rep.defer(f"{fq}: not evaluable with stand-ins ({exc})")
                return
            except Raised as r:
                rep.fail(rule, fq, f"[{inst}] raises {r.kind}", f"send() lets {r.kind} escape into the state machine's action instead of reporting Evt17", mod=tr, node=fn)
                continue
            n += 1
            if fail_at is None:
                ok = not events and b"".join(written) == data
                rep.check(ok, rule, fq, f"[{inst}] wrote {b''.join(written)!r}, queued {events}", "a complete write must put the whole PDU on the wire and raise no event", mod=tr, node=fn)
            else:
                ok = events == ["Evt17"]
                rep.check(ok, rule, fq, f"[{inst}] queued {events}", f"a failed write must queue exactly one Evt17 (PS3.8 Table 9-10: Evt17 -> AA-4 / AR-5 in every state with a connection); queued: {events} - the state machine otherwise stays in its state with a dead connection until a timer expires (an error path through close() returns early once _is_connected is False)", mod=tr, node=fn)
    rep.floor("send() outcomes evaluated", n, 3)


def check_transport_event_sources(repo: Repo, rep: Report, rule: str) -> None:
    """The events of Table 9-10 that come from the connection (Evt3 ... Evt6, Evt10 ... Evt13, Evt16, Evt17,
    Evt19) have one producer: DULServiceProvider._read_pdu_data(), reached from _is_transport_event() in *every*
    state - Sta13 included, whose row still prescribes AA-7 for an A-ASSOCIATE-RQ / invalid PDU, AA-2 for an
    A-ABORT and AA-6 for the rest - and AssociationSocket.close() (Evt17). _is_transport_event() returns True
    exactly when it has queued an event: every path to `return True` passes one of the two, and the raw socket is
    read nowhere else in the provider (bytes drained without decoding are PDUs the state machine never sees)."""
    from ..cfg import CFG

    dul = repo.mod("dul")
    fn = repo.func("dul", "DULServiceProvider._is_transport_event")
    fq = "dul.DULServiceProvider._is_transport_event"
    cfg = CFG(fn, body=body_nodoc(fn), local_exc_only=True)

    def produces(nd):
        if nd.ast is None or nd.kind not in ("stmt", "finally"):
            return False
        return any(isinstance(c, ast.Call) and norm(c.func) in ("self._read_pdu_data", "self.socket.close") for c in walk_no_nested(nd.ast))

    rets = [nd for nd in cfg.nodes if nd.kind == "stmt" and isinstance(nd.ast, ast.Return) and isinstance(nd.ast.value, ast.Constant) and nd.ast.value.value is True]
    rep.need(rets, f"{fq}: no `return True`")
    for r in rets:
        ok, path = cfg.must_pass(cfg.entry, produces, {r.id}, labels_excluded=("exc",))
        where = " -> ".join(str(p_.line) for p_ in path[-6:] if p_.line)
        rep.check(ok, rule, fq, r.ast, f"a path (lines {where}) reports a transport event without having queued one: neither _read_pdu_data() nor socket.close() is on it - what the peer sent is taken off the connection without reaching the state machine, so the (state, event) pair PS3.8 prescribes a reaction to never occurs (in Sta13: no AA-7 A-ABORT for an A-ASSOCIATE-RQ / invalid PDU, no AA-2 for an A-ABORT)", mod=dul, node=r.ast)
    # the raw socket is read only by AssociationSocket.recv
    n_raw = 0
    for f_ in [x for x in ast.walk(dul.tree) if isinstance(x, ast.FunctionDef)]:
        for c in walk_no_nested(f_):
            if isinstance(c, ast.Call) and isinstance(c.func, ast.Attribute) and c.func.attr in ("recv", "recv_into", "recvfrom", "read") and norm(c.func.value) not in ("self.socket", "self.assoc.dul.socket"):
                n_raw += 1
                rep.fail(rule, f"dul.{qualname(c)}", enclosing(c, (ast.stmt,)) or c, f"`{norm(c)[:60]}` reads the connection outside AssociationSocket.recv(): the bytes never reach the PDU decoder, so no event is raised for them", mod=dul, node=c)
    rep.ok(rule, f"{fq} :: {len(rets)} `return True` paths", "each passes _read_pdu_data() or socket.close()")
