"""C12 - association requests and responses pynetdicom sends are structurally conformant."""

from __future__ import annotations

import ast

from ..cfg import CFG, calls_at
from ..loader import AnalysisError, Repo, body_nodoc, dotted, norm, walk_no_nested, enclosing, qualname, strip_cast
from ..report import Report

LEVEL = "other"
EXPLANATION = (
    "Structural clauses. (ids) AE.associate numbers the requested contexts 2*i+1 over enumerate() "
    "after a dominating `len <= 128` check, so ids are distinct, odd and <= 255. (validated) every "
    "path from AE.associate to the request leaving passes a check that each context has an "
    "abstract syntax and a non-empty transfer-syntax list. (items) A_ASSOCIATE_RQ/AC.from_primitive "
    "append exactly one application-context and one user-information item and one "
    "presentation-context item per list element; ServiceUser keeps exactly one maximum-length "
    "and at most one implementation-class / version item (update-or-append for/else, who-writes "
    "set of _user_info). (strings) the wire AE-title and UID fields are written only by their "
    "validating setters (set_ae(.., allow_empty=False) / set_uid). (ac) the A-ASSOCIATE-AC result "
    "list is accepted + rejected, i.e. one per proposed context (C10). Not decided: validator "
    "semantics on arbitrary strings."
    " Fourth session: (ac-results) also C10's one-result evaluation of the largest request PS3.8 allows."
    ' Fifth round: (ac-partition) by evaluation, inline or in a helper; the context-list setters are evaluated with an instance of a *subclass* of PresentationContext, which must be validated like the class itself.'
)


def run(repo: Repo, rep: Report, tier: str) -> None:
    rep.rule("ids", "context ids are 2*i+1 over enumerate(contexts) with a dominating 1..128 count check")
    rep.rule("validated", "every requested context sent has an abstract syntax and at least one transfer syntax")
    rep.rule("items", "exactly one application-context and one user-information item; exactly one maximum-length and one implementation-class-UID sub-item")
    rep.rule("strings", "wire AE titles / UIDs are written only through validating setters (not empty, not all spaces)")
    rep.rule("ac-results", "A-ASSOCIATE-AC carries accepted + rejected = one result per proposed context")
    ae = repo.mod("ae")
    fn = repo.func("ae", "ApplicationEntity.associate")
    fq = "ae.ApplicationEntity.associate"
    cfg = CFG(fn, body=body_nodoc(fn), local_exc_only=True)

    # ---- ids -----------------------------------------------------------------
    loops = [f for f in walk_no_nested(fn) if isinstance(f, ast.For) and "enumerate(contexts)" in norm(f.iter)]
    rep.need(len(loops) == 1, f"{fq}: context numbering loop vanished")
    lp = loops[0]
    idx, var = [norm(e) for e in lp.target.elts] if isinstance(lp.target, ast.Tuple) else (None, None)
    assigns = [s for s in lp.body if isinstance(s, ast.Assign) and norm(s.targets[0]) == f"{var}.context_id"]
    ok = len(assigns) == 1 and len(lp.body) == 1 and norm(lp.iter) == "enumerate(contexts)"
    if ok:
        v = assigns[0].value
        # 2*i+1 in any commutative arrangement
        okv = norm(v) in (f"2 * {idx} + 1", f"{idx} * 2 + 1", f"1 + 2 * {idx}", f"1 + {idx} * 2")
        ok = okv
    rep.check(ok, "ids", fq, lp, "ids must be 2*i+1 for i = 0, 1, ...: distinct and odd", mod=ae)
    val = [n for n in cfg.nodes if n.kind == "stmt" and any(dotted(c.func) == "self._validate_requested_contexts" for c in calls_at(n))]
    lpn = [n for n in cfg.nodes if n.kind == "iter" and n.ast is lp]
    rep.need(len(lpn) == 1, f"{fq}: numbering loop not in CFG")
    ok = len(val) == 1 and cfg.dominates(val[0], lpn[0]) and norm(val[0].ast) == "self._validate_requested_contexts(contexts)"
    rep.check(ok, "ids", fq, "_validate_requested_contexts(contexts) dominates the numbering", "the <= 128 check must precede the numbering, otherwise 2*i+1 exceeds 255", mod=ae, node=fn)
    # nothing rebinds `contexts` to something else between validation and numbering except deepcopy
    rebinds = [s for s in walk_no_nested(fn) if isinstance(s, ast.Assign) and norm(s.targets[0]) == "contexts"]
    PER_ELEMENT = ("[deepcopy(cx) for cx in contexts]", "[copy.deepcopy(cx) for cx in contexts]", "[deepcopy(c) for c in contexts]", "list(map(deepcopy, contexts))")
    okr = all(norm(s.value) in ("contexts or self.requested_contexts",) + PER_ELEMENT + ("deepcopy(contexts)",) for s in rebinds)
    if val:
        okr = okr and all(s.lineno < val[0].line or norm(s.value) in PER_ELEMENT + ("deepcopy(contexts)",) for s in rebinds)
    # the numbered objects must be pairwise distinct: deepcopy() of the whole list preserves aliasing between
    # its elements (the same context object passed twice stays one object and is numbered twice)
    whole = [s for s in rebinds if norm(s.value) in ("deepcopy(contexts)", "copy.deepcopy(contexts)", "copy(contexts)", "list(contexts)", "contexts[:]")]
    for s_ in whole:
        rep.fail("ids", fq, s_, "the requested contexts are copied as a whole list: aliasing between elements survives, so the same PresentationContext object used twice in `contexts` is one object numbered twice - duplicate presentation context ids on the wire (copy each element on its own)", mod=ae, node=s_)
    shallow = [s for s in rebinds if isinstance(s.value, (ast.ListComp, ast.Call)) and any(isinstance(c_, ast.Call) and dotted(c_.func) in ("copy", "copy.copy") for c_ in ast.walk(s.value))]
    for s_ in shallow:
        rep.fail("validated", fq, s_, "the requested contexts are copied shallowly: each copy shares its transfer-syntax list with the caller's / the AE's live context, so a change made after validation (remove_requested_context(uid, [ts]) from another thread or an EVT_CONN_OPEN handler, before the DUL thread encodes the request) is sent unvalidated - down to a context with no transfer syntax at all", mod=ae, node=s_)
    if not whole and not shallow:
        rep.ok("ids", f"{fq} :: contexts copied per element", "pairwise distinct context objects")
    rep.check(okr, "ids", fq, f"contexts rebound by {[norm(s.value) for s in rebinds]}", "the validated list must be the one numbered and sent (a copy is fine)", mod=ae, node=fn)
    vf = repo.func("ae", "ApplicationEntity._validate_requested_contexts")
    lim = [i for i in walk_no_nested(vf) if isinstance(i, ast.If) and "len(contexts)" in norm(i.test)]
    okl = False
    if len(lim) == 1 and isinstance(lim[0].test, ast.Compare):
        t = lim[0].test
        c = t.comparators[0]
        okl = isinstance(c, ast.Constant) and ((isinstance(t.ops[0], ast.Gt) and c.value == 128) or (isinstance(t.ops[0], ast.GtE) and c.value == 129)) and any(isinstance(s, ast.Raise) for s in lim[0].body)
    rep.check(okl, "ids", "ae.ApplicationEntity._validate_requested_contexts", lim[0] if lim else "len check", "more than 128 contexts must be refused (id 2*127+1 = 255 is the largest)", mod=ae, node=vf)
    empty = [n for n in cfg.nodes if n.kind == "test" and norm(n.ast.test) == "not contexts"]
    ok = len(empty) == 1 and any(isinstance(s, ast.Raise) for s in empty[0].ast.body) and cfg.dominates(empty[0], lpn[0])
    rep.check(ok, "ids", fq, "empty context list refused", "an A-ASSOCIATE-RQ must contain at least one presentation context", mod=ae, node=fn)
    setn = [n for n in cfg.nodes if n.kind == "stmt" and norm(n.ast) == "assoc.requestor.requested_contexts = contexts"]
    rq = [n for n in cfg.nodes if n.kind == "stmt" and norm(n.ast) == "assoc.request()"]
    ok = len(setn) == 1 and len(rq) == 1 and cfg.dominates(lpn[0], setn[0]) and cfg.dominates(setn[0], rq[0])
    rep.check(ok, "ids", fq, "numbered list -> requestor.requested_contexts -> request()", "the numbered contexts are the ones proposed", mod=ae, node=fn)

    # ---- validated --------------------------------------------------------------
    checks = []
    for n in walk_no_nested(vf):
        if isinstance(n, (ast.If,)):
            t = norm(n.test)
            if "transfer_syntax" in t and "abstract_syntax" in t and any(isinstance(s, ast.Raise) for s in n.body):
                checks.append(n)
    rep.check(bool(checks), "validated", "ae.ApplicationEntity._validate_requested_contexts", "each context: abstract syntax set and transfer_syntax non-empty, else raise", "nothing refuses a requested context without an abstract syntax or with an empty transfer-syntax list: associate(contexts=[cx]) with cx.transfer_syntax == [] sends a presentation-context item with no transfer-syntax sub-item (PS3.8 Table 9-13 requires one or more)", mod=ae, node=vf)
    if checks:
        t = norm(checks[0].test)
        okc = ("abstract_syntax is None" in t or "not cx.abstract_syntax" in t or "not ii.abstract_syntax" in t) and ("not cx.transfer_syntax" in t or "not ii.transfer_syntax" in t or "len(" in t) and "for" in t and "in contexts" in t
        rep.check(okc, "validated", "ae.ApplicationEntity._validate_requested_contexts", checks[0], "the check must quantify over every context in the list", mod=ae, node=checks[0])
    # ACSE side: at least one requested context
    acse = repo.mod("acse")
    nr = repo.func("acse", "ACSE._negotiate_as_requestor")
    g = [i for i in walk_no_nested(nr) if isinstance(i, ast.If) and norm(i.test) == "not self.requestor.requested_contexts"]
    rep.check(len(g) == 1 and any(isinstance(s, ast.Return) for s in g[0].body) and g[0].lineno < [c for c in walk_no_nested(nr) if isinstance(c, ast.Call) and dotted(c.func) == "self.send_request"][0].lineno, "validated", "acse.ACSE._negotiate_as_requestor", "no requested contexts -> no request sent", "an A-ASSOCIATE-RQ without presentation contexts must not be sent", mod=acse, node=nr)

    # ---- items -------------------------------------------------------------------
    pdu = repo.mod("pdu")
    for cname, lst, item in (("A_ASSOCIATE_RQ", "primitive.presentation_context_definition_list", "PresentationContextItemRQ"), ("A_ASSOCIATE_AC", "primitive.presentation_context_definition_results_list", "PresentationContextItemAC")):
        fp = repo.func("pdu", f"{cname}.from_primitive")
        fqp = f"pdu.{cname}.from_primitive"
        top = body_nodoc(fp)
        appends_top = [s for s in top if isinstance(s, ast.Expr) and isinstance(s.value, ast.Call) and norm(s.value.func) == "self.variable_items.append"]
        ctor = {norm(s.targets[0]): norm(s.value) for s in walk_no_nested(fp) if isinstance(s, ast.Assign) and isinstance(s.value, ast.Call)}
        kinds = [ctor.get(norm(a.value.args[0]), "?") for a in appends_top]
        rep.check(sorted(kinds) == ["ApplicationContextItem()", "UserInformationItem()"], "items", fqp, f"top-level appends: {kinds}", "exactly one application-context item and one user-information item", mod=pdu, node=fp)
        loops = [f for f in top if isinstance(f, ast.For)]
        okl = len(loops) == 1 and norm(loops[0].iter) == lst and sum(1 for s in loops[0].body if isinstance(s, ast.Expr) and isinstance(s.value, ast.Call) and norm(s.value.func) == "self.variable_items.append") == 1 and any(norm(s.value) == f"{item}()" for s in loops[0].body if isinstance(s, ast.Assign))
        rep.check(okl, "items", fqp, f"one {item} per element of {lst}", "one presentation-context item per context of the primitive", mod=pdu, node=fp)
        all_app = [c for c in walk_no_nested(fp) if isinstance(c, ast.Call) and norm(c.func) == "self.variable_items.append"]
        rep.check(len(all_app) == 3, "items", fqp, f"{len(all_app)} append sites", "no other item may be added to the PDU", mod=pdu, node=fp)
    # user information: update-or-append for the notification items
    assoc = repo.mod("association")
    su = repo.cls("association", "ServiceUser")
    for prop, cls in (("maximum_length", "MaximumLengthNotification"), ("implementation_class_uid", "ImplementationClassUIDNotification"), ("implementation_version_name", "ImplementationVersionNameNotification")):
        st = su.setters.get(prop)
        rep.need(st is not None, f"ServiceUser.{prop} setter vanished")
        fors = [f for f in walk_no_nested(st) if isinstance(f, ast.For) and norm(f.iter) == "self._user_info" and f.orelse]
        ok = False
        if fors:
            f = fors[-1]
            upd = [i for i in f.body if isinstance(i, ast.If) and norm(i.test) == f"isinstance(item, {cls})" and any(isinstance(s, ast.Break) for s in i.body)]
            app = [s for s in f.orelse if isinstance(s, ast.Expr) and norm(s.value) == "self._user_info.append(item)"]
            mk = [s for s in f.orelse if isinstance(s, ast.Assign) and norm(s.value) == f"{cls}()"]
            ok = len(upd) == 1 and len(app) == 1 and len(mk) == 1
        rep.check(ok, "items", f"association.ServiceUser.{prop}:setter", f"update the existing {cls} or append one", "setting the value twice must not produce two sub-items", mod=assoc, node=st)
    writers = set()
    for n in ast.walk(su.node):
        if isinstance(n, ast.Attribute) and n.attr == "_user_info" and norm(n.value) == "self":
            p = getattr(n, "_parent", None)
            if isinstance(n.ctx, ast.Store) or (isinstance(p, ast.Attribute) and p.attr in ("append", "remove", "extend", "insert", "clear", "pop")):
                writers.add(qualname(n).split(".")[-1])
    rep.check(writers <= {"__init__", "maximum_length", "implementation_class_uid", "implementation_version_name"}, "items", "association.ServiceUser", f"_user_info written by {sorted(writers)}", "the notification sub-items may only be written by their update-or-append setters", mod=assoc, node=su.node)
    init = su.methods["__init__"]
    src = [norm(s) for s in walk_no_nested(init) if isinstance(s, ast.stmt)]
    rep.check("self.maximum_length = DEFAULT_MAX_LENGTH" in src and "self.implementation_class_uid = assoc.ae.implementation_class_uid" in src, "items", "association.ServiceUser.__init__", "maximum length and implementation class UID always present", "both mandatory sub-items must exist from construction", mod=assoc, node=init)
    ui = su.getters["user_information"]
    rep.check(any(norm(r.value) == "self._user_info + self.extended_negotiation" for r in walk_no_nested(ui) if isinstance(r, ast.Return)), "items", "association.ServiceUser.user_information", "_user_info + extended_negotiation", "the user information sent is the notification items plus the negotiation items", mod=assoc, node=ui)
    # primitives refuse to be sent without the implementation class uid / with a wrong type list
    sr = repo.func("acse", "ACSE.send_request")
    srcs = [norm(s) for s in walk_no_nested(sr) if isinstance(s, ast.stmt)]
    need_ = ["primitive.application_context_name = UID(APPLICATION_CONTEXT_NAME)", "primitive.calling_ae_title = self.requestor.ae_title", "primitive.called_ae_title = self.acceptor.ae_title", "primitive.presentation_context_definition_list = self.requestor.requested_contexts", "primitive.user_information = self.requestor.user_information", "self.dul.send_pdu(primitive)"]
    rep.check(all(x in srcs for x in need_), "items", "acse.ACSE.send_request", "request primitive built from the requestor's titles, contexts and user information", "the A-ASSOCIATE-RQ must carry the application context, both titles, the requested contexts and the user information", mod=acse, node=sr)

    # ---- strings ----------------------------------------------------------------------
    checks_s = [
        ("pdu", "A_ASSOCIATE_RQ", "_called_aet", "called_ae_title", "set_ae(value, 'Called AE Title', False, False)"),
        ("pdu", "A_ASSOCIATE_RQ", "_calling_aet", "calling_ae_title", "set_ae(value, 'Calling AE Title', False, False)"),
        ("pdu_primitives", "A_ASSOCIATE", "_called_ae_title", "called_ae_title", "set_ae(value, 'Called AE Title', False, False)"),
        ("pdu_primitives", "A_ASSOCIATE", "_calling_ae_title", "calling_ae_title", "set_ae(value, 'Calling AE Title', False, False)"),
        ("association", "ServiceUser", "_ae_title", "ae_title", "set_ae(value, 'ae_title', False, False)"),
    ]
    for mname, cname, field, prop, call in checks_s:
        ci = repo.cls(mname, cname)
        m = repo.mod(mname)
        st = ci.setters.get(prop)
        rep.need(st is not None, f"{cname}.{prop} setter vanished")
        ws = [s for s in walk_no_nested(st) if isinstance(s, ast.Assign) and norm(s.targets[0]) == f"self.{field}"]
        ok = False
        if len(ws) == 1:
            from ..loader import bind_args
            sa_fn = repo.func("utils", "set_ae")
            for c_ in [c_ for c_ in ast.walk(ws[0].value) if isinstance(c_, ast.Call) and dotted(c_.func) == "set_ae"]:
                b_ = bind_args(c_, sa_fn)
                # the value stored is the setter's argument, validated, and neither empty nor None is let through
                ok = norm(b_.get("value")) == st.args.args[1].arg and isinstance(b_.get("allow_empty"), ast.Constant) and b_["allow_empty"].value is False and isinstance(b_.get("allow_none"), ast.Constant) and b_["allow_none"].value is False
        rep.check(ok, "strings", f"{mname}.{cname}.{prop}:setter", ws[0] if ws else f"self.{field} = ?", "the title must be stored through set_ae(.., allow_empty=False, allow_none=False): validated and not all spaces", mod=m, node=st)
        # who else writes the field
        for n in ast.walk(ci.node):
            if isinstance(n, ast.Attribute) and n.attr == field and isinstance(n.ctx, ast.Store) and norm(n.value) == "self":
                q = qualname(n).split(".")[-1]
                okw = q == prop or (q == "__init__" and isinstance(getattr(n, "_parent", None), (ast.Assign, ast.AnnAssign)) and isinstance(getattr(n, "_parent").value, ast.Constant) and isinstance(getattr(n, "_parent").value.value, str))
                rep.check(okw, "strings", f"{mname}.{cname}.{q}", getattr(n, "_parent", n), f"{field} written outside its validating setter", mod=m, node=n)
    # set_ae rejects empty / all-space values when allow_empty is False
    ut = repo.mod("utils")
    sa_ = repo.func("utils", "set_ae")
    g = [i for i in walk_no_nested(sa_) if isinstance(i, ast.If) and norm(i.test) == "not allow_empty and (not value.strip())"]
    rep.check(len(g) == 1 and any(isinstance(s, ast.Raise) for s in g[0].body), "strings", "utils.set_ae", "not allow_empty and not value.strip() -> raise", "an AE title that is empty or entirely spaces must be refused", mod=ut, node=sa_)
    v = [i for i in walk_no_nested(sa_) if isinstance(i, ast.If) and norm(i.test) == "not result"]
    rep.check(len(v) == 1 and any(isinstance(s, ast.Raise) for s in v[0].body) and any("_config.VALIDATORS['AE'](value)" in norm(s) for s in walk_no_nested(sa_) if isinstance(s, ast.stmt)), "strings", "utils.set_ae", "validator verdict enforced", "an invalid AE title must be refused", mod=ut, node=sa_)
    su_ = repo.func("utils", "set_uid")
    v = [i for i in walk_no_nested(su_) if isinstance(i, ast.If) and norm(i.test) == "not result"]
    rep.check(len(v) == 1 and any(isinstance(s, ast.Raise) for s in v[0].body) and any("_config.VALIDATORS['UI'](value)" in norm(s) for s in walk_no_nested(su_) if isinstance(s, ast.stmt)), "strings", "utils.set_uid", "validator verdict enforced", "an invalid UID must be refused", mod=ut, node=su_)
    # item-level UID fields go through set_uid
    items = repo.mod("pdu_items")
    n_uid = 0
    for cname, ci in items.classes.items():
        for prop, st in ci.setters.items():
            ws = [s for s in walk_no_nested(st) if isinstance(s, ast.Assign) and isinstance(s.targets[0], ast.Attribute) and s.targets[0].attr.startswith("_") and ("uid" in s.targets[0].attr or "syntax_name" in s.targets[0].attr or "context_name" in s.targets[0].attr) and "length" not in s.targets[0].attr]
            for w in ws:
                n_uid += 1
                ok = "set_uid(" in norm(w.value)
                rep.check(ok, "strings", f"pdu_items.{cname}.{prop}:setter", w, "a UID field on the wire must be stored through set_uid()", mod=items, node=w)
    rep.floor("item UID setters", n_uid, 8)

    # ---- ac results ------------------------------------------------------------------------
    sa2 = repo.func("acse", "ACSE.send_accept")
    srca = [norm(s) for s in walk_no_nested(sa2) if isinstance(s, ast.stmt)]
    rep.check("primitive.presentation_context_definition_results_list = self.assoc.accepted_contexts + self.assoc.rejected_contexts" in srca and "primitive.user_information = self.acceptor.user_information" in srca and "primitive.result = 0" in srca, "ac-results", "acse.ACSE.send_accept", "results = accepted + rejected; user information; result 0", "the A-ASSOCIATE-AC must answer every proposed context (accepted or rejected) exactly once", mod=acse, node=sa2)
    acp = repo.func("pdu_items", "PresentationContextItemAC.from_primitive")
    srcp = [norm(s) for s in walk_no_nested(acp) if isinstance(s, ast.stmt)]
    rep.check("transfer_syntax.transfer_syntax_name = primitive.transfer_syntax[0]" in srcp and "self.transfer_syntax_sub_item = [transfer_syntax]" in srcp and "self.result_reason = primitive.result" in srcp and "self.presentation_context_id = primitive.context_id" in srcp, "ac-results", "pdu_items.PresentationContextItemAC.from_primitive", "id, result and exactly one transfer syntax (the chosen one)", "each result item carries the context id, the result and one transfer syntax", mod=items, node=acp)

    # ---- accepted / rejected is a partition of the negotiation result ---------------------------
    from ..delegate import delegate as _delegate
    _delegate(repo, rep, tier, "C10", ("one-result",), "ac-results", "the A-ASSOCIATE-AC does not carry exactly one result item per proposed presentation context (items missing for some ids, ids repeated): the response is not structurally conformant")
    # the primitive keeps every context it is given: AE.associate() validates and numbers whatever is an instance of
    # PresentationContext (subclasses included) - a setter that filters by class *name* drops subclass instances with a
    # warning, and the request goes out without contexts the requestor believes it proposed
    from ..minipy import Interp as _I12, Obj as _O12, Raised as _R12, Unsupported as _U12
    pp_ = repo.mod("pdu_primitives")
    aci_ = pp_.classes.get("A_ASSOCIATE")
    for prop_ in ("presentation_context_definition_list", "presentation_context_definition_results_list"):
        st_ = aci_.setters.get(prop_) if aci_ is not None else None
        if st_ is None:
            rep.defer(f"pdu_primitives.A_ASSOCIATE.{prop_}: setter vanished")
            continue
        plain = _O12("PresentationContext", {"context_id": 1})
        plain.attrs["__class__"] = _O12("type", {"__name__": "PresentationContext"})
        sub = _O12("AuditedContext", {"context_id": 3, "@bases": ("PresentationContext",)})
        sub.attrs["__class__"] = _O12("type", {"__name__": "AuditedContext"})
        me_ = _O12("A_ASSOCIATE", {"_" + prop_: None})
        try:
            _I12({"PresentationContext": "PresentationContext"}).call_function(st_, dict(zip([a.arg for a in st_.args.args], [me_, [plain, sub]])))
            kept = me_.attrs.get("_" + prop_)
            okk = isinstance(kept, list) and len(kept) == 2 and kept[0] is plain and kept[1] is sub
            rep.check(okk, "validated", f"pdu_primitives.A_ASSOCIATE.{prop_}", f"[PresentationContext, subclass instance] -> {len(kept) if isinstance(kept, list) else kept!r} kept", "the primitive drops a context that AE.associate() accepted, numbered and reports as proposed (an instance of a PresentationContext subclass): the A-ASSOCIATE-RQ carries fewer context items than were validated - possibly none", mod=pp_, node=st_)
        except _R12 as r_:
            rep.fail("validated", f"pdu_primitives.A_ASSOCIATE.{prop_}", f"raises {r_.kind}", "the setter refuses a list of valid contexts", mod=pp_, node=st_)
        except _U12 as exc:
            rep.defer(f"pdu_primitives.A_ASSOCIATE.{prop_}: setter not evaluable ({exc})")
    rep.rule("ac-partition", "every negotiated context lands in exactly one of accepted / rejected: the A-ASSOCIATE-AC answers all of them")
    na = repo.func("acse", "ACSE._negotiate_as_acceptor")
    fqn = "acse.ACSE._negotiate_as_acceptor"
    # decided by evaluating the statements (inline or in a helper method) on contexts with every result code
    from ..nego_eval import eval_context_partition
    from ..minipy import Unsupported as _Unsup12
    try:
        probs, n_sites = eval_context_partition(repo, na)
        rep.check(n_sites >= 1 and not probs, "ac-partition", fqn, probs[0][0] if probs else "accepted = result 0, rejected = every other result", f"a negotiated context that is neither accepted nor rejected (e.g. result 0x01, refused through role selection) gets no result item in the A-ASSOCIATE-AC: PS3.8 requires one result item per proposed context{': ' + probs[0][1] if probs else ''}", mod=repo.mod("acse"), node=probs[0][0] if probs else na)
    except _Unsup12 as exc:
        rep.defer(f"{fqn}: the accepted / rejected partition could not be evaluated ({exc})")
    check_validators(repo, rep)

# ---- validator character classes ------------------------------------------------------------
def _forbidden_from_predicate(pred: ast.AST, var: str, mod) -> set[int] | None:
    """set of ASCII code points c for which the per-character predicate `pred` (over name `var`)
    is true, for the recognised predicate shapes; None when the shape is not recognised"""
    import unicodedata

    t = norm(pred)
    if t in (f"unicodedata.category({var})[0] == 'C'", f"unicodedata.category({var}).startswith('C')"):
        return {c for c in range(128) if unicodedata.category(chr(c))[0] == "C"}
    if t in (f"unicodedata.category({var}) == 'Cc'",):
        return {c for c in range(128) if unicodedata.category(chr(c)) == "Cc"}
    if isinstance(pred, ast.Compare) and len(pred.ops) == 1 and isinstance(pred.ops[0], ast.In) and norm(pred.left) == var and isinstance(pred.comparators[0], ast.Constant) and isinstance(pred.comparators[0].value, str):
        return {ord(ch) for ch in pred.comparators[0].value if ord(ch) < 128}
    if isinstance(pred, ast.Compare) and len(pred.ops) == 1 and norm(pred.left) == f"ord({var})" and isinstance(pred.comparators[0], ast.Constant) and isinstance(pred.comparators[0].value, int):
        k = pred.comparators[0].value
        op = pred.ops[0]
        f = {ast.Lt: lambda c: c < k, ast.LtE: lambda c: c <= k, ast.Gt: lambda c: c > k, ast.GtE: lambda c: c >= k, ast.Eq: lambda c: c == k}.get(type(op))
        if f is not None:
            return {c for c in range(128) if f(c)}
    if isinstance(pred, ast.BoolOp):
        parts = [_forbidden_from_predicate(v, var, mod) for v in pred.values]
        if any(p is None for p in parts):
            return None
        out = parts[0]
        for p in parts[1:]:
            out = (out | p) if isinstance(pred.op, ast.Or) else (out & p)
        return out
    return None


def _regex_single_class(pattern: str) -> set[int] | None:
    """ASCII code points matched by a literal regex that is one character class (optionally repeated)"""
    import re
    import re._parser as sre_parse

    try:
        items = list(sre_parse.parse(pattern))
    except Exception:
        return None
    if len(items) != 1:
        return None
    op, arg = items[0]
    if str(op) in ("MAX_REPEAT", "MIN_REPEAT"):
        lo, hi, sub = arg
        sub = list(sub)
        if lo < 1 or len(sub) != 1:
            return None
        op, arg = sub[0]
    if str(op) not in ("IN", "LITERAL", "NOT_LITERAL", "CATEGORY"):
        return None
    rx = re.compile(pattern)
    return {c for c in range(128) if rx.fullmatch(chr(c)) is not None}


def ae_validator_model(repo: Repo, rep: Report):
    """-> (max_len, allowed ASCII set, non-ASCII allowed?) of _validators.validate_ae, from its early-return chain"""
    vm = repo.mod("_validators")
    fn = vm.funcs.get("validate_ae")
    rep.need(fn is not None, "_validators.validate_ae vanished")
    var = fn.args.args[0].arg
    forbidden: set[int] = set()
    max_len = None
    ascii_only = False
    locals_forbidden: dict[str, set[int]] = {}
    unknown = []
    body = body_nodoc(fn)
    for s in body:
        if isinstance(s, ast.Assign) and isinstance(s.targets[0], ast.Name) and isinstance(s.value, (ast.ListComp, ast.GeneratorExp, ast.SetComp)) and len(s.value.generators) == 1 and norm(s.value.generators[0].iter) == var and len(s.value.generators[0].ifs) == 1:
            g = s.value.generators[0]
            f = _forbidden_from_predicate(g.ifs[0], norm(g.target), vm)
            if f is None:
                unknown.append(norm(s))
            else:
                locals_forbidden[s.targets[0].id] = f
            continue
        if isinstance(s, ast.If):
            rejects = s.body and isinstance(s.body[-1], ast.Return) and isinstance(s.body[-1].value, ast.Tuple) and isinstance(s.body[-1].value.elts[0], ast.Constant) and s.body[-1].value.elts[0].value is False
            if not rejects:
                unknown.append(norm(s.test))
                continue
            conds = s.test.values if isinstance(s.test, ast.BoolOp) and isinstance(s.test.op, ast.Or) else [s.test]
            for c in conds:
                t = norm(c)
                if t == f"not isinstance({var}, str)":
                    continue
                if isinstance(c, ast.Compare) and norm(c.left) == f"len({var})" and isinstance(c.ops[0], (ast.Gt, ast.GtE)) and isinstance(c.comparators[0], ast.Constant):
                    k = c.comparators[0].value
                    max_len = k if isinstance(c.ops[0], ast.Gt) else k - 1
                    continue
                if t == f"not {var}.isascii()":
                    ascii_only = True
                    continue
                if isinstance(c, ast.Name) and c.id in locals_forbidden:
                    forbidden |= locals_forbidden[c.id]
                    continue
                if isinstance(c, ast.Compare) and isinstance(c.ops[0], ast.In) and norm(c.comparators[0]) == var and isinstance(c.left, ast.Constant) and isinstance(c.left.value, str) and len(c.left.value) == 1:
                    forbidden.add(ord(c.left.value))
                    continue
                if isinstance(c, ast.Call) and isinstance(c.func, ast.Attribute) and c.func.attr in ("search",) and len(c.args) == 1 and norm(c.args[0]) == var:
                    # PATTERN.search(value) with PATTERN = re.compile(<literal>) at module level, or re.search(<literal>, value)
                    pat = None
                    recv = norm(c.func.value)
                    for st in vm.assign_stmts.get(recv, []):
                        v = getattr(st, "value", None)
                        if isinstance(v, ast.Call) and dotted(v.func) == "re.compile" and v.args and isinstance(v.args[0], ast.Constant):
                            pat = v.args[0].value
                    cls = _regex_single_class(pat) if pat is not None else None
                    if cls is None:
                        unknown.append(t)
                    else:
                        forbidden |= cls
                    continue
                if isinstance(c, ast.Call) and dotted(c.func) == "re.search" and len(c.args) == 2 and norm(c.args[1]) == var and isinstance(c.args[0], ast.Constant):
                    cls = _regex_single_class(c.args[0].value)
                    if cls is None:
                        unknown.append(t)
                    else:
                        forbidden |= cls
                    continue
                unknown.append(t)
            continue
        if isinstance(s, ast.Return):
            continue
        if isinstance(s, (ast.Import, ast.ImportFrom)):
            continue
        unknown.append(norm(s)[:60])
    allowed = set(range(128)) - forbidden
    return fn, vm, max_len, allowed, ascii_only, unknown


def check_validators(repo: Repo, rep: Report) -> None:
    rep.rule("ae-legal", "validate_ae accepts exactly strings of at most 16 characters from 0x20-0x7E without backslash (PS3.5 Table 6.2-1, VR AE), decided from the validator's early-return chain as a character-class model")
    rep.rule("ui-legal", "validate_ui refuses UIDs that are not legal for VR UI whatever the configuration")
    fn, vm, max_len, allowed, ascii_only, unknown = ae_validator_model(repo, rep)
    for u in unknown:
        rep.defer(f"_validators.validate_ae: condition not modelled: {u}")
    want = set(range(0x20, 0x7F)) - {0x5C}
    extra = sorted(allowed - want)
    missing = sorted(want - allowed)
    if not unknown:
        rep.check(max_len == 16, "ae-legal", "_validators.validate_ae", f"maximum length {max_len}", "an AE title is at most 16 characters", mod=vm, node=fn)
        rep.check(ascii_only, "ae-legal", "_validators.validate_ae", "non-ASCII refused", "AE titles are restricted to the default character repertoire", mod=vm, node=fn)
        rep.check(not extra, "ae-legal", "_validators.validate_ae", f"accepted characters outside the VR: {[hex(c) for c in extra]}", f"validate_ae lets the character(s) {[hex(c) for c in extra]} through: an AE title containing them is put on the wire although it is not legal for VR AE (control characters and backslash are excluded)", mod=vm, node=fn)
        rep.check(not missing, "ae-legal", "_validators.validate_ae", f"legal characters refused: {[hex(c) for c in missing]}", "validate_ae refuses characters that are legal for VR AE", mod=vm, node=fn)
    rep.counters["AE characters accepted"] = len(allowed)
    # UI
    vu = vm.funcs.get("validate_ui")
    rep.need(vu is not None, "_validators.validate_ui vanished")
    # every `return True` must be dominated by a positive `value.is_valid` test
    ok = True
    for r in [r for r in ast.walk(vu) if isinstance(r, ast.Return) and isinstance(r.value, ast.Tuple) and isinstance(r.value.elts[0], ast.Constant) and r.value.elts[0].value is True]:
        g = enclosing(r, (ast.If,))
        guarded = False
        while g is not None:
            if norm(g.test).endswith(".is_valid") and any(x is r for s in g.body for x in ast.walk(s)):
                guarded = True
            g = enclosing(g, (ast.If,))
        # or an earlier `if not value.is_valid: return False` at function level
        early = any(isinstance(i, ast.If) and norm(i.test).startswith("not ") and norm(i.test).endswith(".is_valid") and i.lineno < r.lineno and isinstance(i.body[-1], ast.Return) for i in body_nodoc(vu))
        if not (guarded or early):
            ok = False
            rep.fail("ui-legal", "_validators.validate_ui", r, "a UID is accepted without the VR UI conformance test (pydicom's UID.is_valid): with the default configuration (ENFORCE_UID_CONFORMANCE = False) only the length is checked, so a UID with illegal characters or components with leading zeros is put on the wire", mod=vm, node=r)
    if ok:
        rep.ok("ui-legal", "_validators.validate_ui :: every accepting return follows an is_valid test")
    rep.floor("validate_ui evaluations", check_ui_accepts_legal(repo, rep), 10)


class _UIDStr(str):
    """a str with the one attribute of pydicom's UID the validator looks at"""


def check_ui_accepts_legal(repo: Repo, rep: Report, rule: str = "ui-legal") -> int:
    """validate_ui evaluated (sa/minipy.py) on legal UIDs of 1, 2, 63 and 64 characters - all must be
    accepted, with and without ENFORCE_UID_CONFORMANCE - and on one of 65 characters, which must be
    refused: 64 is the legal maximum (PS3.5 9.1); refusing it turns a conformant A-ASSOCIATE or DIMSE
    message into an 'invalid PDU' abort."""
    from ..minipy import Interp, Obj, Raised, Unsupported

    vm = repo.mod("_validators")
    fn = vm.funcs.get("validate_ui")
    if fn is None:
        rep.defer("_validators.validate_ui vanished")
        return 0
    n = 0
    consts = {}
    for k, v in vm.assigns.items():
        if isinstance(v[0], ast.Constant):
            consts[k] = v[0].value
    for enforce in (False, True):
        for length, want in ((1, True), (2, True), (63, True), (64, True), (65, False)):
            u = _UIDStr(("1." * 40)[: length - 1] + "1" if length > 1 else "1")
            u._minipy_attrs = {"is_valid": length <= 64, "is_private": False}
            g = dict(consts)
            g["_config"] = Obj("_config", {"ENFORCE_UID_CONFORMANCE": enforce})
            g["UID"] = lambda x: x
            it = Interp(g)
            n += 1
            try:
                res = it.call_function(fn, {fn.args.args[0].arg: u})
            except Unsupported as exc:
                rep.defer(f"_validators.validate_ui: not evaluable ({exc})")
                return n
            except Raised as r:
                res = (f"raises {r.kind}", "")
            got = res[0] if isinstance(res, tuple) else res
            rep.check(got is want, rule, "_validators.validate_ui", f"a legal UID of {length} characters, ENFORCE_UID_CONFORMANCE={enforce} -> {got}", f"validate_ui must {'accept' if want else 'refuse'} a well-formed UID of {length} characters (the legal maximum is 64): {'a conformant PDU / DIMSE message carrying it is treated as invalid and the association aborted' if want else 'an over-long UID is put on the wire'}", mod=vm, node=fn)
    return n
