"""C11 - requestor and acceptor end up with the same view of the negotiated contexts."""

from __future__ import annotations

import ast
import json

from ..loader import AnalysisError, Repo, body_nodoc, dotted, norm, walk_no_nested, enclosing
from ..nego_model import AcceptorModel, RequestorModel, RoleTable, wire_normalisation
from ..pdu_model import PduModel
from ..report import Report, VERIF
from .c01 import code_layout
from .c10 import check_iteration_independent, check_one_result

LEVEL = "other"
EXPLANATION = (
    "Both ends of the role negotiation are extracted by shape into parameter records (which "
    "outcome elements each side reads, defaults, guards, None->False normalisation on the "
    "requestor, in the role sub-item codec and in the reply masks) and composed over the complete "
    "finite space: requestor proposal in {absent} + {True, False, None}^2, acceptor role setting in "
    "{True, False, None}^2, both negotiation modes. For every point the acceptor's (result, as_scu, "
    "as_scp, reply) and the requestor's (as_scu, as_scp) computed from that reply must agree on "
    "acceptance and be complementary. negotiate_as_requestor is checked structurally: one output "
    "per requested context id, abstract syntax from the request, transfer syntax/result from the "
    "reply with the same id, missing ids rejected, no loop-carried state. The wire leg is C01's "
    "layout of the three items involved. Not decided: concrete UID string encoding."
    " Second session: the acceptor's reply used for a context is looked up for that context in the same loop iteration on every path (typestate fresh / stale / foreign; try-except, .get and if-else spellings accepted); AE.associate() numbers every proposed context unconditionally with an odd ID affine and injective in its position (unique-ids)."
    " Fourth session: (private-contexts) borrowed from C10's config-copy; the requestor-side partition is evaluated like the acceptor's."
    ' Fifth round: the requestor side is evaluated on a two-context scenario whose outcome must not depend on the iteration order (iteration-independent); role helpers are followed.'
    ' Sixth round: (requestor-view) the A_ASSOCIATE.user_information setter is evaluated: every supported item comes out as it went in, a (False, False) role reply included.'
)

B3 = (True, False, None)


def run(repo: Repo, rep: Report, tier: str) -> None:
    rep.rule("complementary", "for every (proposal, acceptor setting, mode): same acceptance; requestor SCU <=> acceptor SCP and requestor SCP <=> acceptor SCU")
    rep.rule("normalisation", "a proposed role of None is treated as False identically by the requestor, the role sub-item codec and the acceptor's reply mask")
    rep.rule("requestor-view", "negotiate_as_requestor: one context per requested id; abstract syntax from the request; transfer syntax and result from the reply with that id; missing -> rejected")
    check_user_information_kept(repo, rep, "requestor-view")
    rep.rule("iteration-independent", "no loop-carried local state in negotiate_as_requestor's loop")
    rep.rule("wire", "role-selection and presentation-context items have the PS3.7/PS3.8 layout (SCU role before SCP role, id and result positions)")
    pres = repo.mod("presentation")
    rt = RoleTable(repo)
    table = rt.table
    # decisions are computed by evaluating the functions themselves (sa/nego_eval.py); the shape-derived
    # parameters of RequestorModel are only used for what they were written for (ACSE normalisation, lookup typestate)
    from ..minipy import Unsupported
    from ..nego_eval import NegoEval

    ne = NegoEval(repo)

    class _M:
        def __init__(self, fname):
            self.fname, self.fn = fname, repo.func("presentation", fname)
            self.fixed_setting = (True, True)

    normal, unres = _M("negotiate_as_acceptor"), _M("negotiate_unrestricted")
    rq = RequestorModel(repo)
    if rq.lookup_problem is None:
        rep.ok("iteration-independent", "presentation.negotiate_as_requestor :: ac_roles is bound in every iteration to this context's reply or (None, None)")
    else:
        g_, text_, path_ = rq.lookup_problem
        rep.fail("iteration-independent", "presentation.negotiate_as_requestor", g_, text_ + ": the requestor then decides its roles for this context from the acceptor's answer about another SOP class while the acceptor applies its defaults - the two ends disagree on who is SCU / SCP", mod=pres, node=g_, path=path_)
    try:
        d_rq = ne.requestor((None, None), 0, None)
        d_ac = ne.acceptor(None, (None, None))
        rep.check((d_rq.get("as_scu"), d_rq.get("as_scp")) == (True, False), "complementary", "presentation.negotiate_as_requestor", f"default roles {(d_rq.get('as_scu'), d_rq.get('as_scp'))}", "without a role reply the requestor is SCU only", mod=pres, node=rq.node)
        rep.check((d_ac.get("as_scu"), d_ac.get("as_scp")) == (False, True), "complementary", "presentation.negotiate_as_acceptor", f"default roles {(d_ac.get('as_scu'), d_ac.get('as_scp'))}", "without role negotiation the acceptor is SCP only", mod=pres, node=normal.fn)
    except Unsupported as exc:
        rep.defer(f"presentation negotiation not evaluable: {exc}")

    # ---- normalisation ------------------------------------------------------------
    acse = repo.mod("acse")
    rep.check(rq.applies_roles and rq.normalises, "normalisation", "acse.ACSE._negotiate_as_requestor", "cx.scu_role = cx.scu_role or False; cx.scp_role = cx.scp_role or False", "the requestor must apply its proposed roles to its requested contexts with None read as False, exactly as the role sub-item encodes them", mod=acse, node=rq.acse_fn)
    okw, wnode, none_on_wire = wire_normalisation(repo)
    rep.check(okw, "normalisation", "pdu_items.SCP_SCU_RoleSelectionSubItem.from_primitive", "None -> False, int(role); to_primitive: bool(role)", "the role sub-item must encode an unset role as 0 and decode to booleans", mod=repo.mod("pdu_items"), node=wnode)

    # ---- complementary over the finite space -----------------------------------------------
    proposals = [None] + [(a, b) for a in B3 for b in B3 if not (a is None and b is None)] + [(None, None)]
    settings = [(a, b) for a in B3 for b in B3]
    n = 0
    for mode, model, sets in (("normal", normal, settings), ("unrestricted", unres, [unres.fixed_setting])):
        for p in proposals:
            # what the requestor puts on the wire / keeps locally
            if p is None:
                wire_p, local_p = None, None
            else:
                wire_p = (bool(p[0]) if p[0] is not None else none_on_wire[0], bool(p[1]) if p[1] is not None else none_on_wire[1])
                local_p = (p[0] or False, p[1] or False) if rq.normalises else p
            for s in sets:
                n += 1
                try:
                    d = ne.acceptor(wire_p, s) if mode == "normal" else ne.unrestricted(wire_p)
                except Unsupported as exc:
                    rep.defer(f"presentation.{model.fname}: not evaluable on proposal={p}, setting={s}: {exc}")
                    continue
                if "result" not in d:
                    rep.fail("complementary", f"presentation.{model.fname}", f"[{mode}] proposal={p} setting={s}: {d}", "the acceptor does not produce one result for this proposed context (a table lookup without an entry raises at run time, or the context is dropped / duplicated)", mod=pres, node=model.fn)
                    continue
                reply = d["reply"]
                if reply is not None:
                    # what the role sub-item carries: two bits
                    reply = (bool(reply[0]), bool(reply[1]))
                try:
                    r = ne.requestor(local_p if local_p is not None else (None, None), d["result"], reply)
                except Unsupported as exc:
                    rep.defer(f"presentation.negotiate_as_requestor: not evaluable: {exc}")
                    continue
                if "result" not in r:
                    rep.fail("complementary", "presentation.negotiate_as_requestor", f"[{mode}] proposal={p} setting={s}: {r}", "the requestor does not produce one result for this proposed context (a table lookup without an entry raises at run time, or the context is dropped / duplicated)", mod=pres, node=rq.node)
                    continue
                r_scu, r_scp = r["as_scu"], r["as_scp"]
                rep.check(r["result"] == d["result"], "requestor-view", "presentation.negotiate_as_requestor", f"[{mode}] proposal={p} setting={s}: acceptor result {d['result']}, requestor records {r['result']}", "the requestor must record the acceptor's result for the context", mod=pres, node=rq.node)
                inst = f"[{mode}] proposal={p}, acceptor roles={s}"
                if d["result"] == 0:
                    ok = (r_scu == d["as_scp"]) and (r_scp == d["as_scu"])
                    rep.check(ok, "complementary", "presentation.SCP_SCU_ROLES", f"{inst}: requestor (scu={r_scu}, scp={r_scp}) vs acceptor (scu={d['as_scu']}, scp={d['as_scp']}), reply {reply}", "both sides accepted the context but their roles are not complementary: each may wait for the other to act", mod=pres, node=rt.node)
                else:
                    rep.ok("complementary", f"{inst}: rejected with result {d['result']} on both sides", "")
    rep.floor("role-space points", n, 90)
    # the same abstract syntax requested in two contexts, the first refused (no common transfer syntax), the second
    # accepted: each context is decided by the acceptor's answer for *that* context - the accepted one comes out
    # exactly as when it is requested alone, the refused one with the default roles
    n_rp = 0
    for lp_ in ((True, True), (True, False), (False, True), (False, False)):
        for rp_ in (None, (True, True), (True, False), (False, True), (False, False)):
            try:
                alone = ne.requestor(lp_, 0, rp_)
                first, second = ne.requestor_pair(lp_, rp_)
            except Unsupported as exc:
                rep.defer(f"presentation.negotiate_as_requestor: two-context scenario not evaluable: {exc}")
                continue
            n_rp += 1
            okp = second.get("result") == 0 and (second.get("as_scu"), second.get("as_scp")) == (alone.get("as_scu"), alone.get("as_scp")) and first.get("result") == 4
            rep.check(okp, "iteration-independent", "presentation.negotiate_as_requestor", f"[requested roles {lp_}, reply {rp_}] refused context -> {first}, accepted context -> {second}", f"two contexts with the same abstract syntax, the first refused and the second accepted: the accepted one must get the roles it gets when requested alone ({(alone.get('as_scu'), alone.get('as_scp'))}); an outcome computed once per abstract syntax from the first (refused) context gives the accepted one the default roles while the acceptor applies the negotiated ones - the two ends disagree", mod=pres, node=rq.node)
    rep.floor("two-context requestor scenarios", n_rp, 15)
    rep.extra["role_space_points"] = n
    rep.extra["exhaustive"] = True
    rep.sample({"point": "[normal] proposal=(True, True), acceptor roles=(False, True)", "acceptor": ne.acceptor((True, True), (False, True)), "requestor": ne.requestor((True, True), 0, (False, True))})

    # ---- requestor view ---------------------------------------------------------------------------
    fn = rq.fn
    fq = "presentation.negotiate_as_requestor"
    check_one_result(rep, pres, fn, fq, "output", ["requestor_contexts.items()"])
    check_iteration_independent(rep, pres, fn, fq, "requestor_contexts.items()", ["output"])
    # the acceptor's loop decides what the requestor is told: it must be iteration-independent too
    fa_ = repo.func("presentation", "negotiate_as_acceptor")
    check_iteration_independent(rep, pres, fa_, "presentation.negotiate_as_acceptor", "requestor_contexts.items()", ["result_contexts", "reply_roles"])
    src = [norm(s) for s in walk_no_nested(fn) if isinstance(s, ast.stmt)]
    dicts = "requestor_contexts = {context.context_id: context for context in rq_contexts}" in src and "acceptor_contexts = {context.context_id: context for context in ac_contexts}" in src
    rep.check(dicts, "requestor-view", fq, "requested and replied contexts are matched by context id", "the reply for a requested context is the result item carrying the same context id", mod=pres, node=fn)
    loop = [f for f in walk_no_nested(fn) if isinstance(f, ast.For) and norm(f.iter) == "requestor_contexts.items()"]
    rep.need(len(loop) == 1, f"{fq}: loop vanished")
    body = [norm(s) for s in loop[0].body]
    ok = "context.context_id = context_id" in body and "context.abstract_syntax = rq_context.abstract_syntax" in body and "output.append(context)" in body and "context = PresentationContext()" in body
    rep.check(ok, "requestor-view", fq, "fresh context with the requested id and abstract syntax", "every requested context must appear once with its own id and abstract syntax", mod=pres, node=loop[0])
    br = [i for i in loop[0].body if isinstance(i, ast.If) and norm(i.test) == "context_id in acceptor_contexts"]
    rep.need(len(br) == 1, f"{fq}: reply lookup branch vanished")
    tb = [norm(s) for s in ast.walk(br[0]) if isinstance(s, ast.stmt)]
    ok = "ac_context = acceptor_contexts[context_id]" in tb and "context.transfer_syntax = [ac_context.transfer_syntax[0]]" in tb and "context.result = ac_context.result" in tb
    rep.check(ok, "requestor-view", fq, "transfer syntax and result taken from the reply with the same id", "the negotiated transfer syntax and result are the acceptor's for that context id", mod=pres, node=br[0])
    eb = [norm(s) for s in br[0].orelse]
    rep.check("context.result = 2" in eb and "context.transfer_syntax = [rq_context.transfer_syntax[0]]" in eb, "requestor-view", fq, "missing reply -> result 0x02", "a requested context the acceptor did not answer must be reported rejected, not dropped or accepted", mod=pres, node=br[0])
    # ACSE side: reply roles and result list come from the received A-ASSOCIATE-AC
    na = rq.acse_fn
    srca = [norm(s) for s in walk_no_nested(na) if isinstance(s, ast.stmt)]
    ok = any(s.startswith("negotiated_contexts = negotiate_as_requestor(self.requestor.requested_contexts, rsp.presentation_context_definition_results_list, ac_roles)") for s in srca)
    ok = ok and "ac_roles = {uid: (ii.scu_role, ii.scp_role) for uid, ii in self.acceptor.role_selection.items()}" in srca
    rep.check(ok, "requestor-view", "acse.ACSE._negotiate_as_requestor", "negotiate_as_requestor(requested, AC results, AC roles)", "the requestor's view must be computed from the received results and role replies", mod=acse, node=na)
    from ..nego_eval import eval_context_partition
    from ..minipy import Unsupported as _Unsup
    try:
        probs, n_sites = eval_context_partition(repo, na)
        rep.check(n_sites >= 1 and not probs, "requestor-view", "acse.ACSE._negotiate_as_requestor", probs[0][0] if probs else "accepted = result 0, rejected = the rest", f"every negotiated context must land in exactly one of the accepted / rejected tables, the accepted one exactly for result 0 (evaluated for the result codes 0..4, 5, 255 and None){': ' + probs[0][1] if probs else ''}", mod=acse, node=probs[0][0] if probs else na)
    except _Unsup as exc:
        rep.defer(f"acse.ACSE._negotiate_as_requestor: the accepted / rejected partition could not be evaluated ({exc})")

    # ---- wire leg ------------------------------------------------------------------------------------
    sp = json.loads((VERIF / "spec" / "ps3_8_pdu_layout.json").read_text())
    pm = PduModel(repo)
    for cname in ("SCP_SCU_RoleSelectionSubItem", "PresentationContextItemRQ", "PresentationContextItemAC"):
        ci = pm.classes[cname]
        got, rows = code_layout(pm, ci)
        g = [[x for x in f[:3] if not isinstance(x, list)] for f in got]
        w = [[x for x in f if x not in ("n", "0..1")] for f in sp["classes"][cname]["fields"]]
        rep.check(g == w, "wire", f"pdu_items.{cname}", " | ".join(" ".join(str(x) for x in f) for f in g), f"layout differs from PS3.7/PS3.8: {w}", mod=ci.mod, node=ci.getters["_encoders"])

    # ---- the proposed roles reach every requested context -------------------------------------
    import ast as _ast
    from ..loader import enclosing as _enc, walk_no_nested as _walk, norm as _norm
    rep.rule("every-context", "the requestor copies its proposed roles onto every requested context (per context, looked up by abstract syntax), not onto one context per abstract syntax")
    acse_m = repo.mod("acse")
    nr = repo.func("acse", "ACSE._negotiate_as_requestor")
    n_sets = 0
    for s in _walk(nr):
        tgts = []
        if isinstance(s, _ast.Assign):
            for t in s.targets:
                tgts += list(t.elts) if isinstance(t, _ast.Tuple) else [t]
        for t in tgts:
            if isinstance(t, _ast.Attribute) and t.attr in ("scu_role", "scp_role"):
                n_sets += 1
                recv = t.value
                lp = _enc(s, (_ast.For,))
                ok = False
                while lp is not None:
                    if isinstance(recv, _ast.Name) and _norm(lp.target) == recv.id and _norm(lp.iter) in ("self.requestor.requested_contexts", "self.assoc.requestor.requested_contexts"):
                        ok = True
                    lp = _enc(lp, (_ast.For,))
                rep.check(ok, "every-context", "acse.ACSE._negotiate_as_requestor", s, f"`{_norm(t)}` is not set on the loop variable of a loop over requestor.requested_contexts: when the same abstract syntax is proposed in several contexts only some of them get the proposed roles, the others fall back to the default role while the acceptor applies the negotiated one - the two sides' roles are then not complementary", mod=acse_m, node=s)
    rep.floor("requestor-side role assignments", n_sets, 2)

    # ---- a decided role reply is never withdrawn --------------------------------------------------
    # (C10's reply-ownership rule: if the acceptor drops or replaces a reply it decided, the requestor
    # falls back to default roles while the acceptor keeps the negotiated ones)
    from .c10 import check_reply_ownership
    rep.rule("reply-ownership", "the acceptor's role-reply map is only added to: a decided reply is never dropped or replaced")
    for fname_ in ("negotiate_as_acceptor", "negotiate_unrestricted"):
        fn_ = pres.funcs.get(fname_)
        if fn_ is not None and any(isinstance(x, _ast.Name) and x.id == "reply_roles" for x in _ast.walk(fn_)):
            check_reply_ownership(rep, pres, fn_, f"presentation.{fname_}", "reply_roles")
    check_unique_ids(repo, rep)

    # ---- what crosses the wire is converted completely ------------------------------------------------
    from ..delegate import delegate
    rep.rule("wire-conversion", "the A-ASSOCIATE PDUs convert to / from primitives without dropping or defaulting a parameter (C01's primitive-pairs rule)")
    delegate(repo, rep, tier, "C01", ("primitive-pairs",), "wire-conversion", "a proposed context or its result can vanish between the PDU and the primitive: it then appears neither as accepted nor as rejected on the requestor side, or the two sides hold different sets")
    rep.rule("private-contexts", "each acceptor association negotiates against its own copy of the supported contexts (C10's config-copy)")
    delegate(repo, rep, tier, "C10", ("config-copy",), "private-contexts", "the supported-context objects are shared between the associations of a server: a role setting changed for one association (an EVT_REQUESTED handler, add_supported_context at run time) between the two reads of the negotiation makes the acceptor's stored outcome and its role reply disagree - the two sides end with roles that are not complementary")

def _affine(e, var: str):
    """expression over one integer variable -> (a, b) with e == a*var + b, or None"""
    from ..loader import strip_cast

    e = strip_cast(e)
    if isinstance(e, ast.Constant) and isinstance(e.value, int) and not isinstance(e.value, bool):
        return (0, e.value)
    if isinstance(e, ast.Name) and e.id == var:
        return (1, 0)
    if isinstance(e, ast.UnaryOp) and isinstance(e.op, ast.USub):
        r = _affine(e.operand, var)
        return None if r is None else (-r[0], -r[1])
    if isinstance(e, ast.BinOp):
        l, r = _affine(e.left, var), _affine(e.right, var)
        if l is None or r is None:
            return None
        if isinstance(e.op, ast.Add):
            return (l[0] + r[0], l[1] + r[1])
        if isinstance(e.op, ast.Sub):
            return (l[0] - r[0], l[1] - r[1])
        if isinstance(e.op, ast.Mult) and (l[0] == 0 or r[0] == 0):
            return (l[0] * r[1] + r[0] * l[1], l[1] * r[1])
        if isinstance(e.op, ast.LShift) and r[0] == 0 and r[1] >= 0:
            return (l[0] << r[1], l[1] << r[1])
    return None


def check_unique_ids(repo: Repo, rep: Report) -> None:
    """Both negotiate_as_requestor and the A-ASSOCIATE-AC handling key the proposed contexts by context ID
    (dicts): two proposed contexts with one ID collapse into one, and 'every proposed context appears
    exactly once' is lost. AE.associate() is where the IDs are given out: in its numbering loop every
    context must get, on every path, an ID that is an injective odd function of its position."""
    from ..cfg import CFG, typestate

    rep.rule("unique-ids", "AE.associate() numbers every proposed context, unconditionally, with an odd ID that is injective in its position (PS3.8 9.3.2.2: odd, unique per association)")
    ae = repo.mod("ae")
    fn = repo.func("ae", "ApplicationEntity.associate")
    fq = "ae.ApplicationEntity.associate"
    loops = []
    for lp in walk_no_nested(fn):
        if isinstance(lp, ast.For) and isinstance(lp.iter, ast.Call) and norm(lp.iter.func) == "enumerate" and isinstance(lp.target, ast.Tuple) and len(lp.target.elts) == 2 and all(isinstance(e, ast.Name) for e in lp.target.elts):
            idx, elt = lp.target.elts[0].id, lp.target.elts[1].id
            if any(isinstance(s, ast.Assign) and norm(s.targets[0]) == f"{elt}.context_id" for s in ast.walk(lp)):
                loops.append((lp, idx, elt))
    if len(loops) != 1:
        rep.defer(f"{fq}: the loop that numbers the proposed contexts was not found ({len(loops)} candidates)")
        return
    lp, idx, elt = loops[0]
    writes = [s for s in ast.walk(lp) if isinstance(s, ast.Assign) and norm(s.targets[0]) == f"{elt}.context_id"]
    for w in writes:
        ab = _affine(w.value, idx)
        ok = ab is not None and ab[0] != 0 and ab[0] % 2 == 0 and ab[1] % 2 == 1 and ab[1] > 0
        rep.check(ok, "unique-ids", fq, w, f"the ID given to the context at position {idx} is {norm(w.value)}" + (f" = {ab[0]}*{idx} + {ab[1]}" if ab else "") + ": it must be odd and different for every position", mod=ae, node=w)
    # on every path through one iteration the ID is written
    cfg = CFG(fn, body=body_nodoc(fn), local_exc_only=True)
    it = [n for n in cfg.nodes if n.kind == "iter" and n.ast is lp]
    if len(it) != 1:
        rep.defer(f"{fq}: numbering loop not in the flow graph")
        return

    def transfer(n, st):
        if n is it[0]:
            # entering the next iteration (or leaving the loop): 'unnumbered' here means the iteration
            # that just ended had a path without a write
            return [(st if st == "leak" else ("leak" if st == "unnumbered" else "unnumbered"), None)]
        if n.kind == "stmt" and n.ast in writes:
            return [("numbered", {l for _, l in n.succ if l != "exc"}), (st, {"exc"})]
        return [(st, None)]

    ins, _ = typestate(cfg, "numbered", transfer)
    # state at the loop head coming round again: 'unnumbered' there means an iteration ended without a write
    leak = "leak" in ins.get(it[0].id, set()) or any("leak" in v for v in ins.values())
    rep.check(not leak, "unique-ids", fq, lp, "a path through one iteration of the numbering loop leaves the context with the ID it came with (None, or the ID it had in an earlier association): re-proposed contexts then share an ID with a freshly numbered one, and the requestor's dict of proposed contexts silently drops one of them", mod=ae, node=lp)
    # the numbering happens on the association's own copies, after the copy
    rep.floor("context-ID writes in associate()", len(writes), 1)


def check_user_information_kept(repo, rep, rule: str) -> None:
    """The A-ASSOCIATE primitive's user_information setter is on both paths: it validates what the local user hands
    in, and it receives what was decoded from the peer's A-ASSOCIATE-RQ / -AC. Every item of a supported class must
    come out as it went in - whatever its values. An SCP/SCU role reply of (False, False) is the acceptor saying
    'neither role': if the setter drops it the requestor falls back to the default roles and sends requests on a
    context it holds no role on. Evaluated (sa/minipy.py) with one item of every supported class and role items
    of all four value pairs."""
    from ..minipy import Interp, Obj, Raised, Unsupported

    pp = repo.mod("pdu_primitives")
    ci = pp.classes.get("A_ASSOCIATE")
    fn = ci.setters.get("user_information") if ci is not None else None
    if fn is None:
        rep.defer("pdu_primitives.A_ASSOCIATE.user_information setter vanished")
        return
    fq = "pdu_primitives.A_ASSOCIATE.user_information (setter)"
    names = sorted({c.value for c in ast.walk(fn) if isinstance(c, ast.Constant) and isinstance(c.value, str) and c.value in pp.classes})
    if len(names) < 5:
        rep.defer(f"{fq}: the list of supported item classes was not found")
        return

    def mk(cls, **attrs):
        a = {"__class__": Obj("type", {"__name__": cls}), "sop_class_uid": "1.2.3", "scu_role": None, "scp_role": None}
        a.update(attrs)
        return Obj(cls, a)

    items = [mk(nm) for nm in names if nm != "SCP_SCU_RoleSelectionNegotiation"]
    for scu in (True, False):
        for scp in (True, False):
            items.append(mk("SCP_SCU_RoleSelectionNegotiation", scu_role=scu, scp_role=scp, sop_class_uid=f"1.2.{int(scu)}.{int(scp)}"))
    me = Obj("A_ASSOCIATE", {"_user_information": []})
    params = [a.arg for a in fn.args.args]
    g = {nm: nm for nm in pp.classes}
    try:
        Interp(g).call_function(fn, {params[0]: me, params[1]: list(items)})
    except Unsupported as exc:
        rep.defer(f"{fq}: not evaluable with stand-ins ({exc})")
        return
    except Raised as r:
        rep.fail(rule, fq, f"raises {r.kind} on a list of supported items", "the setter rejects items of supported classes", mod=pp, node=fn)
        return
    got = me.attrs.get("_user_information")
    kept = isinstance(got, list) and len(got) == len(items) and all(a is b for a, b in zip(got, items))
    lost = [f"{i.cls}({i.attrs.get('scu_role')}, {i.attrs.get('scp_role')})" if i.cls.startswith("SCP_SCU") else i.cls for i in items if not (isinstance(got, list) and any(i is x for x in got))]
    rep.check(kept, rule, fq, f"{len(items)} items of {len(names)} supported classes in -> {len(got) if isinstance(got, list) else got!r} out", f"the setter drops or reorders supported items: lost {lost} - it also receives what was decoded from the peer's PDU, so an acceptor's SCP/SCU role reply of (False, False) ('neither role accepted') never reaches the requestor's role negotiation, which falls back to the default roles and sends requests on a context it holds no role on", mod=pp, node=fn)
